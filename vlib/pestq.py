"""Queries over pest2json output: normalised grammar rules."""
import json
import os

from . import core, stages

BUILTINS = {"ANY", "SOI", "EOI", "WHITESPACE", "COMMENT", "NEWLINE", "ASCII_DIGIT", "ASCII_ALPHA", "ASCII_ALPHANUMERIC"}


def load_grammar(path=None):
    stages.build_tools()
    path = path or os.path.join(core.REPO, "pdl-compiler/src/parser.rs")
    p = core.sh([os.path.join(stages.TOOLBIN, "pest2json"), path], check=False)
    try:
        return json.loads(p.stdout)
    except Exception:
        return {"error": p.stdout[-500:] + p.stderr[-500:]}


def normalise(rules, productions):
    """rules: pest2json rules; productions: names kept as references (others inlined)."""
    by = {r["name"]: r for r in rules}

    def norm(e, stack):
        k = e["k"]
        if k == "Str":
            return ["str", e["v"]]
        if k == "Insens":
            return ["istr", e["v"]]
        if k == "Range":
            return ["range", e["lo"], e["hi"]]
        if k == "Ident":
            nme = e["v"]
            if nme in productions or nme in BUILTINS or nme not in by or nme in stack:
                return ["ref", nme]
            return norm(by[nme]["expr"], stack + [nme])
        if k == "Seq":
            out = []
            for x in (norm(e["a"], stack), norm(e["b"], stack)):
                if x[0] == "seq":
                    out += x[1]
                else:
                    out.append(x)
            return ["seq", out]
        if k == "Choice":
            out = []
            for x in (norm(e["a"], stack), norm(e["b"], stack)):
                for y in (x[1] if x[0] == "alt" else [x]):
                    if y not in out:
                        out.append(y)
            return ["alt", out] if len(out) > 1 else out[0]
        if k == "Opt":
            return ["opt", norm(e["e"], stack)]
        if k == "Rep":
            return ["rep", norm(e["e"], stack)]
        if k == "RepOnce":
            x = norm(e["e"], stack)
            return ["seq", [x, ["rep", x]]]
        if k == "NegPred":
            return ["not", norm(e["e"], stack)]
        if k == "PosPred":
            return ["and", norm(e["e"], stack)]
        return [k.lower(), json.dumps(e, sort_keys=True)]

    out = {}
    for r in rules:
        ty = r["ty"]
        out[r["name"]] = {
            "atomic": ty in ("Atomic", "CompoundAtomic"),
            "silent": ty == "Silent",
            "expr": norm(r["expr"], [r["name"]]),
        }
    return out


def alternatives(rules, name):
    """names of the rules a silent choice rule expands to"""
    by = {r["name"]: r for r in rules}
    out = []

    def walk(e):
        if e["k"] == "Choice":
            walk(e["a"])
            walk(e["b"])
        elif e["k"] == "Ident":
            out.append(e["v"])
    if name in by:
        walk(by[name]["expr"])
    return out


def literals(rules, name):
    """string literals reachable at the *start* of rule `name` (alternatives of a prefix)"""
    by = {r["name"]: r for r in rules}
    out = []

    def first(e):
        k = e["k"]
        if k == "Str":
            out.append(e["v"])
        elif k == "Seq":
            first(e["a"])
        elif k == "Choice":
            first(e["a"])
            first(e["b"])
        elif k == "Ident" and e["v"] in by:
            first(by[e["v"]]["expr"])
    if name in by:
        first(by[name]["expr"])
    return out
