"""Abstract evaluation of emitted Java (javac's attributed syntax trees, see tools/javadump): the static parsers
fromBytes(ByteBuffer)/fromPayload(ByteBuffer), toBytes / toBytes(ByteBuffer payload), fieldWidth(), the enum conversion
functions and the Utils.getNN/putNN helpers.

Java integers are signed: wire values are modelled as i8/i16/i32/i64 symbols, widening conversions as sign extension
(`sext`), Byte/Short/Integer.toUnsignedInt/Long as masks.  ByteBuffer underflow and explicit throws are rejections (the
property allows an exception), so there are no memory-safety obligations; the obligations are about *wrong objects*: a
sign-extended wire value used as a quantity or stored in a field, helpers that do not compose the bytes they read, and the
layout / dispatch comparisons made by the property module."""
import re

from . import sym
from .sym import E, Cond, Env, const, binop

JT = {"byte": "i8", "short": "i16", "int": "i32", "long": "i64", "boolean": "bool", "char": "u16"}
sym.TYMAX.setdefault("bool", 1)
BITS = {"i8": 8, "i16": 16, "i32": 32, "i64": 64, "u16": 16, "bool": 1, "w32": 32, "w64": 64}
# w32 / w64: results of Java int / long arithmetic, which wraps (no range clipping of intervals as for Rust's checked types)
sym.TYBITS.setdefault("w32", 32)
sym.TYBITS.setdefault("w64", 64)
BIN = {"PLUS": "add", "MINUS": "sub", "MULTIPLY": "mul", "DIVIDE": "div", "REMAINDER": "rem", "LEFT_SHIFT": "shl",
       "RIGHT_SHIFT": "sar", "UNSIGNED_RIGHT_SHIFT": "shr", "AND": "and", "OR": "or", "XOR": "xor"}
CMP = {"LESS_THAN": "lt", "LESS_THAN_EQUAL": "le", "GREATER_THAN": "gt", "GREATER_THAN_EQUAL": "ge", "EQUAL_TO": "eq",
       "NOT_EQUAL_TO": "ne"}


class Obl:
    def __init__(self, kind, ok, what, role=""):
        self.kind, self.ok, self.what, self.role = kind, ok, what, role

    def __repr__(self):
        return f"[{'ok' if self.ok else 'FAIL'}] {self.kind}: {self.what}"


class BufV:
    _n = 0

    def __init__(self, rem, label=None, origin="input"):
        BufV._n += 1
        self.ver = BufV._n
        self.rem, self.label, self.origin = rem, label, origin
        self.total = rem
        # byte order of multi-byte accesses: None = a ByteBuffer parameter, in the order the callers guarantee (the
        # module's; every call site that passes a buffer carries that obligation); wrap/allocate/slice give BIG_ENDIAN
        self.order = None


class ArrV:
    def __init__(self, name, length, elem=None):
        self.name, self.length, self.elem = name, length, elem


class ListV:
    def __init__(self, name):
        self.name = name
        self.elem = None


class ObjV:
    def __init__(self, ty, fields=None, name=None):
        self.ty, self.fields, self.name = ty, fields if fields is not None else {}, name


class EnumV:
    def __init__(self, ty, e):
        self.ty, self.e = ty, e


class Opaque:
    def __init__(self, what=""):
        self.what = what


class Ret(Exception):
    def __init__(self, val):
        self.val = val


class Thrown(Exception):
    pass


def camel(name):
    """name comparison modulo the backend's camel-casing (a trailing underscore is kept by Class::name_from_id)"""
    return re.sub(r"[^A-Za-z0-9]", "", name).lower() + ("_" if name.endswith("_") else "")


class JModule:
    """all classes of one generated package"""

    def __init__(self, dirpath):
        import json
        import os
        self.classes = {}
        for f in sorted(os.listdir(dirpath)):
            if not f.endswith(".json") or f.startswith("_"):
                continue
            js = json.load(open(os.path.join(dirpath, f)))
            for c in js.get("decls", []):
                self._add(c, None)
        self.big = None
        for c in self.classes.values():
            for m in c["methods"].get("fromBytes", []):
                txt = str(m)
                if "BIG_ENDIAN" in txt:
                    self.big = True
                elif "LITTLE_ENDIAN" in txt and self.big is None:
                    self.big = False

    def _add(self, c, outer):
        if c.get("k") not in ("CLASS", "INTERFACE", "ENUM", "RECORD"):
            return
        name = c["name"] if outer is None else f"{outer}.{c['name']}"
        info = {"node": c, "name": name, "methods": {}, "fields": {}, "extends": None, "inner": []}
        ex = c.get("extends")
        if ex:
            info["extends"] = ex.get("name") or (ex.get("base") or {}).get("name") or ex.get("t")
        for m in c.get("members", []):
            if m.get("k") == "METHOD":
                info["methods"].setdefault(m["name"], []).append(m)
            elif m.get("k") == "VARIABLE":
                info["fields"][m["name"]] = m
            elif m.get("k") in ("CLASS", "INTERFACE", "ENUM"):
                info["inner"].append(m["name"])
                self._add(m, name)
        self.classes[name] = info

    def by_decl(self, decl):
        k = camel(decl)
        for n, c in self.classes.items():
            if "." not in n and camel(n) == k:
                return c
        return None

    def method(self, cls, name, pred=None):
        for m in cls["methods"].get(name, []):
            if m.get("body") is not None and (pred is None or pred(m)):
                return m
        return None


def ptype(m, i):
    ps = m.get("params", [])
    if i >= len(ps):
        return None
    t = ps[i].get("type") or {}
    return t.get("name") or t.get("t")


class JEval:
    def __init__(self, jm, cls, fn, mode):
        self.jm, self.cls, self.fn, self.mode = jm, cls, fn, mode
        self.env = Env()
        self.obls = []
        self.vars = {}
        self.fields = {}            # builder / this fields bound
        self.nsym = 0
        self.items = []
        self.chunks = {}
        self.roles = {}
        self.var = {}
        self.checks = []
        self.loop = None
        self.dispatch = []          # (cond, child class)
        self.result = None
        self.always_fails = None
        self.undecided = []
        self.depth = 0
        self.pushed = []
        self.size_value = None
        self.statics = {}

    # ------------------------------------------------------------------ helpers
    def obl(self, kind, ok, what, role=""):
        self.obls.append(Obl(kind, bool(ok), what, role))

    def fresh(self, prefix, ty, lo=None, hi=None):
        self.nsym += 1
        if ty in BITS and ty != "bool" and lo is None:
            lo, hi = -(1 << (BITS[ty] - 1)), (1 << (BITS[ty] - 1)) - 1
        return sym.sym(f"{prefix}#{self.nsym}", ty, lo if lo is not None else 0, hi)

    def jty(self, t):
        if not t:
            return None
        t = str(t)
        return JT.get(t) or JT.get(t.lower())

    def uncast(self, e):
        while isinstance(e, E) and e.op in ("cast", "sext"):
            e = e.args[0]
        return e

    def widen(self, e, ty):
        """Java conversion of an integral value to type ty (assignment, promotion, cast)"""
        if not isinstance(e, E) or ty is None or e.ty == ty or e.ty is None:
            return e
        if e.is_const():
            v = e.cval()
            n = BITS.get(ty)
            if n and ty != "bool":
                v &= (1 << n) - 1
                if v >= 1 << (n - 1):
                    v -= 1 << n
            return const(v, ty)
        a, b = BITS.get(e.ty, 64), BITS.get(ty, 64)
        if b > a:
            return E("sext", (e,), ty)
        if b == a:
            return e
        return E("cast", (e,), ty)

    def promote(self, a, b):
        long_ = any(t in ("i64", "w64") for t in (a.ty, b.ty))
        ty = "i64" if long_ else "i32"
        return self.widen(a, ty), self.widen(b, ty), ("w64" if long_ else "w32")

    # ------------------------------------------------------------------ running
    def run(self):
        body = self.fn.get("body")
        for i, p in enumerate(self.fn.get("params", [])):
            t = ptype(self.fn, i)
            nm = p["name"]
            if t == "ByteBuffer":
                b = BufV(self.fresh("len", "i32", 0, 2 ** 31 - 1), nm, "input" if self.mode == "parse" else "payload")
                self.vars[nm] = b
                if self.mode == "parse":
                    self.input = b
            elif self.jty(t):
                ty = self.jty(t)
                self.vars[nm] = sym.sym("value", ty, -(1 << (BITS[ty] - 1)), (1 << (BITS[ty] - 1)) - 1)
            else:
                self.vars[nm] = Opaque("param")
        self.returned = False
        try:
            self.block(body)
        except Ret as r:
            self.result = r.val
            self.returned = True
        except Thrown:
            pass
        self.finish()
        return self

    def block(self, b):
        if b is None:
            return
        if b.get("k") == "BLOCK":
            for s in b.get("stmts", []):
                self.stmt(s)
        else:
            self.stmt(b)

    def stmt(self, s):
        k = s.get("k")
        m = getattr(self, "s_" + k, None)
        if m is None:
            self.obl("unmodelled", False, f"statement {k}")
            return
        m(s)

    def s_BLOCK(self, s):
        self.block(s)

    def s_EMPTY_STATEMENT(self, s):
        pass

    def s_VARIABLE(self, s):
        t = s.get("type") or {}
        tn = t.get("name") or t.get("t")
        init = s.get("init")
        v = self.expr(init) if init is not None else Opaque("uninit")
        ty = self.jty(tn)
        if isinstance(v, E) and ty:
            v = self.widen(v, ty)
        if isinstance(v, BufV):
            v.label = s["name"]
        if isinstance(v, ArrV) and v.name is None:
            v.name = s["name"]
        if isinstance(v, ListV):
            v.name = s["name"]
        self.vars[s["name"]] = v
        if isinstance(v, E):
            self.var[s["name"]] = self.uncast(v)
            self.use(s["name"], v, field=False)

    def s_EXPRESSION_STATEMENT(self, s):
        self.expr(s["e"])

    def s_RETURN(self, s):
        v = self.expr(s["e"]) if s.get("e") else None
        raise Ret(v)

    def s_THROW(self, s):
        raise Thrown()

    def is_throw(self, st):
        if st is None:
            return False
        if st.get("k") == "BLOCK":
            ss = st.get("stmts", [])
            return len(ss) == 1 and ss[0].get("k") == "THROW"
        return st.get("k") == "THROW"

    def s_IF(self, s):
        c = self.cond(s["cond"])
        then, els = s.get("then"), s.get("else")
        known = self.env.cond_value(c) if c is not None else None
        if self.is_throw(then) and els is None:
            self.checks.append((self.classify(c), c, None))
            if known is True:
                if self.depth == 0 and self.loop is None:
                    self.always_fails = ("reject", 0)
                raise Thrown()
            if c is not None:
                self.note_fixed(c)
                self.env.assume(c.negate())
            return
        if known is True:
            return self.block(then)
        if known is False:
            return self.block(els) if els is not None else None
        # child dispatch chains and other two-way branches
        self.depth += 1
        try:
            self.two_way(c, then, els)
        finally:
            self.depth -= 1

    def two_way(self, c, then, els):
        saved_env = self.env
        saved_vars = dict(self.vars)
        n0 = len(self.items)
        self.env = saved_env.copy()
        if c is not None:
            self.env.assume(c)
        r1 = None
        try:
            self.block(then)
        except Ret as r:
            r1 = r
        except Thrown:
            r1 = "thrown"
        v1 = dict(self.vars)
        items1 = self.items[n0:]
        del self.items[n0:]
        self.vars = dict(saved_vars)
        self.env = saved_env.copy()
        if c is not None:
            self.env.assume(c.negate())
        r2 = None
        if els is not None:
            try:
                self.block(els)
            except Ret as r:
                r2 = r
            except Thrown:
                r2 = "thrown"
        items2 = self.items[n0:]
        del self.items[n0:]
        if r1 == "thrown" and r2 == "thrown":
            raise Thrown()
        if r1 == "thrown":
            self.items += items2
            self.checks.append((self.classify(c), c, None))
            return
        if r2 == "thrown":
            self.vars = v1
            self.items += items1
            self.checks.append((self.classify(c.negate() if c is not None else None), c, None))
            return
        if isinstance(r1, Ret) and isinstance(r2, Ret):
            raise r1
        if isinstance(r1, Ret):
            self.items += items2
            return
        if isinstance(r2, Ret):
            self.vars = v1
            self.items += items1
            return
        # join: variables assigned differently become opaque unless equal
        for k, a in v1.items():
            b = self.vars.get(k)
            if a is not b and not (isinstance(a, E) and isinstance(b, E) and a.key() == b.key()):
                if isinstance(a, ObjV) and isinstance(b, ObjV):
                    self.vars[k] = ObjV("?", {}, k)
                    self.vars[k].alternatives = [a, b]
                elif isinstance(a, E) and isinstance(b, E) and c is not None:
                    self.vars[k] = sym.ite(c, a, b, a.ty)
                else:
                    self.vars[k] = a if b is None else a
        self.env = saved_env
        if items1 or items2:
            self.items.append({"k": "cond2", "c": c, "then": items1, "else": items2})

    def classify(self, c):
        if c is None:
            return "reject"
        k = c.key()
        if "rem(" in k and c.op == "ne":
            return "ArraySizeError"
        return "reject"

    def note_fixed(self, c):
        if c.op == "ne" and isinstance(c.args[0], E) and isinstance(c.args[1], E):
            a, b = c.args
            if a.is_const():
                a, b = b, a
            if b.is_const():
                self.use("fixed", a, kind="fixed", value=b.cval() & ((1 << 64) - 1))

    def s_FOR_LOOP(self, s):
        for i in s.get("init", []):
            self.stmt(i)
        cnd = s.get("cond")
        ivar, bound = None, None
        if cnd and cnd.get("k") == "LESS_THAN" and cnd["a"].get("k") == "IDENTIFIER":
            ivar = cnd["a"]["name"]
            bound = self.expr(cnd["b"])
        if ivar is None or not isinstance(bound, E):
            self.obl("unmodelled", False, "for loop shape")
            return
        start = self.vars.get(ivar)
        if self.mode == "helper" and bound.is_const() and isinstance(start, E) and start.is_const():
            for i in range(start.cval(), bound.cval()):
                self.vars[ivar] = const(i, "i32")
                self.block(s["body"])
            return
        self.generic_loop(s["body"], count=bound, ivar=ivar)

    def s_WHILE_LOOP(self, s):
        self.generic_loop(s["body"], cond_node=s["cond"])

    def s_ENHANCED_FOR_LOOP(self, s):
        it = self.expr(s["iter"])
        if not isinstance(it, ArrV):
            self.obl("unmodelled", False, "enhanced for over a non-array")
            return
        self.vars[s["var"]["name"]] = self.elem_of(it)
        self.generic_loop(s["body"], count=it.length, over=it)

    def generic_loop(self, body, count=None, cond_node=None, ivar=None, over=None):
        outer = self.loop
        lp = {"reads": [], "count": count, "cond": None, "ivar": ivar, "over": over, "nested": [], "stores": [], "items": [],
              "adds": [], "dec": None}
        bufs = {k: v for k, v in self.vars.items() if isinstance(v, BufV)}
        lp["pre"] = {k: v.rem for k, v in bufs.items()}
        self.loop = lp
        saved_env = self.env
        self.env = saved_env.copy()
        if ivar is not None:
            self.vars[ivar] = self.fresh("i", "i32", 0, 2 ** 31 - 1)
        if cond_node is not None:
            lp["cond"] = self.cond(cond_node)
        n0 = len(self.items)
        try:
            self.block(body)
        except (Ret, Thrown):
            pass
        lp["body_items"] = self.items[n0:]
        del self.items[n0:]
        self.loop = outer
        self.env = saved_env
        per_iter = sum(r[0] for r in lp["reads"]) if lp["reads"] and not lp["nested"] else None
        for k, v in bufs.items():
            cnt = lp["count"]
            if per_iter is not None and isinstance(cnt, E) and cnt.is_const() and len(bufs) == 1:
                v.rem = binop("sub", lp["pre"][k], const(cnt.cval() * per_iter, "i32"), "i32")
                continue
            if not lp["reads"] and not lp["nested"]:
                v.rem = lp["pre"][k]
                continue
            nr = self.fresh("len", "i32", 0, 2 ** 31 - 1)
            v.rem = nr
        self.loop_done(lp)

    # ------------------------------------------------------------------ conditions / expressions
    def cond(self, n):
        k = n.get("k")
        if k == "PARENTHESIZED":
            return self.cond(n["e"])
        if k in CMP:
            a, b = self.deref(self.expr(n["a"])), self.deref(self.expr(n["b"]))
            if isinstance(a, tuple) and a and a[0] == "cmpu" and isinstance(b, E) and b.is_const() and b.cval() == 0:
                # Integer.compareUnsigned(x, y) OP 0  ==  x OP y on the unsigned views
                x, y, _ = self.promote(a[1], a[2])
                return Cond(CMP[k], x, y)
            if k in ("EQUAL_TO", "NOT_EQUAL_TO") and isinstance(a, EnumV) and (isinstance(b, EnumV) or (isinstance(b, tuple) and b and b[0] == "static")):
                # `x == Kind.A` on enum objects: reference comparison; against a value-tag singleton it selects like
                # equals() (that it is written with == is reported by the reference-equality rule of C19)
                c_ = self.call_equals(a, b)
                if c_ is not None:
                    return c_ if k == "EQUAL_TO" else c_.negate()
            a, b = self.as_int(a), self.as_int(b)
            if a is None or b is None:
                return Cond("opaque", sym.sym(f"cmp#{self.nsym}"))
            a, b, _ = self.promote(a, b)
            return Cond(CMP[k], a, b)
        if k in ("CONDITIONAL_AND", "CONDITIONAL_OR"):
            a, b = self.cond(n["a"]), self.cond(n["b"])
            if a is None or b is None:
                return None
            return Cond("and" if k == "CONDITIONAL_AND" else "or", a, b)
        if k == "LOGICAL_COMPLEMENT":
            c = self.cond(n["e"])
            return c.negate() if c is not None else None
        if k == "BOOLEAN_LITERAL":
            return Cond("true" if str(n.get("v")) == "true" else "false")
        v = self.deref(self.expr(n))
        if isinstance(v, Cond):
            return v
        if isinstance(v, E) and v.ty == "bool":
            return Cond("ne", v, const(0, "bool"))
        if isinstance(v, Opaque):
            self.nsym += 1
            return Cond("opaque", sym.sym(f"{v.what}#{self.nsym}", "bool"))
        return None

    def as_int(self, v):
        if isinstance(v, E):
            return v
        if isinstance(v, EnumV):
            return v.e
        return None

    def expr(self, n):
        if n is None:
            return Opaque("null")
        k = n["k"]
        m = getattr(self, "e_" + k, None)
        if m is not None:
            return m(n)
        if k in BIN:
            return self.binary(n)
        if k in CMP or k in ("CONDITIONAL_AND", "CONDITIONAL_OR", "LOGICAL_COMPLEMENT"):
            c = self.cond(n)
            return c if c is not None else Opaque("cond")
        if k.endswith("_ASSIGNMENT"):
            return self.compound(n)
        self.obl("unmodelled", False, f"expression {k}")
        return Opaque(k)

    def e_INT_LITERAL(self, n):
        return const(int(n["v"]), "i32")

    def e_LONG_LITERAL(self, n):
        return const(int(n["v"]), "i64")

    def e_BOOLEAN_LITERAL(self, n):
        return Cond("true" if str(n.get("v")) == "true" else "false")

    def e_STRING_LITERAL(self, n):
        return Opaque("string")

    def e_CHAR_LITERAL(self, n):
        return const(int(n.get("v", 0)), "i32")

    def e_NULL_LITERAL(self, n):
        return Opaque("null")

    def e_PARENTHESIZED(self, n):
        return self.expr(n["e"])

    def e_IDENTIFIER(self, n):
        nm = n["name"]
        if nm in self.vars:
            return self.vars[nm]
        if nm in ("this",):
            return ObjV(self.cls["name"], self.fields, "this")
        if nm in self.jm.classes or nm in ("Utils", "Byte", "Short", "Integer", "Long", "Arrays", "ByteOrder", "ByteBuffer"):
            return ("class", nm)
        # implicit this.field
        t = n.get("t") or ""
        if nm not in self.fields:
            self.fields[nm] = self.initial_field(nm, t)
        return self.fields[nm]

    def initial_field(self, nm, t):
        ty = self.jty(t)
        if ty == "bool":
            return sym.sym(f"self.{nm}", "bool", 0, 1)
        if ty:
            n_ = BITS[ty]
            return sym.sym(f"self.{nm}", ty, -(1 << (n_ - 1)), (1 << (n_ - 1)) - 1)
        if t.endswith("[]"):
            et = t[:-2]
            return ArrV(f"self.{nm}", sym.sym(f"len(self.{nm})", "i32", 0, 2 ** 31 - 1), et)
        b = t.split(".")[-1]
        if self.is_enum_class(b):
            return EnumV(b, None) if False else ObjV(b, None, f"self.{nm}")
        return ObjV(b, None, f"self.{nm}")

    def is_enum_class(self, name):
        c = self.jm.classes.get(name)
        return bool(c) and any(m.startswith("to") and m[2:] in ("Byte", "Short", "Int", "Long") for m in c["methods"])

    def elem_of(self, arr):
        et = arr.elem if isinstance(arr.elem, str) else None
        ty = self.jty(et) if et else None
        if ty:
            n_ = BITS[ty]
            return sym.sym(f"{arr.name}[]", ty, -(1 << (n_ - 1)), (1 << (n_ - 1)) - 1)
        b = (et or "").split(".")[-1]
        return ObjV(b or "?", None, f"{arr.name}[]")

    def e_MEMBER_SELECT(self, n):
        base = self.expr(n["e"])
        nm = n["name"]
        if isinstance(base, tuple) and base[0] == "class":
            return ("static", base[1], nm)
        if isinstance(base, ArrV) and nm == "length":
            return base.length
        if isinstance(base, ObjV):
            if base.fields is None:
                t = n.get("t") or ""
                ty = self.jty(t)
                if ty:
                    n_ = BITS[ty]
                    return sym.sym(f"{base.name}.{nm}", ty, -(1 << (n_ - 1)), (1 << (n_ - 1)) - 1)
                return ObjV(t.split(".")[-1], None, f"{base.name}.{nm}")
            if nm not in base.fields:
                base.fields[nm] = self.initial_field(nm, n.get("t") or "") if base.name == "this" else Opaque(nm)
            return ("field", base, nm)
        return ("member", base, nm)

    def deref(self, v):
        if isinstance(v, tuple) and v and v[0] == "field":
            return v[1].fields.get(v[2])
        return v

    def e_TYPE_CAST(self, n):
        v = self.deref(self.expr(n["e"]))
        t = n.get("type") or {}
        ty = self.jty(t.get("name") or t.get("t"))
        e = self.as_int(v)
        if e is not None and ty:
            return self.widen(e, ty)
        return v

    def e_ARRAY_ACCESS(self, n):
        a = self.deref(self.expr(n["e"]))
        self.expr(n["index"])
        if isinstance(a, ArrV):
            return ("elem", a)
        return Opaque("index")

    def e_NEW_ARRAY(self, n):
        dims = [self.deref(self.expr(d)) for d in n.get("dims", [])]
        t = n.get("type") or {}
        et = t.get("name") or t.get("t")
        ln = self.as_int(dims[0]) if dims else const(len(n.get("inits") or []), "i32")
        a = ArrV(None, ln, et)
        if self.mode == "parse" and isinstance(ln, E) and not ln.is_const():
            self.quantity(ln, "array length")
        return a

    def e_NEW_CLASS(self, n):
        t = n.get("type") or {}
        tn = t.get("name") or (t.get("base") or {}).get("name") or t.get("t") or "?"
        args = [self.deref(self.expr(a)) for a in n.get("args", [])]
        if tn.startswith("ArrayList"):
            return ListV(None)
        if tn == "Builder" or tn.endswith("Builder"):
            return ObjV("Builder", self.fields, "builder")
        return ObjV(tn, {}, "new")

    def e_CONDITIONAL_EXPRESSION(self, n):
        c = self.cond(n["cond"])
        a, b = self.deref(self.expr(n["a"])), self.deref(self.expr(n["b"]))
        ea, eb = self.as_int(a), self.as_int(b)
        if c is not None and c.op == "ne" and isinstance(c.args[0], E) and c.args[0].ty == "bool" and ea is not None and \
                eb is not None and ea.is_const() and eb.is_const() and ea.cval() == 1 and eb.cval() == 0:
            return E("cast", (c.args[0],), "i32")       # (flag ? 1 : 0)
        if c is not None and ea is not None and eb is not None:
            ea, eb, ty = self.promote(ea, eb)
            return sym.ite(c, ea, eb, ty)
        return Opaque("cond")

    def e_INSTANCE_OF(self, n):
        v = self.deref(self.expr(n["e"]))
        pat = n.get("pattern")
        if pat and pat.get("var"):
            self.vars[pat["var"]["name"]] = v
        self.nsym += 1
        return Cond("opaque", sym.sym(f"instanceof#{self.nsym}", "bool"))

    def e_LAMBDA_EXPRESSION(self, n):
        return ("lambda", n)

    def e_ASSIGNMENT(self, n):
        rhs = self.deref(self.expr(n["rhs"]))
        lhs_n = n["lhs"]
        if lhs_n.get("k") == "IDENTIFIER":
            nm = lhs_n["name"]
            ty = self.jty(lhs_n.get("t"))
            if isinstance(rhs, E) and ty:
                rhs = self.widen(rhs, ty)
            if nm in self.vars:
                self.vars[nm] = rhs
                if isinstance(rhs, E):
                    self.var[nm] = self.uncast(rhs)
            else:
                self.fields[nm] = rhs
                self.bind_field(nm, rhs)
            return rhs
        if lhs_n.get("k") == "MEMBER_SELECT":
            tgt = self.expr(lhs_n)
            if isinstance(tgt, tuple) and tgt[0] == "field":
                ty = self.jty(lhs_n.get("t"))
                if isinstance(rhs, E) and ty:
                    rhs = self.widen(rhs, ty)
                tgt[1].fields[tgt[2]] = rhs
                if tgt[1].name in ("builder", "this") or tgt[1].ty == "Builder" or (tgt[1].name or "").startswith("builder"):
                    self.bind_field(tgt[2], rhs)
                return rhs
        if lhs_n.get("k") == "ARRAY_ACCESS":
            a = self.deref(self.expr(lhs_n["e"]))
            self.expr(lhs_n["index"])
            if isinstance(a, ArrV) and self.loop is not None:
                self.loop["stores"].append((a, rhs))
            return rhs
        self.obl("unmodelled", False, "assignment target")
        return rhs

    def compound(self, n):
        op = n["k"][:-len("_ASSIGNMENT")]
        lhs_n = n["lhs"]
        rhs = self.deref(self.expr(n["rhs"]))
        if lhs_n.get("k") == "IDENTIFIER" and lhs_n["name"] in self.vars:
            cur = self.vars[lhs_n["name"]]
            a, b = self.as_int(cur), self.as_int(rhs)
            if a is not None and b is not None:
                if self.loop is not None and op == "MINUS":
                    self.loop["dec"] = (lhs_n["name"], cur, rhs)
                a2, b2, ty = self.promote(a, b)
                v = self.widen(binop(BIN.get(op, "add"), a2, b2, ty), a.ty)
                self.vars[lhs_n["name"]] = v
                return v
        self.obl("unmodelled", False, f"compound assignment {op}")
        return Opaque("compound")

    def binary(self, n):
        a, b = self.deref(self.expr(n["a"])), self.deref(self.expr(n["b"]))
        if isinstance(a, Opaque) and a.what == "string" or isinstance(b, Opaque) and b.what == "string":
            return Opaque("string")
        ea, eb = self.as_int(a), self.as_int(b)
        if ea is None or eb is None:
            return Opaque(n["k"])
        op = BIN[n["k"]]
        if op in ("shl", "shr", "sar"):
            long_ = ea.ty in ("i64", "w64")
            ea = self.widen(ea, "i64" if long_ else "i32")
            ty = "w64" if long_ else "w32"
            eb = eb if eb.is_const() else self.widen(eb, "i32")
            if op == "sar":
                lo, hi = self.env.interval(ea)
                if lo < 0:
                    self.obl("unmodelled", False, "signed right shift of a possibly negative value")
                op = "shr"
            if op == "shr" and eb.is_const():
                # logical shift of the promoted (sign-extended) value
                return binop("shr", ea, const(eb.cval() & (63 if long_ else 31), ty), ty)
            if eb.is_const():
                return binop("shl", ea, const(eb.cval() & (63 if long_ else 31), ty), ty)
            return binop(op, ea, eb, ty)
        ea, eb, ty = self.promote(ea, eb)
        if op in ("div", "rem") and eb.is_const() and eb.cval() == 1:
            return ea if op == "div" else const(0, ty)
        if op == "div" and not eb.is_const() or op == "rem" and not eb.is_const():
            lo, hi = self.env.interval(eb)
            if lo <= 0 <= hi and self.mode == "parse":
                self.undecided.append("division by a wire value: ArithmeticException is a rejection, not a wrong object")
        return binop(op, ea, eb, ty)

    def e_UNARY_MINUS(self, n):
        v = self.as_int(self.deref(self.expr(n["e"])))
        return binop("sub", const(0, v.ty), v, v.ty) if v is not None else Opaque("neg")

    def e_POSTFIX_INCREMENT(self, n):
        return Opaque("inc")

    e_PREFIX_INCREMENT = e_POSTFIX_INCREMENT

    # ------------------------------------------------------------------ calls
    def e_METHOD_INVOCATION(self, n):
        fn = n["fn"]
        args_n = n.get("args", [])
        if fn.get("k") == "IDENTIFIER":
            name = fn["name"]
            args = [self.deref(self.expr(a)) for a in args_n]
            return self.call_local(name, args, n)
        if fn.get("k") != "MEMBER_SELECT":
            self.obl("unmodelled", False, "call form")
            return Opaque("call")
        name = fn["name"]
        base = self.deref(self.expr(fn["e"]))
        args = [self.deref(self.expr(a)) for a in args_n]
        if isinstance(base, tuple) and base[0] == "class":
            return self.call_static(base[1], name, args, n)
        if isinstance(base, tuple) and base[0] == "static":
            v = self.enum_const(base[1], base[2], name)
            if v is not None:
                return v
            return Opaque("static")
        if isinstance(base, BufV):
            return self.buf_call(base, name, args, n)
        if isinstance(base, ArrV):
            return Opaque("arr." + name)
        if isinstance(base, ListV):
            return self.list_call(base, name, args)
        if isinstance(base, EnumV):
            if name.startswith("to") and base.e is not None:
                return self.widen(base.e, self.jty(n.get("t")))
            if name == "equals":
                o = args[0] if args else None
                c_ = self.call_equals(base, o)
                if c_ is not None:
                    return c_
                if isinstance(o, tuple) and o and o[0] == "static" and base.e is not None:
                    meth = {8: "toByte", 16: "toShort", 32: "toInt", 64: "toLong"}.get(BITS.get(base.e.ty, 0))
                    cv = self.enum_const(o[1], o[2], meth) if meth else None
                    if cv is not None:
                        n_ = BITS[base.e.ty]
                        return Cond("eq", binop("and", self.widen(base.e, "i64"), const((1 << n_) - 1, "i64"), "w64"),
                                    const(cv.cval() & ((1 << n_) - 1), "i64"))
                if isinstance(o, EnumV) and base.e is not None and o.e is not None:
                    a, b, _ = self.promote(base.e, o.e)
                    return Cond("eq", a, b)
                self.nsym += 1
                return Cond("opaque", sym.sym(f"equals#{self.nsym}", "bool"))
        if isinstance(base, ObjV):
            return self.obj_call(base, name, args, n)
        if isinstance(base, E) and name == "equals":
            return Opaque("equals")
        if isinstance(base, Opaque):
            return Opaque(name)
        if isinstance(base, tuple) and base[0] == "elem":
            el = self.elem_of(base[1])
            if isinstance(el, ObjV):
                return self.obj_call(el, name, args, n)
        self.obl("unmodelled", False, f"method {name} on {type(base).__name__}")
        return Opaque(name)

    def enum_const(self, cls, tag, meth):
        """E.TAG.toByte(): the literal returned by the tag's singleton class"""
        c = self.jm.classes.get(f"{cls}.{tag}")
        if c is None or not re.fullmatch(r"to(Byte|Short|Int|Long)", meth):
            return None
        m = self.jm.method(c, meth)
        if m is None:
            return None
        for st_ in m["body"].get("stmts", []):
            if st_.get("k") == "RETURN":
                e = st_["e"]
                while e.get("k") in ("TYPE_CAST", "PARENTHESIZED"):
                    e = e["e"]
                if e.get("k") in ("INT_LITERAL", "LONG_LITERAL"):
                    ty = {"Byte": "i8", "Short": "i16", "Int": "i32", "Long": "i64"}[meth[2:]]
                    return self.widen(const(int(e["v"]), "i64"), ty)
        return None

    def call_local(self, name, args, n):
        if name == "fieldWidth":
            return sym.sym("fieldWidth(self)", "i32", 0, 2 ** 31 - 1)
        if name == "self":
            return ObjV("Builder", self.fields, "builder")
        if name == "super":
            return Opaque("super")
        self.obl("unmodelled", False, f"call of {name}")
        return Opaque(name)

    def call_static(self, cls, name, args, n):
        a0 = self.as_int(args[0]) if args else None
        if cls in ("Byte", "Short", "Integer", "Long"):
            if name in ("toUnsignedInt", "toUnsignedLong") and a0 is not None:
                ty = "i32" if name == "toUnsignedInt" else "i64"
                nbits = BITS.get(a0.ty, 32)
                w = self.widen(a0, ty)
                if nbits >= BITS[ty]:
                    return w
                return binop("and", w, const((1 << nbits) - 1, ty), ty)
            if name == "compareUnsigned" and len(args) == 2:
                b0 = self.as_int(args[1])
                if a0 is not None and b0 is not None:
                    return ("cmpu", a0, b0)
            if name in ("hashCode", "toHexString", "toString"):
                return Opaque("string")
        if cls == "Utils" and re.fullmatch(r"get\d+", name):
            buf = args[0]
            nbytes = int(name[3:]) // 8
            return self.read(buf, nbytes, "i32" if nbytes <= 4 else "i64", helper=name)
        if cls == "Utils" and re.fullmatch(r"put\d+", name):
            nbytes = int(name[3:]) // 8
            return self.write(args[0], self.as_int(args[1]), nbytes, helper=name)
        if cls == "ByteBuffer" and name in ("wrap", "allocate"):
            if name == "allocate":
                b = BufV(self.as_int(args[0]) or const(0, "i32"), "buf", "out")
                b.order = "big"
                return b
            b = BufV(self.fresh("len", "i32", 0, 2 ** 31 - 1), "buf", "input")
            b.order = "big"
            self.wrapped = b
            return b
        if cls == "Arrays":
            if name == "stream":
                return ("stream", args[0])
            return Opaque("Arrays." + name)
        c = self.jm.classes.get(cls)
        if c is not None:
            if name in ("fromBytes", "fromPayload") and args and isinstance(args[0], BufV):
                self.callee_order(args[0], f"{cls}.{name}")
            if name in ("fromBytes",) and args and isinstance(args[0], BufV):
                return self.nested_parse(cls, args[0])
            if name == "fromPayload" and args and isinstance(args[0], BufV):
                if self.mode == "parse":
                    self.dispatch.append((None, cls))
                return ObjV("Builder", {}, f"builder:{cls}")
            m = re.fullmatch(r"from(Byte|Short|Int|Long)", name)
            if m and a0 is not None:
                return EnumV(cls, a0)
        self.obl("unmodelled", False, f"static call {cls}.{name}")
        return Opaque(name)

    def obj_call(self, base, name, args, n):
        if base.name in ("builder",) or (base.ty == "Builder"):
            m = re.fullmatch(r"set([A-Z]\w*)", name)
            if m and args:
                fld = m.group(1)[0].lower() + m.group(1)[1:]
                self.bind_field(fld, args[0])
                return base
            if name == "build":
                return ObjV(self.cls["name"], self.fields, "result")
            if name == "self":
                return base
        if name == "width":
            stc = self.statics.get(base.ty)
            if stc is not None:
                return const(stc, "i32")
            return sym.sym(f"encoded_len({base.name})", "i32", 0, 2 ** 31 - 1)
        if name == "toBytes":
            return ("bytes_of", base)
        m = re.fullmatch(r"to(Byte|Short|Int|Long)", name)
        if m:
            ty = {"Byte": "i8", "Short": "i16", "Int": "i32", "Long": "i64"}[m.group(1)]
            nbits = BITS[ty]
            nm = base.name or "?"
            return sym.sym(f"int({nm})", ty, -(1 << (nbits - 1)), (1 << (nbits - 1)) - 1)
        if name in ("equals",):
            o = args[0] if args else None
            self.nsym += 1
            c = Cond("opaque", sym.sym(f"equals({base.name},{getattr(o, 'name', None) or (o[2] if isinstance(o, tuple) else o)})#{self.nsym}", "bool"))
            c.enum_cmp = (base, o)
            return c
        if name in ("toString", "hashCode"):
            return Opaque("string")
        self.obl("unmodelled", False, f"method {name} on {base.ty}")
        return Opaque(name)

    def list_call(self, lst, name, args):
        if name == "add":
            if self.loop is not None:
                self.loop["adds"].append((lst, args[0] if args else None))
            return Opaque("void")
        if name == "toArray":
            a = ArrV(lst.name, self.fresh("count", "i32", 0, 2 ** 31 - 1), None)
            a.from_list = lst
            return a
        if name == "size":
            return self.fresh("count", "i32", 0, 2 ** 31 - 1)
        return Opaque(name)

    # hooks ------------------------------------------------------------------
    def buf_call(self, buf, name, args, n):
        return Opaque(name)

    def call_equals(self, base, o):
        """EnumV.equals(static constant | EnumV) as a condition on the wire value, or None"""
        if isinstance(o, tuple) and o and o[0] == "static" and base.e is not None:
            meth = {8: "toByte", 16: "toShort", 32: "toInt", 64: "toLong"}.get(BITS.get(base.e.ty, 0))
            cv = self.enum_const(o[1], o[2], meth) if meth else None
            if cv is not None:
                n_ = BITS[base.e.ty]
                return Cond("eq", binop("and", self.widen(base.e, "i64"), const((1 << n_) - 1, "i64"), "w64"),
                            const(cv.cval() & ((1 << n_) - 1), "i64"))
        if isinstance(o, EnumV) and base.e is not None and o.e is not None:
            a, b, _ = self.promote(base.e, o.e)
            return Cond("eq", a, b)
        return None

    def module_order(self):
        return "big" if self.jm.big else "little"

    def eff_order(self, buf):
        return getattr(buf, "order", None) or self.module_order()

    def callee_order(self, buf, what):
        o = self.eff_order(buf)
        self.obl("byte-order", o == self.module_order(), f"the buffer handed to {what} is in {o}-endian order (ByteBuffer.wrap, "
                 f"allocate and slice always give BIG_ENDIAN; the callee reads it as the module's)", role="callee-buffer")

    def set_order(self, buf, args):
        a = args[0] if args else None
        if isinstance(a, tuple) and len(a) == 3 and a[0] == "static" and a[1] == "ByteOrder" and a[2] in ("BIG_ENDIAN", "LITTLE_ENDIAN"):
            buf.order = "big" if a[2] == "BIG_ENDIAN" else "little"
        else:
            self.obl("unmodelled", False, "ByteBuffer.order(x) with an unrecognised argument")
        return buf

    def read(self, buf, nbytes, ty, helper=None):
        return self.fresh("rd", ty)

    def write(self, buf, e, nbytes, helper=None):
        return Opaque("void")

    def nested_parse(self, cls, buf):
        return ObjV(cls, None, "nested")

    def bind_field(self, name, v):
        pass

    def use(self, name, e, field=False, kind="var", **kw):
        pass

    def quantity(self, e, what):
        pass

    def loop_done(self, lp):
        pass

    def finish(self):
        pass


# ====================================================================================== parse side
class JParse(JEval):
    def __init__(self, jm, cls, fn, mins=None):
        super().__init__(jm, cls, fn, "parse")
        self.mins = mins or {}
        self.statics = dict(self.mins)
        self.order = "big" if jm.big else "little"

    def has_sx(self, e):
        bits = sym._bits_of(e, self.env, 64, structural=True)
        return any(isinstance(b, tuple) and b and b[0] == "sx" for b in bits)

    def quantity(self, e, what):
        if isinstance(e, E) and self.has_sx(e):
            src = self.describe(e)
            self.obl("sign-extension", False, f"{what}: the wire value {src} is widened as a signed Java integer without "
                     f"masking, so values with the top bit set become negative (a valid encoding is rejected or mis-sized)",
                     role=what.split(' ')[0])

    def describe(self, e):
        u = self.uncast(e)
        for nm, v in self.var.items():
            if isinstance(v, E) and v.key() == u.key():
                m = re.search(r"(Count|Size|ElementSize)$", nm)
                return (m.group(1).lower() if m else "value") + f":{BITS.get(u.ty, 0)}"
        return f"{u.op}:{BITS.get(u.ty, 0)}"

    def buf_call(self, buf, name, args, n):
        if name in ("get", "getShort", "getInt", "getLong") and not args:
            nb, ty = {"get": (1, "i8"), "getShort": (2, "i16"), "getInt": (4, "i32"), "getLong": (8, "i64")}[name]
            return self.read(buf, nb, ty)
        if name == "remaining":
            return buf.rem
        if name == "hasRemaining":
            return Cond("gt", buf.rem, const(0, "i32"))
        if name == "order":
            return self.set_order(buf, args) if args else Opaque("order")
        if name == "limit" and not args:
            return buf.total
        if name == "position" and not args:
            return binop("sub", buf.total, buf.rem, "i32")
        if name == "position" and args:
            # buf.position(buf.position() + sub.limit()): advance past a slice
            adv = self.as_int(args[0])
            ln = None
            if adv is not None and adv.op == "add":
                ln = adv.args[1]
            if ln is not None:
                if self.env.poly(ln) == self.env.poly(buf.rem):
                    buf.rem = const(0, "i32")
                else:
                    buf.rem = binop("sub", buf.rem, ln, "i32")
            else:
                self.obl("unmodelled", False, "position(x) form")
            return buf
        if name == "slice":
            if not args:
                sub = BufV(buf.rem, None, "sub")
                sub.order = "big"
                sub.length = buf.rem
                sub.parent, sub.pre_rem, sub.len_expr = buf, buf.rem, None
                return sub
            ln = self.as_int(args[1])
            if ln is None:
                self.obl("unmodelled", False, "slice length")
                return BufV(self.fresh("len", "i32", 0, 2 ** 31 - 1), None, "sub")
            sub = BufV(ln, None, "sub")
            sub.order = "big"
            sub.length = ln
            sub.parent, sub.pre_rem, sub.len_expr = buf, buf.rem, ln
            d_ = sym.p_add(self.env.poly(buf.rem), self.env.poly(ln), -1)
            if not any(m for m in d_ if m):
                # the slice length is the remaining length minus a constant: not a wire quantity
                sub.rest_tail = int(d_.get((), 0))
            else:
                self.quantity(ln, "slice length")
            return sub
        if name in ("rewind", "flip", "array"):
            return buf
        self.obl("unmodelled", False, f"ByteBuffer.{name}")
        return Opaque(name)

    def read(self, buf, nbytes, ty, helper=None):
        order = None if nbytes == 1 else (self.order if helper or not isinstance(buf, BufV) else self.eff_order(buf))
        if not isinstance(buf, BufV):
            self.obl("unmodelled", False, "read from a non-buffer")
            return self.fresh("rd", ty)
        if self.loop is not None:
            self.loop["reads"].append((nbytes, order, ty, helper))
            buf.rem = binop("sub", buf.rem, const(nbytes, "i32"), "i32")
            return self.fresh("elem", ty)
        nbits = nbytes * 8
        if helper:
            sm = sym.sym(f"rd#{self.nsym + 1}", ty, 0, (1 << nbits) - 1)
            self.nsym += 1
        else:
            sm = self.fresh("rd", ty)
        it = {"k": "chunk", "n": nbytes, "order": order, "sym": sm, "uses": [], "helper": helper}
        self.chunks[sm.key()] = it
        self.items.append(it)
        buf.rem = binop("sub", buf.rem, const(nbytes, "i32"), "i32")
        return sm

    def use(self, name, e, field=False, kind="var", **kw):
        if not isinstance(e, E):
            return
        u = self.uncast(e)
        if u.op in ("sub", "add") and isinstance(u.args[1], E) and u.args[1].is_const() and kind == "var" and not field:
            # `int size = (wire value) - modifier`: the bits used are those of the wire value
            self.use(name, u.args[0], field=field, kind=kind, **kw)
            return
        bits = sym._bits_of(e, self.env, 64, structural=True)
        for j, b in enumerate(bits):
            if isinstance(b, tuple) and len(b) == 2 and isinstance(b[0], str) and b[0] in self.chunks:
                self.chunks[b[0]]["uses"].append({"name": name, "kind": kind, "j": j, "i": b[1], "e": e, "field": field, **kw})

    def role(self, e, r):
        e = self.uncast(e)
        if r[0] == "size" and e.op == "sub" and e.args[1].is_const() and r[2] == 0:
            self.roles[self.uncast(e.args[0]).key()] = (r[0], r[1], e.args[1].cval())
            return
        self.roles[e.key()] = r

    def s_VARIABLE(self, s):
        before = len(self.items)
        super().s_VARIABLE(s)
        v = self.vars.get(s["name"])
        if isinstance(v, BufV) and getattr(v, "parent", None) is not None and s["name"] == "payload":
            self.payload_item(v)

    def payload_item(self, sub):
        L = sub.len_expr
        if L is None:
            shape = {"k": "rest", "tail": 0}
        elif getattr(sub, "rest_tail", None) is not None:
            shape = {"k": "rest", "tail": sub.rest_tail}
        else:
            Lu = self.uncast(L)
            if Lu.op == "sub" and Lu.args[0].key() == sub.pre_rem.key() and Lu.args[1].is_const():
                shape = {"k": "rest", "tail": Lu.args[1].cval()}
            elif Lu.key() == sub.pre_rem.key():
                shape = {"k": "rest", "tail": 0}
            else:
                self.role(L, ("size", "_payload_", 0))
                r = self.roles.get(self.uncast(L).key()) or next((r for r in self.roles.values() if r[1] == "_payload_"), None)
                shape = {"k": "size", "mod": r[2] if r else 0, "v": L}
        self.items.append({"k": "payload", "shape": shape})

    def nested_parse(self, cls, buf):
        mn = self.mins.get(cls, 0) or 0
        new = self.fresh("len", "i32", 0, 2 ** 31 - 1)
        self.env.add_fact_ge(buf.rem, new)
        buf.rem = new
        o = ObjV(cls, None, "nested")
        if self.loop is not None:
            self.loop["nested"].append(cls)
        else:
            it = {"k": "typedef", "name": None, "type": cls, "tk": "struct"}
            o.item = it
            self.items.append(it)
        return o

    def bind_field(self, name, v):
        if isinstance(v, Cond) and v.op == "ne" and isinstance(v.args[0], E) and isinstance(v.args[1], E) and v.args[1].is_const() \
                and v.args[1].cval() == 0:
            v = v.args[0]           # a 1-bit field stored as a boolean
        if isinstance(v, EnumV):
            if v.e is not None:
                self.var[name] = self.uncast(v.e)
                self.use(name, v.e, field=True, enum=v.ty)
                if self.has_sx(v.e):
                    self.obl("sign-extension", False, f"enum field {name} converted from a sign-extended value", role="enum")
        elif isinstance(v, E):
            self.var[name] = self.uncast(v)
            self.use(name, v, field=True)
            if self.has_sx(v):
                self.obl("sign-extension", False, f"field `{name}` receives the wire value {self.describe(v)} sign-extended: "
                         f"values with the top bit set are stored with the high bits set", role="field")
        elif isinstance(v, ArrV):
            it = getattr(v, "item", None) or getattr(getattr(v, "from_list", None), "item", None)
            if it is not None:
                it["name"] = name
                self.apply_shape(it)
        elif isinstance(v, ObjV) and getattr(v, "item", None) is not None:
            v.item["name"] = name

    def apply_shape(self, it):
        name = it["name"]
        src = it.pop("shape_src", None)
        if src is None:
            return
        kind, v, eb = src
        if kind == "static":
            it["shape"] = {"k": "static", "n": v}
        elif kind == "count":
            el = it.get("elem") or {}
            if eb is None and el.get("k") == "struct":
                eb = self.statics.get(el.get("type"))
            self.role(v, ("count|size1" if eb == 1 else "count", name, 0))
            it["shape"] = {"k": "count", "f": name, "v": v}
        elif kind == "size":
            self.role(v, ("size", name, 0))
            it["shape"] = {"k": "size", "f": name, "v": v, "elem_bytes": eb}
        elif kind == "rest":
            it["shape"] = {"k": "rest", "elem_bytes": eb}

    def loop_done(self, lp):
        el = None
        if lp["nested"]:
            el = {"k": "struct", "type": lp["nested"][0]}
        elif lp["reads"]:
            nb, order, ty, helper = lp["reads"][0]
            el = {"k": "scalar", "w": nb * 8, "order": order}
        target = None
        val = None
        for a, v in lp["stores"]:
            target, val = a, v
        for l, v in lp["adds"]:
            target, val = l, v
        if isinstance(val, EnumV) and el and el["k"] == "scalar":
            el = {"k": "enum", "w": el["w"], "order": el["order"], "type": val.ty}
        if target is None:
            if el is not None:
                self.obl("unmodelled", False, "element loop that fills no array")
            return
        eb = el["w"] // 8 if el and el["k"] in ("scalar", "enum") else None
        cnt = lp["count"]
        src = None
        if cnt is not None:
            self.quantity(cnt, "loop bound")
            cu = self.uncast(cnt)
            if cu.is_const():
                src = ("static", cu.cval(), eb)
            elif cu.op == "div" and self.uncast(cu.args[1]).is_const():
                num = cu.args[0]
                k_ = self.uncast(cu.args[1]).cval()
                if any(self.uncast(num).key() == self.uncast(p).key() for p in lp["pre"].values()):
                    src = ("rest", None, k_)
                else:
                    self.quantity(num, "array size")
                    src = ("size", num, k_)
            elif any(cu.key() == self.uncast(p).key() for p in lp["pre"].values()):
                src = ("rest", None, 1)
            else:
                src = ("count", cnt, eb)
        else:
            c = lp["cond"]
            dec = lp.get("dec")
            def rest_like(x):
                for p_ in lp["pre"].values():
                    d_ = sym.p_add(self.env.poly(p_), self.env.poly(x), -1)
                    if not any(m for m in d_ if m) and d_.get((), 0) >= 0:
                        return True
                return False
            if dec is not None and isinstance(dec[1], E) and rest_like(dec[1]):
                # everything that remains, minus the static fields declared after the array
                src = ("rest", None, None)
            elif dec is not None:
                self.quantity(dec[1], "remaining size")
                src = ("size", dec[1], None)
                # elements are read from the whole buffer while a byte budget counts down: an element that runs past the
                # budget must not end the loop normally.  `budget != 0` keeps going (until the buffer underflows, a
                # rejection); any ordering test (`> 0`) leaves the loop on a negative budget and accepts the overrun.
                self.obl("reject-array-overrun", c is not None and c.op == "ne",
                         f"{self.cls['name']}.{self.fn['name']}: the element loop of a size-delimited array of dynamically sized "
                         f"elements ends on `{c.op if c is not None else '?'}` instead of exact exhaustion of the size (`!= 0`): an "
                         f"element extending beyond the declared size is accepted")
            elif c is not None and c.op == "gt":
                src = ("rest", None, eb)
            else:
                self.obl("unmodelled", False, "while loop shape")
                return
        it = {"k": "array", "name": None, "elem": el or {"k": "unknown"}, "pad": None, "shape": None, "shape_src": src}
        target.item = it
        self.items.append(it)

    def two_way(self, c, then, els):
        # child dispatch: if (cond) builder = Child.fromPayload(payload); else ...
        n0 = len(self.dispatch)
        super().two_way(c, then, els)
        new = self.dispatch[n0:]
        if new and new[0][0] is None:
            self.dispatch[n0] = (c, new[0][1])

    def consumed_obligation(self):
        """a parser that owns its whole input -- a child's fromPayload (the payload slice is exactly the child) and the
        public fromBytes(byte[]) -- returns an object only when nothing is left over"""
        buf = None
        if self.fn.get("name") == "fromPayload":
            buf = self.input
        elif self.fn.get("name") == "fromBytes" and getattr(self, "wrapped", None) is not None:
            buf = self.wrapped
        if buf is None or not self.returned or not isinstance(buf.rem, E):
            return
        ok = self.env.prove_ge(const(0, "i32"), buf.rem)
        self.obl("trailing-bytes", bool(ok), f"{self.cls['name']}.{self.fn['name']} returns an object while input may remain "
                 f"(no `hasRemaining()` rejection on the path to the return)", role="whole-input")

    def finish(self):
        self.consumed_obligation()
        out = []
        for it in self.items:
            if it["k"] == "cond2":
                out += it["then"] + it["else"]
            else:
                out.append(it)
        self.items = out
        for it in self.items:
            if it["k"] == "array" and it.get("shape") is None:
                if it.get("name") is None:
                    it["name"] = "?"
                self.apply_shape(it)
                if it.get("shape") is None:
                    it["shape"] = {"k": "unknown"}
        for it in self.items:
            if it["k"] != "chunk":
                continue
            bits = [("ignored",)] * (it["n"] * 8)
            for u in it["uses"]:
                i = u["i"]
                if i >= len(bits):
                    continue
                e = u["e"]
                role = self.roles.get(self.uncast(e).key())
                if u["kind"] == "fixed":
                    v = u.get("value")
                    d = ("fixed", (v >> u["j"]) & 1 if v is not None else None)
                elif role is not None:
                    d = role + (u["j"],)
                elif u.get("field"):
                    d = ("f", u["name"], u["j"])
                elif self.uncast(e).key() in self.chunks:
                    continue
                else:
                    d = ("var", u["name"], u["j"])
                cur = bits[i]
                if cur == ("ignored",) or cur[0] == "var" or (cur[0] == "f" and d[0] not in ("var", "f")):
                    bits[i] = d
            it["bits"] = bits


# ====================================================================================== Utils helpers
class JHelper(JEval):
    """Utils.getNN / putNN: straight-line byte composition, compared bit by bit with the module's byte order"""

    def __init__(self, jm, cls, fn):
        super().__init__(jm, cls, fn, "helper")
        self.nread = 0
        self.written = []

    def buf_call(self, buf, name, args, n):
        if name == "get" and not args:
            i = self.nread
            self.nread += 1
            return sym.sym(f"byte{i}", "i8", -128, 127)
        if name == "put" and len(args) == 1:
            self.written.append(self.as_int(args[0]))
            return buf
        self.obl("unmodelled", False, f"ByteBuffer.{name} in a helper")
        return Opaque(name)

    def verdict(self, nbytes, big):
        out = []
        nm = self.fn["name"]
        if nm.startswith("get"):
            if not isinstance(self.result, E):
                return ["no integer result"]
            if self.nread != nbytes:
                out.append(f"reads {self.nread} byte(s) instead of {nbytes}")
            bits = sym._bits_of(self.result, self.env, 64, structural=True)
            for i in range(min(nbytes, self.nread)):
                pos = 8 * (nbytes - 1 - i) if big else 8 * i
                for j in range(8):
                    if bits[pos + j] != (f"byte{i}", j):
                        return out + [f"bit {pos + j} of the result is {bits[pos + j]}, expected bit {j} of byte {i} read"]
            for k in range(8 * nbytes, BITS.get(self.result.ty, 64)):
                if bits[k] != 0:
                    return out + [f"bit {k} of the result (above the {nbytes} bytes read) is {bits[k]}"]
        else:
            if len(self.written) != nbytes:
                return [f"writes {len(self.written)} byte(s) instead of {nbytes}"]
            for i, e in enumerate(self.written):
                if not isinstance(e, E):
                    return [f"byte {i} written is not an integer expression"]
                bits = sym._bits_of(e, self.env, 64, structural=True)
                pos = 8 * (nbytes - 1 - i) if big else 8 * i
                for j in range(8):
                    if bits[j] != ("value", pos + j):
                        return [f"byte {i} written, bit {j} is {bits[j]}, expected bit {pos + j} of the value"]
        return out


# ====================================================================================== serializer side
class JSer(JEval):
    """toBytes() / toBytes(ByteBuffer payload) / fieldWidth(): encoder items with the atom naming of the Rust evaluator"""

    def __init__(self, jm, cls, fn, mode="ser", statics=None):
        super().__init__(jm, cls, fn, mode)
        self.order = "big" if jm.big else "little"
        self.statics = statics or {}
        self.ref_chunks = None
        self.ref_i = 0
        self.to_parent = False

    def initial_field(self, nm, t):
        ty = self.jty(t)
        if ty == "bool":
            return sym.sym(f"self.{nm}", "bool", 0, 1)
        if ty:
            n_ = BITS[ty]
            return sym.sym(f"self.{nm}", ty, -(1 << (n_ - 1)), (1 << (n_ - 1)) - 1)
        if t.endswith("[]"):
            return ArrV(f"self.{nm}", sym.sym(f"len(self.{nm})", "i32", 0, 2 ** 31 - 1), t[:-2])
        b = t.split(".")[-1]
        return ObjV(b, None, f"self.{nm}")

    def emit(self, it):
        if self.loop is not None:
            self.loop["items"].append(it)
        else:
            self.items.append(it)

    def in_range(self, e, nbytes):
        rc = self.ref_chunks
        if rc is None or self.loop is not None or self.depth > 0:
            return
        i = self.ref_i
        while i < len(rc) and rc[i][0] != nbytes:
            i += 1
        if i >= len(rc):
            return
        self.ref_i = i + 1
        fields = rc[i][1]

        def leaves(x, shift):
            if x.op == "or":
                for a in x.args:
                    yield from leaves(a, shift)
            elif x.op in ("cast", "sext"):
                yield from leaves(x.args[0], shift)
            elif x.op == "shl" and x.args[1].is_const():
                yield from leaves(x.args[0], shift + x.args[1].cval())
            elif x.op == "and" and x.args[1].is_const():
                yield from leaves(x.args[0], shift)
            else:
                yield x, shift
        for leaf, sh in leaves(e, 0):
            if leaf.is_const():
                continue
            for (fs, fw, fk) in fields:
                if fs == sh and fk in ("size", "count", "elemsize", "scalar", "enum", "flag") and fw < BITS.get(leaf.ty, 64):
                    # in-range builder arguments (setters validate them); a field as wide as its Java type can be
                    # negative, so it is NOT assumed non-negative
                    self.env.refine(leaf, lo=0, hi=(1 << fw) - 1)

    def write(self, buf, e, nbytes, helper=None):
        if e is None:
            self.obl("unmodelled", False, "write of a non-integer")
            return Opaque("void")
        class _W:
            pass
        w = _W()
        w.nbytes, w.order, w.e, w.env, w.line, w.api = nbytes, (None if nbytes == 1 else (self.order if helper or not isinstance(buf, BufV) else self.eff_order(buf))), e, self.env, 0, helper or "put"
        from . import rslayout
        self.in_range(e, nbytes)
        it = rslayout.write_item(w)
        # sign-extension bits that survive into the written value are corrupt high bits
        it["bits"] = [("overlap",) if isinstance(b, tuple) and b and b[0] == "unknown" else b for b in it["bits"]]
        self.emit(it)
        return Opaque("void")

    def buf_call(self, buf, name, args, n):
        if name in ("put", "putShort", "putInt", "putLong") and len(args) == 1:
            a = args[0]
            if name == "put" and isinstance(a, BufV):
                self.emit({"k": "bytes", "src": "self.payload"})
                return buf
            if name == "put" and isinstance(a, tuple) and a and a[0] == "bytes_of":
                o = a[1]
                self.emit({"k": "nested", "src": o.name, "type": o.ty, "static": self.statics.get(o.ty)})
                return buf
            if name == "put" and isinstance(a, ArrV):
                el = {"k": "chunk", "n": 1, "order": None, "bits": [("elem", a.name.split(".")[-1], j) for j in range(8)],
                      "his": {}, "keys": [], "env": self.env}
                self.emit({"k": "array", "src": a.name, "count": a.length, "elem": el})
                return buf
            nb = {"put": 1, "putShort": 2, "putInt": 4, "putLong": 8}[name]
            return self.write(buf, self.as_int(a), nb) and buf
        if name == "order" and args:
            return self.set_order(buf, args)
        if name in ("order", "rewind", "flip"):
            return buf
        if name == "limit" and not args:
            return sym.sym("len(self.payload)", "i32", 0, 2 ** 31 - 1)
        if name == "array":
            return ("array_of", buf)
        self.obl("unmodelled", False, f"ByteBuffer.{name} in a serializer")
        return Opaque(name)

    def call_local(self, name, args, n):
        if name == "fieldWidth":
            return sym.sym("fieldWidth(self)", "i32", 0, 2 ** 31 - 1)
        return super().call_local(name, args, n)

    def obj_call(self, base, name, args, n):
        if name == "width":
            st = self.statics.get(base.ty)
            if st is not None:
                return const(st, "i32")
            return sym.sym(f"encoded_len({base.name})", "i32", 0, 2 ** 31 - 1)
        return super().obj_call(base, name, args, n)

    def e_METHOD_INVOCATION(self, n):
        fn = n["fn"]
        # super.toBytes(buf): hand the own bytes to the parent as its payload
        if fn.get("k") == "MEMBER_SELECT" and fn["e"].get("k") == "IDENTIFIER" and fn["e"]["name"] == "super":
            if fn["name"] == "toBytes":
                self.to_parent = True
                return Opaque("bytes")
            if fn["name"] == "width":
                return sym.sym("width(super)", "i32", 0, 2 ** 31 - 1)
        # Arrays.stream(x).mapToInt(elem -> elem.width()).sum()
        txt = self.stream_sum(n)
        if txt is not None:
            return txt
        return super().e_METHOD_INVOCATION(n)

    def stream_sum(self, n):
        fn = n["fn"]
        if fn.get("k") != "MEMBER_SELECT" or fn["name"] != "sum":
            return None
        inner = fn["e"]
        if inner.get("k") != "METHOD_INVOCATION" or inner["fn"].get("name") != "mapToInt":
            return None
        st = inner["fn"]["e"]
        if st.get("k") != "METHOD_INVOCATION" or st["fn"].get("name") != "stream":
            return None
        arr = self.deref(self.expr(st["args"][0]))
        if not isinstance(arr, ArrV):
            return None
        et = (arr.elem or "").split(".")[-1] if isinstance(arr.elem, str) else None
        stc = self.statics.get(et)
        if stc is not None:
            return binop("mul", arr.length, const(stc, "i32"), "i32")
        return sym.sym(f"sum_encoded_len({arr.name})", "i32", 0, 2 ** 31 - 1)

    def e_ARRAY_ACCESS(self, n):
        a = self.deref(self.expr(n["e"]))
        self.expr(n["index"])
        if isinstance(a, ArrV):
            return self.elem_of(a)
        return Opaque("index")

    def elem_of(self, arr):
        et = arr.elem if isinstance(arr.elem, str) else None
        ty = self.jty(et) if et else None
        if ty:
            n_ = BITS[ty]
            return sym.sym(f"{arr.name}[]", ty, -(1 << (n_ - 1)), (1 << (n_ - 1)) - 1)
        b = (et or "").split(".")[-1]
        return ObjV(b or "?", None, f"{arr.name}[]")

    def loop_done(self, lp):
        inner = lp["items"]
        if not inner:
            return
        cnt = lp["count"]
        src = None
        cu = self.uncast(cnt) if isinstance(cnt, E) else None
        if cu is not None:
            m = re.fullmatch(r"len\((self\.\w+)\)", cu.key())
            if m:
                src = m.group(1)
        it = {"k": "array", "src": src, "count": cnt}
        if len(inner) == 1 and inner[0]["k"] == "chunk":
            el = inner[0]
            it["elem"] = el
        elif len(inner) == 1 and inner[0]["k"] == "nested":
            it["elem"] = {"k": "nested", "type": inner[0].get("type"), "static": inner[0].get("static")}
            if src is None:
                m = re.match(r"(self\.\w+)\[\]", inner[0].get("src") or "")
                if m:
                    it["src"] = m.group(1)
        else:
            it["elem"] = {"k": "unknown", "n": len(inner)}
        self.emit(it)

    def s_RETURN(self, s):
        v = self.expr(s["e"]) if s.get("e") else None
        if self.mode == "width":
            self.size_value = self.deref(v)
        raise Ret(v)
