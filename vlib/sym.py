"""Language-independent abstract domains: symbolic integer expressions with intervals,
polynomial (linear over monomials) normal forms with a small non-negativity prover,
and bit provenance.  Used by the Rust, Python and C++ evaluators."""
from fractions import Fraction

INF = float("inf")

TYMAX = {"u8": 2**8 - 1, "u16": 2**16 - 1, "u32": 2**32 - 1, "u64": 2**64 - 1, "usize": 2**64 - 1,
         "u128": 2**128 - 1, "bool": 1,
         "i8": 2**7 - 1, "i16": 2**15 - 1, "i32": 2**31 - 1, "i64": 2**63 - 1, "isize": 2**63 - 1}
TYBITS = {"u8": 8, "u16": 16, "u32": 32, "u64": 64, "usize": 64, "u128": 128, "bool": 1,
          "i8": 8, "i16": 16, "i32": 32, "i64": 64, "isize": 64}


def tymin(ty):
    if ty and ty.startswith("i"):
        return -(TYMAX[ty] + 1)
    return 0


class E:
    """Immutable expression node. ty is a machine type name, or None for a mathematical
    (unbounded) integer as in Python."""
    __slots__ = ("op", "args", "ty", "_key")

    def __init__(self, op, args, ty=None):
        self.op = op
        self.args = tuple(args)
        self.ty = ty
        self._key = None

    def key(self):
        if self._key is None:
            if self.op == "const":
                self._key = str(self.args[0])
            elif self.op == "sym":
                self._key = self.args[0]
            elif self.op == "cast":
                self._key = f"({self.args[0].key()} as {self.ty})"
            else:
                self._key = f"{self.op}(" + ",".join(a.key() if isinstance(a, E) else str(a) for a in self.args) + ")"
        return self._key

    def __repr__(self):
        return self.key()

    def is_const(self):
        return self.op == "const"

    def cval(self):
        return self.args[0] if self.op == "const" else None


def const(v, ty=None):
    return E("const", (int(v),), ty)


def sym(name, ty=None, lo=0, hi=None):
    e = E("sym", (name, lo, hi), ty)
    return e


def cast(e, ty):
    if e.ty == ty:
        return e
    if e.op == "const":
        v = e.args[0]
        if ty in TYBITS and not ty.startswith("i"):
            v &= (1 << TYBITS[ty]) - 1
        return const(v, ty)
    return E("cast", (e,), ty)


def binop(op, a, b, ty=None):
    if a.op == "const" and b.op == "const":
        x, y = a.args[0], b.args[0]
        try:
            v = {"add": lambda: x + y, "sub": lambda: x - y, "mul": lambda: x * y,
                 "div": lambda: x // y, "rem": lambda: x % y, "shl": lambda: x << y,
                 "shr": lambda: x >> y, "and": lambda: x & y, "or": lambda: x | y,
                 "xor": lambda: x ^ y}[op]()
            return const(v, ty)
        except (ZeroDivisionError, ValueError, KeyError):
            pass
    return E(op, (a, b), ty)


def ite(cond, a, b, ty=None):
    """cond: a Cond"""
    return E("ite", (cond, a, b), ty)


class Cond:
    """Boolean condition. op in lt le gt ge eq ne and or not true false opaque."""
    __slots__ = ("op", "args")

    def __init__(self, op, *args):
        self.op = op
        self.args = args

    def key(self):
        return f"{self.op}(" + ",".join(a.key() if hasattr(a, "key") else str(a) for a in self.args) + ")"

    def __repr__(self):
        return self.key()

    def negate(self):
        n = {"lt": "ge", "ge": "lt", "gt": "le", "le": "gt", "eq": "ne", "ne": "eq"}
        if self.op in n:
            return Cond(n[self.op], *self.args)
        if self.op == "not":
            return self.args[0]
        if self.op == "and":
            return Cond("or", *[a.negate() for a in self.args])
        if self.op == "or":
            return Cond("and", *[a.negate() for a in self.args])
        if self.op == "true":
            return Cond("false")
        if self.op == "false":
            return Cond("true")
        return Cond("not", self)


# --------------------------------------------------------------------------------------
# polynomials: dict monomial(tuple of atom keys, sorted) -> Fraction coefficient


def p_const(c):
    return {(): Fraction(c)} if c != 0 else {}


def p_add(a, b, k=1):
    r = dict(a)
    for m, c in b.items():
        r[m] = r.get(m, 0) + c * k
        if r[m] == 0:
            del r[m]
    return r


def p_mul(a, b):
    r = {}
    for m1, c1 in a.items():
        for m2, c2 in b.items():
            m = tuple(sorted(m1 + m2))
            r[m] = r.get(m, 0) + c1 * c2
            if r[m] == 0:
                del r[m]
    return r


def p_str(p):
    if not p:
        return "0"
    parts = []
    for m, c in sorted(p.items()):
        mono = "*".join(m)
        if not m:
            parts.append(str(c))
        elif c == 1:
            parts.append(mono)
        else:
            parts.append(f"{c}*{mono}")
    return " + ".join(parts)


class Env:
    """Facts known on the current path."""

    def __init__(self):
        self.facts = []        # list of polynomials known >= 0
        self.iv = {}           # expr key -> (lo, hi) refinement
        self.zero = set()      # keys of expressions known == 0 (e.g. rem(size, 3))
        self.atoms = {}        # atom key -> E (for interval lookup)
        self.defs = {}         # name of a bound local -> the expression it stands for (shared registry)
        self.conds = {}        # cond key -> bool

    def copy(self):
        e = Env()
        e.facts = list(self.facts)
        e.iv = dict(self.iv)
        e.zero = set(self.zero)
        e.atoms = self.atoms  # shared registry
        e.defs = self.defs
        e.conds = dict(self.conds)
        return e

    # ---- intervals
    def interval(self, e):
        k = e.key()
        base = self._interval(e)
        if k in self.iv:
            lo, hi = self.iv[k]
            base = (max(base[0], lo), min(base[1], hi))
        return base

    def _interval(self, e):
        op = e.op
        if op == "const":
            return (e.args[0], e.args[0])
        if op == "sym":
            lo = e.args[1] if e.args[1] is not None else 0
            hi = e.args[2]
            if hi is None:
                hi = TYMAX.get(e.ty, INF)
            return (lo, hi)
        if op == "cast":
            lo, hi = self.interval(e.args[0])
            mx = TYMAX.get(e.ty, INF)
            mn = tymin(e.ty) if e.ty else -INF
            if lo >= mn and hi <= mx:
                return (lo, hi)
            return (mn, mx)
        if op == "sext":
            return self.interval(e.args[0])
        if op == "ite":
            a = self.interval(e.args[1])
            b = self.interval(e.args[2])
            c = self.cond_value(e.args[0])
            if c is True:
                return a
            if c is False:
                return b
            return (min(a[0], b[0]), max(a[1], b[1]))
        if op in ("add", "sub", "mul", "div", "rem", "shl", "shr", "and", "or", "xor"):
            a = self.interval(e.args[0])
            b = self.interval(e.args[1])
            r = self._arith(op, a, b)
            if e.ty in TYMAX:
                # result of a machine operation that did not trap stays inside the type
                r = (max(r[0], tymin(e.ty)), min(r[1], TYMAX[e.ty]))
            return r
        if op == "min":
            a = self.interval(e.args[0])
            b = self.interval(e.args[1])
            return (min(a[0], b[0]), min(a[1], b[1]))
        return (0, TYMAX.get(e.ty, INF)) if e.ty and not e.ty.startswith("i") else (-INF, INF)

    @staticmethod
    def _arith(op, a, b):
        (al, ah), (bl, bh) = a, b
        if (al < 0 or bl < 0) and op in ("and", "or", "xor", "shl", "shr"):
            # two's complement operands (Java): only masking with a non-negative operand bounds the result
            if op == "and" and bl >= 0:
                return (0, bh)
            if op == "and" and al >= 0:
                return (0, ah)
            return (-INF, INF)
        if op == "add":
            return (al + bl, ah + bh)
        if op == "sub":
            return (al - bh, ah - bl)
        if op == "mul":
            c = [x * y for x in (al, ah) for y in (bl, bh) if not ((x == 0 and y == INF) or (y == 0 and x == INF))]
            c = c or [0]
            return (min(c + [0] if (al == 0 or bl == 0) else c), max(c))
        if op == "div":
            if bl <= 0:
                return (0, ah if ah != INF else INF)
            return (al // bh if bh != INF else 0, ah // bl if ah != INF else INF)
        if op == "rem":
            if bh == INF:
                return (0, ah)
            return (0, min(ah, bh - 1)) if bh >= 1 else (0, ah)
        if op == "shl":
            if bh == INF or ah == INF:
                return (0, INF)
            return (al << bl, ah << bh)
        if op == "shr":
            if ah == INF:
                return (0, INF)
            return (al >> bh if bh != INF else 0, ah >> bl)
        if op == "and":
            return (0, min(ah, bh))
        if op in ("or", "xor"):
            if ah == INF or bh == INF:
                return (0, INF)
            n = max(int(ah).bit_length(), int(bh).bit_length())
            return (max(al, bl) if op == "or" else 0, (1 << n) - 1)
        return (-INF, INF)

    def refine(self, e, lo=None, hi=None):
        k = e.key()
        cl, ch = self.iv.get(k, (-INF, INF))
        if lo is not None:
            cl = max(cl, lo)
        if hi is not None:
            ch = min(ch, hi)
        self.iv[k] = (cl, ch)
        # look through lossless casts
        if e.op == "cast":
            ilo, ihi = self.interval(e.args[0])
            if ihi <= TYMAX.get(e.ty, INF) and ilo >= (tymin(e.ty) if e.ty else -INF):
                self.refine(e.args[0], lo, hi)

    # ---- polynomials
    def poly(self, e):
        """Polynomial form of e over atoms; valid as mathematical integers provided the
        machine operations involved did not wrap (obligations are raised separately)."""
        op = e.op
        if op == "const":
            return p_const(e.args[0])
        if op == "cast":
            lo, hi = self.interval(e.args[0])
            if hi <= TYMAX.get(e.ty, INF) and lo >= (tymin(e.ty) if e.ty else -INF):
                return self.poly(e.args[0])
            return self._atom(e)
        if op == "add":
            return p_add(self.poly(e.args[0]), self.poly(e.args[1]))
        if op == "sub":
            return p_add(self.poly(e.args[0]), self.poly(e.args[1]), -1)
        if op == "mul":
            return p_mul(self.poly(e.args[0]), self.poly(e.args[1]))
        if op == "shl" and e.args[1].op == "const":
            return p_mul(self.poly(e.args[0]), p_const(1 << e.args[1].args[0]))
        if op == "div" and e.args[1].op == "const" and e.args[1].args[0] == 1:
            return self.poly(e.args[0])
        if op == "sext":
            return self.poly(e.args[0])
        return self._atom(e)

    def _atom(self, e):
        k = e.key()
        self.atoms[k] = e
        return {(k,): Fraction(1)}

    def add_fact_ge(self, a, b):
        """a >= b"""
        self.facts.append(p_add(self.poly(a), self.poly(b), -1))

    def add_fact_poly(self, p):
        self.facts.append(p)

    def _mono_bounds(self, m):
        lo, hi = 1, 1
        for k in m:
            a = self.atoms.get(k)
            if a is None:
                return (0, INF)
            l, h = self.interval(a)
            if l < 0:
                return (-INF, INF)
            lo *= l
            hi = INF if (h == INF or hi == INF) else hi * h
        return (lo, hi)

    def poly_lower(self, p):
        tot = 0
        for m, c in p.items():
            if not m:
                tot += c
                continue
            lo, hi = self._mono_bounds(m)
            if c > 0:
                if lo == -INF:
                    return -INF
                tot += c * lo
            else:
                if hi == INF:
                    return -INF
                tot += c * hi
        return tot

    def prove_nonneg(self, p):
        """Try to show polynomial p >= 0 from intervals and (sums of up to 3) facts."""
        if self.poly_lower(p) >= 0:
            return True
        fs = self.facts
        n = len(fs)
        # only facts that share a monomial with p or with each other are useful; keep simple
        for i in range(n):
            q = p_add(p, fs[i], -1)
            if self.poly_lower(q) >= 0:
                return True
        for i in range(n):
            qi = p_add(p, fs[i], -1)
            for j in range(i + 1, n):
                q = p_add(qi, fs[j], -1)
                if self.poly_lower(q) >= 0:
                    return True
        if n <= 14:
            for i in range(n):
                qi = p_add(p, fs[i], -1)
                for j in range(i + 1, n):
                    qj = p_add(qi, fs[j], -1)
                    for k in range(j + 1, n):
                        q = p_add(qj, fs[k], -1)
                        if self.poly_lower(q) >= 0:
                            return True
        # scaled single fact: p - k*f for small k (e.g. elem width multiples)
        for f in fs:
            for k in (2, 3, 4, 8):
                if self.poly_lower(p_add(p, f, -k)) >= 0:
                    return True
        return False

    def prove_ge(self, a, b):
        la, ha = self.interval(a)
        lb, hb = self.interval(b)
        if la >= hb:
            return True
        return self.prove_nonneg(p_add(self.poly(a), self.poly(b), -1))

    # ---- conditions
    def assume(self, c):
        """Record condition c as true on this path."""
        self.conds[c.key()] = True
        self.conds[c.negate().key()] = False
        op = c.op
        if op == "and":
            for a in c.args:
                self.assume(a)
            return
        if op in ("lt", "le", "gt", "ge", "eq", "ne"):
            a, b = c.args
            if not (isinstance(a, E) and isinstance(b, E)):
                return
            if op == "gt":
                a, b, op = b, a, "lt"
            elif op == "ge":
                a, b, op = b, a, "le"
            if op == "lt":      # a < b  ->  b - a - 1 >= 0
                self.facts.append(p_add(p_add(self.poly(b), self.poly(a), -1), p_const(-1)))
                bl, bh = self.interval(b)
                al, ah = self.interval(a)
                if bh != INF:
                    self.refine(a, hi=bh - 1)
                self.refine(b, lo=al + 1)
            elif op == "le":
                self.facts.append(p_add(self.poly(b), self.poly(a), -1))
                bl, bh = self.interval(b)
                al, ah = self.interval(a)
                if bh != INF:
                    self.refine(a, hi=bh)
                self.refine(b, lo=al)
            elif op == "eq":
                self.facts.append(p_add(self.poly(b), self.poly(a), -1))
                self.facts.append(p_add(self.poly(a), self.poly(b), -1))
                bl, bh = self.interval(b)
                al, ah = self.interval(a)
                self.refine(a, lo=bl, hi=bh)
                self.refine(b, lo=al, hi=ah)
                if b.op == "const" and b.args[0] == 0:
                    self.zero.add(a.key())
                if a.op == "const" and a.args[0] == 0:
                    self.zero.add(b.key())
            elif op == "ne":
                # a != 0 for unsigned a  ->  a >= 1
                if b.op == "const" and b.args[0] == 0 and self.interval(a)[0] >= 0:
                    self.refine(a, lo=1)
                    self.facts.append(p_add(self.poly(a), p_const(-1)))

    def cond_value(self, c):
        k = c.key()
        if k in self.conds:
            return self.conds[k]
        if c.op == "true":
            return True
        if c.op == "false":
            return False
        if c.op in ("lt", "le", "gt", "ge", "eq", "ne"):
            a, b = c.args
            if isinstance(a, E) and isinstance(b, E):
                al, ah = self.interval(a)
                bl, bh = self.interval(b)
                if c.op == "lt":
                    return True if ah < bl else (False if al >= bh else None)
                if c.op == "le":
                    return True if ah <= bl else (False if al > bh else None)
                if c.op == "gt":
                    return True if al > bh else (False if ah <= bl else None)
                if c.op == "ge":
                    return True if al >= bh else (False if ah < bl else None)
                if c.op == "eq":
                    if al == ah == bl == bh:
                        return True
                    return False if (ah < bl or bh < al) else None
                if c.op == "ne":
                    if al == ah == bl == bh:
                        return False
                    return True if (ah < bl or bh < al) else None
        return None


# --------------------------------------------------------------------------------------
# bit provenance


def bits_of(e, env, width=64):
    """Per-bit provenance of integer expression e, LSB first: list of
    0 | 1 | (atom_key, bit_index) | None (unknown mix)."""
    out = _bits_of(e, env, width)
    if e.op != "const":
        lo, hi = env.interval(e)
        if lo >= 0 and hi != INF:
            n = int(hi).bit_length()
            out = [b if i < n else 0 for i, b in enumerate(out)]
    return out


def _bits_of(e, env, width=64, structural=False):
    """structural=True: atoms contribute all bits of their declared width (no interval knowledge)"""
    if structural:
        return _bits_struct(e, env, width)
    op = e.op
    if op == "const":
        v = e.args[0]
        return [(v >> i) & 1 for i in range(width)]
    if op == "cast":
        inner = bits_of(e.args[0], env, width)
        n = TYBITS.get(e.ty, width)
        return [inner[i] if i < n else 0 for i in range(width)]
    if op == "sext":
        n = TYBITS.get(e.args[0].ty, width)
        m = TYBITS.get(e.ty, width)
        lo, hi = env.interval(e.args[0])
        inner = bits_of(e.args[0], env, max(width, n))
        if lo >= 0:
            return [inner[i] if i < n else 0 for i in range(width)]
        top = inner[n - 1] if n - 1 < len(inner) else 0
        return [inner[i] if i < n else ((None if top != 0 else 0) if i < m else 0) for i in range(width)]
    if op == "shl" and e.args[1].op == "const":
        k = e.args[1].args[0]
        inner = bits_of(e.args[0], env, width)
        n = TYBITS.get(e.ty, width)
        out = [0] * width
        for i in range(width):
            if i - k >= 0 and i < n:
                out[i] = inner[i - k]
        return out
    if op == "shr" and e.args[1].op == "const":
        k = e.args[1].args[0]
        inner = bits_of(e.args[0], env, width + k)
        return [inner[i + k] if i + k < len(inner) else 0 for i in range(width)]
    if op == "and":
        a = bits_of(e.args[0], env, width)
        b = bits_of(e.args[1], env, width)
        out = []
        for x, y in zip(a, b):
            if x == 0 or y == 0:
                out.append(0)
            elif x == 1:
                out.append(y)
            elif y == 1:
                out.append(x)
            elif x == y:
                out.append(x)
            else:
                out.append(None)
        return out
    if op in ("or", "xor"):
        a = bits_of(e.args[0], env, width)
        b = bits_of(e.args[1], env, width)
        out = []
        for x, y in zip(a, b):
            if x == 0:
                out.append(y)
            elif y == 0:
                out.append(x)
            elif x == y and op == "or":
                out.append(x)
            else:
                out.append(("!overlap", (x, y)))
        return out
    if op == "ite":
        a = bits_of(e.args[1], env, width)
        b = bits_of(e.args[2], env, width)
        k = e.key()
        out = []
        for i, (x, y) in enumerate(zip(a, b)):
            if x == y and x in (0, 1):
                out.append(x)
            else:
                out.append((k, i))
        env.atoms[k] = e
        return out
    if op == "add":
        # disjoint-bit addition is an OR (python/c++ sometimes use +)
        a = bits_of(e.args[0], env, width)
        b = bits_of(e.args[1], env, width)
        if all(x == 0 or y == 0 for x, y in zip(a, b)):
            return [y if x == 0 else x for x, y in zip(a, b)]
    # atom
    k = e.key()
    env.atoms[k] = e
    lo, hi = env.interval(e)
    n = width if hi == INF else int(hi).bit_length()
    if lo < 0:
        n = width
    return [(k, i) if i < n else 0 for i in range(width)]


def _bits_struct(e, env, width):
    op = e.op
    if op == "const":
        v = e.args[0]
        return [(v >> i) & 1 for i in range(width)]
    if op == "sext":
        # sign extension (Java widening of byte/short/int): the bits above the source width are copies of its top bit
        n = TYBITS.get(e.args[0].ty, width)
        m = TYBITS.get(e.ty, width)
        inner = _bits_struct(e.args[0], env, max(width, n))
        top = inner[n - 1] if n - 1 < len(inner) else 0
        out = []
        for i in range(width):
            if i < n:
                out.append(inner[i])
            elif i < m:
                out.append(0 if top == 0 else (("sx",) + top if isinstance(top, tuple) and top[0] != "sx" else top))
            else:
                out.append(0)
        return out
    if op == "cast":
        inner = _bits_struct(e.args[0], env, width)
        n = TYBITS.get(e.ty, width)
        return [inner[i] if i < n else 0 for i in range(width)]
    if op == "shl" and e.args[1].op == "const":
        k = e.args[1].args[0]
        inner = _bits_struct(e.args[0], env, width)
        n = TYBITS.get(e.ty, width)
        return [inner[i - k] if (i - k >= 0 and i < n) else 0 for i in range(width)]
    if op == "shr" and e.args[1].op == "const":
        k = e.args[1].args[0]
        inner = _bits_struct(e.args[0], env, width + k)
        return [inner[i + k] if i + k < len(inner) else 0 for i in range(width)]
    if op == "and":
        a = _bits_struct(e.args[0], env, width)
        b = _bits_struct(e.args[1], env, width)
        out = []
        for x, y in zip(a, b):
            if x == 0 or y == 0:
                out.append(0)
            elif x == 1:
                out.append(y)
            elif y == 1:
                out.append(x)
            else:
                out.append(x if x == y else None)
        return out
    if op in ("or", "xor"):
        a = _bits_struct(e.args[0], env, width)
        b = _bits_struct(e.args[1], env, width)
        return [y if x == 0 else (x if y == 0 else None) for x, y in zip(a, b)]
    k = e.key()
    env.atoms[k] = e
    if op == "sym" and e.args[2] is not None and not (e.args[1] is not None and e.args[1] < 0):
        n = int(e.args[2]).bit_length()
    else:
        n = TYBITS.get(e.ty, width)
    return [(k, i) if i < min(n, width) else 0 for i in range(width)]


def bit_fields(bits):
    """Group a provenance list into runs: [(dst_shift, width, src_key|'const', src_shift|value)]"""
    out = []
    i = 0
    n = len(bits)
    while i < n:
        b = bits[i]
        if b == 0:
            i += 1
            continue
        if b == 1:
            j = i
            v = 0
            while j < n and bits[j] in (0, 1) and (bits[j] == 1 or (j + 1 < n and any(x == 1 for x in bits[j:j + 64]) and False)):
                v |= bits[j] << (j - i)
                j += 1
            out.append((i, j - i, "const", v))
            i = j
            continue
        if b is None:
            out.append((i, 1, None, None))
            i += 1
            continue
        k, s = b
        j = i
        while j < n and isinstance(bits[j], tuple) and bits[j][0] == k and bits[j][1] == s + (j - i):
            j += 1
        out.append((i, j - i, k, s))
        i = j
    return out
