"""C++ front-end: clang's own AST (JSON) of an emitted header, slimmed and indexed.

The dump is produced by `clang++ -fsyntax-only -Xclang -ast-dump=json -Xclang -ast-dump-filter=pdl`, i.e. the
type-checked program with implicit casts, resolved member references and template specialisations -- nothing here
parses C++ text.  The slim form keeps what the evaluator needs: kind, name, type, opcode, value, cast kind, referenced
declaration, template arguments of specialisations, and the source line."""
import bisect
import json
import os
import subprocess

from . import core

KEEP = ("containsErrors", "isInvalid", "kind", "name", "opcode", "value", "castKind", "isArrow", "isPostfix", "valueCategory", "id", "tagUsed",
        "isImplicit", "storageClass", "virtual", "pure", "explicitlyDefaulted", "isUsed", "init", "isPartOfExplicitCast",
        "hasElse", "isReferenced")


def _off(loc):
    if not isinstance(loc, dict):
        return None
    if "offset" in loc:
        return loc["offset"], loc.get("file")
    for k in ("expansionLoc", "spellingLoc"):
        if k in loc and "offset" in loc[k]:
            return loc[k]["offset"], loc[k].get("file")
    return None


class Slimmer:
    def __init__(self, header_text):
        self.starts = [0]
        for i, ch in enumerate(header_text):
            if ch == "\n":
                self.starts.append(i + 1)
        self.nlen = len(header_text)

    def line(self, off):
        return bisect.bisect_right(self.starts, off)

    def slim(self, n):
        if not isinstance(n, dict):
            return n
        out = {}
        for k in KEEP:
            if k in n:
                out[k] = n[k]
        t = n.get("type")
        if isinstance(t, dict):
            out["type"] = t.get("qualType")
            if "desugaredQualType" in t:
                out["dtype"] = t["desugaredQualType"]
        r = n.get("range", {}).get("begin")
        o = _off(r)
        if o is not None and o[0] < self.nlen:
            out["line"] = self.line(o[0])
        rd = n.get("referencedDecl")
        if isinstance(rd, dict):
            out["ref"] = {"kind": rd.get("kind"), "name": rd.get("name"), "id": rd.get("id"),
                          "type": (rd.get("type") or {}).get("qualType")}
        if "referencedMemberDecl" in n:
            out["memid"] = n["referencedMemberDecl"]
        if n.get("kind") == "UnaryExprOrTypeTraitExpr" and isinstance(n.get("argType"), dict):
            out["argtype"] = n["argType"].get("desugaredQualType") or n["argType"].get("qualType")
        if n.get("kind") == "EnumDecl" and isinstance(n.get("fixedUnderlyingType"), dict):
            out["utype"] = n["fixedUnderlyingType"].get("desugaredQualType") or n["fixedUnderlyingType"].get("qualType")
        if n.get("kind") == "TemplateArgument":
            if isinstance(n.get("type"), dict):
                out["targ_type"] = n["type"].get("qualType")
            if "value" in n:
                out["targ_value"] = n["value"]
        if "bases" in n:
            out["bases"] = [(b.get("type") or {}).get("qualType") for b in n["bases"]]
        if "inner" in n:
            inner = []
            for x in n["inner"]:
                if isinstance(x, dict) and x.get("kind", "").endswith("Comment"):
                    continue
                inner.append(self.slim(x))
            out["inner"] = inner
        return out


def dump(header, outpath, include_dir):
    """clang JSON AST of one header -> slim JSON file.  Returns (ok, message)."""
    tu = outpath + ".cc"
    with open(tu, "w") as f:
        f.write('#include "%s"\n' % os.path.basename(header))
    p = subprocess.run(["clang++", "-std=c++17", "-fsyntax-only", "-Wno-everything", "-ferror-limit=0", "-I", include_dir,
                        "-I", os.path.dirname(header), "-Xclang", "-ast-dump=json", "-Xclang", "-ast-dump-filter=pdl", tu],
                       capture_output=True, text=True, timeout=600)
    os.unlink(tu)
    s = p.stdout
    if p.returncode != 0 and not s.strip():
        return False, p.stderr[-400:]
    dec = json.JSONDecoder()
    i, tops = 0, []
    while i < len(s):
        while i < len(s) and s[i].isspace():
            i += 1
        if i >= len(s):
            break
        o, j = dec.raw_decode(s, i)
        tops.append(o)
        i = j
    sl = Slimmer(open(header).read())
    # the runtime header has its own line numbering: lines of nodes outside the emitted header are dropped by the
    # offset bound in slim(); good enough for reports (runtime nodes are reported by function name)
    out = [sl.slim(t) for t in tops]
    with open(outpath, "w") as f:
        json.dump(out, f, separators=(",", ":"))
    return True, ("" if p.returncode == 0 else "compile-errors")


def walk(n):
    yield n
    for x in n.get("inner", []) or []:
        if isinstance(x, dict):
            yield from walk(x)


class Class:
    def __init__(self, node):
        self.node = node
        self.name = node.get("name")
        self.bases = node.get("bases", [])
        self.fields = {}        # name -> FieldDecl node
        self.field_order = []
        self.methods = {}       # name -> [CXXMethodDecl]
        self.ctors = []
        for x in node.get("inner", []):
            k = x.get("kind")
            if k == "FieldDecl":
                self.fields[x["name"]] = x
                self.field_order.append(x["name"])
            elif k == "CXXMethodDecl" and not x.get("isImplicit"):
                self.methods.setdefault(x["name"], []).append(x)
            elif k == "CXXConstructorDecl" and not x.get("isImplicit"):
                self.ctors.append(x)

    def method(self, name):
        ms = [m for m in self.methods.get(name, []) if body_of(m) is not None]
        return ms[0] if ms else None


def body_of(fn):
    for x in fn.get("inner", []):
        if x.get("kind") == "CompoundStmt":
            return x
    return None


def params_of(fn):
    return [x for x in fn.get("inner", []) if x.get("kind") == "ParmVarDecl"]


class CxxModule:
    def __init__(self, path, name=None):
        self.name = name or os.path.basename(path)
        tops = json.load(open(path))
        self.tops = tops
        self.classes = {}
        self.enums = {}         # name -> {"type": underlying, "tags": {tag: value}}
        self.functions = {}     # free functions in pdlns (IsValidX)
        self.spec = {}          # decl id -> (name, [template args])   for read_le/read_be/write_le/write_be ...
        self.runtime = {}       # class name -> Class (pdl::packet::slice, Builder)
        for t in tops:
            if t.get("name") == "pdl":
                for ns in t.get("inner", []):
                    if ns.get("kind") == "NamespaceDecl" and ns.get("name") == "packet":
                        self._index_runtime(ns)
            else:
                self._index_ns(t)

    def _index_runtime(self, ns):
        for x in ns.get("inner", []):
            if x.get("kind") == "CXXRecordDecl" and x.get("inner"):
                c = Class(x)
                self.runtime[c.name] = c
                for y in x.get("inner", []):
                    if y.get("kind") == "FunctionTemplateDecl":
                        for z in y.get("inner", []):
                            if z.get("kind") in ("CXXMethodDecl", "FunctionDecl"):
                                targs = [a for a in z.get("inner", []) if a.get("kind") == "TemplateArgument"]
                                if targs:
                                    self.spec[z["id"]] = (z["name"], [a.get("targ_type", a.get("targ_value")) for a in targs], z)

    def _index_ns(self, ns):
        for x in ns.get("inner", []):
            k = x.get("kind")
            if k == "CXXRecordDecl" and any(y.get("kind") in ("FieldDecl", "CXXMethodDecl") for y in x.get("inner", []) or []):
                self.classes[x["name"]] = Class(x)
            elif k == "EnumDecl":
                tags = {}
                for y in x.get("inner", []):
                    if y.get("kind") == "EnumConstantDecl":
                        v = None
                        for z in walk(y):
                            if z.get("kind") == "ConstantExpr" and "value" in z:
                                v = int(z["value"])
                                break
                            if z.get("kind") == "IntegerLiteral":
                                v = int(z["value"])
                        tags[y["name"]] = v
                self.enums[x["name"]] = {"tags": tags, "node": x}
            elif k == "FunctionDecl" and body_of(x) is not None:
                self.functions[x["name"]] = x


def stage_cxx(tier, seed=0):
    """Slim clang ASTs of every emitted header that clang accepts."""
    from . import stages
    from concurrent.futures import ThreadPoolExecutor
    g = stages.Gen(tier, seed)

    def build(d):
        inc = os.path.join(core.REPO, "pdl-compiler/scripts")
        groups = {e["name"]: e["group"] for e in g.index}
        names = [nm for nm in g.names() if g.ok(nm, "cxx") and groups.get(nm) != "borderline"]
        res = {}

        def one(nm):
            ok, msg = dump(g.path(nm, "h"), os.path.join(d, nm + ".json"), inc)
            return nm, ok, msg
        with ThreadPoolExecutor(max_workers=14) as ex:
            for nm, ok, msg in ex.map(one, names):
                res[nm] = {"ok": ok, "msg": msg}
        with open(os.path.join(d, "index.json"), "w") as f:
            json.dump(res, f)

    d = core.run_stage(f"cxx-{tier}-{seed}", build)
    return d, json.load(open(os.path.join(d, "index.json")))
