"""Per-module driver for the C++ evaluators: struct minimum sizes, getters, views, builders."""
import os

from . import cxxast, cxxeval, sym
from .cxxast import body_of, params_of


class Cxx:
    def __init__(self, path, name=None):
        self.mod = cxxast.CxxModule(path, name)
        self.name = self.mod.name
        for en, d in self.mod.enums.items():
            d["uty"] = self.enum_uty(d["node"])
        self.mins = {}
        self._parse = {}
        self._getters = {}

    def enum_uty(self, node):
        t = node.get("utype")
        if t:
            return cxxeval.INT_TY.get(t.split("::")[-1]) or cxxeval.INT_TY.get(t)
        # fall back: IsValidX(uintN_t) / max tag value
        mx = max([v for v in self.mod.enums[node["name"]]["tags"].values() if v is not None] or [0])
        for ty in ("u8", "u16", "u32", "u64"):
            if mx <= sym.TYMAX[ty]:
                return ty
        return "u64"

    def kinds(self):
        """-> views {decl: class}, builders {decl: class}, structs {decl: class}"""
        views, builders, structs = {}, {}, {}
        for n, c in self.mod.classes.items():
            if n.endswith("View"):
                views[n[:-4]] = c
            elif n.endswith("Builder") and any("Builder" in (b or "") for b in c.bases):
                builders[n[:-7]] = c
            elif any("Builder" in (b or "") for b in c.bases):
                structs[n] = c
        return views, builders, structs

    def parse_fn(self, c):
        return c.method("Parse")

    def compute_mins(self, rounds=4):
        views, builders, structs = self.kinds()
        self.mins = {n: 0 for n in structs}
        for _ in range(rounds):
            changed = False
            for n, c in structs.items():
                fn = self.parse_fn(c)
                if fn is None:
                    continue
                ev = cxxeval.ParseEval(self.mod, c, fn, "parse", self.mins).run()
                if ev.was_skipped:
                    if self.mins.get(n) is not None:
                        self.mins[n] = None
                        changed = True
                    continue
                mn = 0
                for it in ev.items:
                    if it["k"] == "chunk":
                        mn += it["n"]
                    elif it["k"] == "typedef":
                        mn += self.mins.get(it["type"], 0) or 0
                    elif it["k"] == "array" and it.get("shape", {}).get("k") == "static":
                        el = it.get("elem") or {}
                        eb = el["w"] // 8 if el.get("k") in ("scalar", "enum") else (self.mins.get(el.get("type"), 0) or 0)
                        mn += (it["shape"].get("n") or 0) * eb
                        if it.get("pad"):
                            mn = mn
                if mn != self.mins.get(n):
                    self.mins[n] = mn
                    changed = True
            if not changed:
                break
        return self.mins

    def member_lens(self, c):
        """slice member -> its length as an expression over the integer members (the view invariant Parse establishes)"""
        fn = self.parse_fn(c)
        if fn is None:
            return {}
        ev = cxxeval.ParseEval(self.mod, c, fn, "parse", self.mins).run()
        if ev.was_skipped:
            return {}
        mapping = {}
        for m, v in ev.members.items():
            if isinstance(v, cxxeval.E) and not v.is_const():
                ty = v.ty
                s_ = sym.sym(f"self.{m}", ty, 0, sym.TYMAX.get(ty))
                mapping[v.key()] = s_
                u = ev.uncast(v)
                mapping.setdefault(u.key(), s_)
        out = {}
        for it in ev.items:
            if it["k"] == "array" and it.get("L") is not None:
                out[it["name"] + "_"] = cxxeval.subst(it["L"], mapping)
        return out

    def getters(self, c):
        """field name -> summary of the array getter GetX of view class c"""
        if c.name in self._getters:
            return self._getters[c.name]
        out = {}
        mlen = self.member_lens(c)
        for mname, ms in c.methods.items():
            if not mname.startswith("Get"):
                continue
            fn = c.method(mname)
            if fn is None:
                continue
            has_loop = any(x.get("kind") in ("WhileStmt", "ForStmt") for x in cxxast.walk(fn))
            if not has_loop:
                continue
            ev = cxxeval.ParseEval(self.mod, c, fn, "getter", self.mins, member_len=mlen).run()
            # which slice member does it read
            fld = None
            for x in cxxast.walk(fn):
                if x.get("kind") == "MemberExpr" and (x.get("dtype") or x.get("type") or "").endswith("slice") \
                        and x.get("name", "").endswith("_"):
                    fld = x["name"][:-1]
                    break
            if fld and ev.getter:
                g = dict(ev.getter)
                g["ev"] = ev
                g["fn"] = mname
                out[fld] = g
            elif fld:
                out[fld] = {"elem": None, "ev": ev, "fn": mname, "count": None, "elemsize": None}
        self._getters[c.name] = out
        return out

    def eval_parse(self, c):
        fn = self.parse_fn(c)
        if fn is None:
            return None
        return cxxeval.ParseEval(self.mod, c, fn, "parse", self.mins, getters=self.getters(c) if c.name.endswith("View") else {}).run()


    def statics(self):
        """struct class -> constant GetSize() (octets) when it is one"""
        if getattr(self, "_statics", None) is not None:
            return self._statics
        views, builders, structs = self.kinds()
        st = {}
        for _ in range(3):
            changed = False
            for n, c in structs.items():
                fn = c.method("GetSize")
                if fn is None:
                    continue
                ev = cxxeval.SerEval(self.mod, c, fn, "size", st).run()
                v = ev.size_value
                if ev.was_skipped or not isinstance(v, cxxeval.E):
                    continue
                p = ev.env.poly(v)
                val = int(p.get((), 0)) if list(p.keys()) in ([()], []) else None
                if val is not None and st.get(n) != val:
                    st[n] = val
                    changed = True
            if not changed:
                break
        self._statics = st
        return st

    def eval_serialize(self, c, ref_chunks=None):
        fn = c.method("Serialize")
        if fn is None:
            return None
        ev = cxxeval.SerEval(self.mod, c, fn, "serialize", self.statics())
        ev.ref_chunks = ref_chunks
        return ev.run()

    def eval_getsize(self, c):
        fn = c.method("GetSize")
        if fn is None:
            return None
        return cxxeval.SerEval(self.mod, c, fn, "size", self.statics()).run()
