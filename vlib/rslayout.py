"""Wire layouts extracted from the event traces of the abstract evaluator (rseval):
what the emitted encoder writes / the emitted decoder reads, item by item and bit by bit,
for all values at once (bit provenance is value independent)."""
import re

from . import sym
from .sym import E, const
from .rseval import IntV, LitV, ObjV, VecV, OptV, ResV, TupV, SpanV, ErrV, Opaque, MEM_MAX


def walk(events):
    for e in events:
        yield e
        b = getattr(e, "body", None)
        if b:
            yield from walk(b)


def field_of_path(key):
    """'self.a' -> 'a' ; 'int(self.e)' -> 'e' ; 'self.x[]' -> ('x', elem)"""
    key = key.replace("r#", "")
    m = re.fullmatch(r"(?:int\()?self\.(\w+)(\[\])?(\?)?\)?", key)
    if m:
        return m.group(1), bool(m.group(2)), bool(m.group(3))
    return None, False, False


def classify_atom(key, env):
    """describe the source of a bit run in an encoder write"""
    e = env.atoms.get(key)
    key = key.replace("r#", "")
    name, is_elem, is_opt = field_of_path(key)
    if name and not is_elem and not is_opt:
        return ("f", name)
    if name and is_elem:
        return ("elem", name)
    if name and is_opt:
        return ("optval", name)
    m = re.fullmatch(r"len\(self\.(\w+)\)", key)
    if m:
        return ("len", m.group(1), 1, 0)
    if e is not None and e.op == "ite":
        c = e.args[0]
        ck = c.key()
        m = re.search(r"is_some\(self\.(\w+)\)", ck)
        a, b = e.args[1], e.args[2]
        if m and a.is_const() and b.is_const():
            present = a.cval() if c.op != "not" else b.cval()
            return ("flag", m.group(1), present)
        m = re.search(r"gt\(len\(self\.(\w+)\),0\)", ck)
        if m and "encoded_len(" in a.key():
            return ("elemsize", m.group(1))
        if c.op == "gt" and c.args[0].is_const() and "encoded_len(self." in a.key():
            m2 = re.search(r"encoded_len\(self\.(\w+)\[\]\)", a.key())
            if m2:
                return ("elemsize", m2.group(1))
    if e is not None:
        p = env.poly(e)
        return classify_size_poly(p)
    return ("unknown", key)


def classify_size_poly(p):
    """size expressions: c + k*len(self.X) | c + sum_encoded_len(self.X) | c + partial_len(self) | c + len(self.payload)"""
    c = 0
    terms = []
    for mono, coef in p.items():
        if not mono:
            c = int(coef)
        else:
            terms.append((mono, coef))
    if len(terms) == 1 and len(terms[0][0]) == 1:
        atom = terms[0][0][0]
        k = terms[0][1]
        m = re.fullmatch(r"len\(self\.(\w+)\)", atom)
        if m:
            if m.group(1) == "payload":
                return ("size", "_payload_", int(c), 1)
            return ("len", m.group(1), int(k), int(c))
        m = re.fullmatch(r"sum_encoded_len\(self\.(\w+)\)", atom)
        if m and k == 1:
            return ("sumlen", m.group(1), int(c))
        m = re.fullmatch(r"encoded_len\(self\.(\w+)\[\]\)", atom)
        if m and k == 1 and c == 0:
            return ("elemsize", m.group(1))
    return ("sizeexpr", sym.p_str(p), p)


# ------------------------------------------------------------------------------------ encoder
def encoder_items(ev):
    """items written by an evaluated encode / encode_partial, in wire order"""
    items = []
    evs = list(ev.events)
    i = 0
    while i < len(evs):
        e = evs[i]
        k = e.kind
        if k == "write":
            items.append(write_item(e))
        elif k == "write_fill":
            cnt = e.count
            v = e.value
            if cnt is not None and cnt.is_const() and v is not None and v.is_const():
                items.append({"k": "chunk", "n": cnt.cval(), "order": None,
                              "bits": [(v.cval() >> (j % 8)) & 1 for j in range(cnt.cval() * 8)], "fill": True, "line": e.line})
            else:
                items.append({"k": "fill", "value": v.cval() if v is not None and v.is_const() else None,
                              "count": e.env.poly(cnt) if cnt is not None else None, "line": e.line})
        elif k == "write_bytes":
            nm = e.vec.name or ""
            items.append({"k": "bytes", "src": nm, "line": e.line})
        elif k == "write_partial":
            items.append({"k": "child", "line": e.line})
        elif k == "write_nested":
            obj = e.obj
            nm = getattr(obj, "name", "") or ""
            items.append({"k": "nested", "src": nm, "type": getattr(obj, "ty", None), "line": e.line,
                          "static": static_of(ev, getattr(obj, "ty", None))})
        elif k == "loop":
            body = [x for x in e.body if x.kind in ("write", "write_nested", "write_bytes")]
            over = e.over.name if e.over is not None else None
            it = {"k": "array", "src": over, "count": e.count, "line": e.line}
            if len(body) == 1 and body[0].kind == "write":
                w = write_item(body[0])
                it["elem"] = w
            elif len(body) == 1 and body[0].kind == "write_nested":
                it["elem"] = {"k": "nested", "type": getattr(body[0].obj, "ty", None),
                              "static": static_of(ev, getattr(body[0].obj, "ty", None))}
            elif not body:
                # element-size consistency loop etc.: no bytes written
                i += 1
                continue
            else:
                it["elem"] = {"k": "unknown", "n": len(body)}
            items.append(it)
        elif k == "opt_region":
            inner = encoder_items_from(e.body, ev)
            opt = getattr(e, "opt", None)
            items.append({"k": "optional", "src": getattr(opt, "name", None), "cond": e.cond, "items": inner, "line": e.line})
        elif k in ("check", "bind", "try", "cond_region", "branch_value", "match"):
            pass
        i += 1
    return items


def static_of(ev, ty):
    summ = getattr(ev, "summ", None)
    if summ is None or ty is None:
        return None
    return (summ.packets.get(ty) or {}).get("static_size")


def encoder_items_from(events, ev):
    class _Tmp:
        pass
    t = _Tmp()
    t.events = events
    t.summ = getattr(ev, "summ", None)
    t.env = getattr(ev, "env", None)
    return encoder_items(t)


def write_item(e):
    n = e.nbytes
    # discover the atoms of the value (unmasked pass), remember how large each can be
    his = {}

    def atoms_of(x):
        if x.op in ("sym", "ite"):
            yield x
            return
        if x.op in ("or", "and", "xor", "shl", "shr", "cast"):
            for a in x.args:
                if isinstance(a, E):
                    yield from atoms_of(a)
            return
        if x.op != "const":
            yield x
    for a in atoms_of(e.e):
        e.env.atoms[a.key()] = a
        cls = classify_atom(a.key(), e.env)
        his[cls[:2]] = e.env.interval(a)[1]
    bits = sym.bits_of(e.e, e.env, n * 8)
    out = []
    for b in bits:
        if b in (0, 1):
            out.append(b)
        elif b is None:
            out.append(("unknown",))
        elif b[0] == "!overlap":
            out.append(("overlap",))
        else:
            key, j = b
            out.append(classify_atom(key, e.env) + (j,))
    return {"k": "chunk", "n": n, "order": e.order, "bits": out, "line": e.line, "api": e.api, "his": his}


def item_bytes(g, env):
    """symbolic number of bytes an encoder item writes"""
    k = g["k"]
    if k == "chunk":
        return sym.p_const(g["n"])
    if k == "fill":
        return g["count"] or {}
    if k == "bytes":
        return {(f"len({g['src']})",): 1}
    if k == "nested":
        st = g.get("static")
        if st is not None:
            return sym.p_const(st)
        return {(f"encoded_len({g['src']})",): 1}
    if k == "array":
        el = g.get("elem", {})
        cnt = env.poly(g["count"]) if g.get("count") is not None else {}
        if el.get("k") == "chunk":
            return sym.p_mul(cnt, sym.p_const(el["n"]))
        st = el.get("static")
        if st is not None:
            return sym.p_mul(cnt, sym.p_const(st))
        return {(f"sum_encoded_len({g['src']})",): 1}
    if k == "optional":
        inner = {}
        for x in g["items"]:
            inner = sym.p_add(inner, item_bytes(x, env))
        if list(inner.keys()) in ([()], []):
            kk = int(inner.get((), 0))
            e = sym.ite(g["cond"], const(kk, "usize"), const(0, "usize"), "usize")
            return env.poly(e)
        return {("optional?",): 1}
    return {("?" + k,): 1}


# ------------------------------------------------------------------------------------ reference -> expected bits
def ref_chunk_bits(it, side="enc"):
    n = it["n"]
    bits = [0] * (n * 8)
    for bf in it["fields"]:
        for j in range(bf["width"]):
            pos = bf["shift"] + j
            k = bf["k"]
            if k in ("scalar", "enum"):
                bits[pos] = ("f", bf["name"], j)
            elif k == "reserved":
                bits[pos] = 0 if side == "enc" else ("ignored",)
            elif k == "fixed":
                bits[pos] = (bf["value"] >> j) & 1
            elif k == "size":
                bits[pos] = ("size", bf["target"], bf.get("mod", 0), j)
            elif k == "count":
                bits[pos] = ("count", bf["target"], j)
            elif k == "elemsize":
                bits[pos] = ("elemsize", bf["target"], j)
            elif k == "flag":
                bits[pos] = ("flag", bf["name"], tuple(bf["opt"]), j)
    return bits
