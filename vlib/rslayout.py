"""Wire layouts extracted from the event traces of the abstract evaluator (rseval):
what the emitted encoder writes / the emitted decoder reads, item by item and bit by bit,
for all values at once (bit provenance is value independent)."""
import re

from . import sym
from .sym import E, const
from .rseval import IntV, LitV, ObjV, VecV, OptV, ResV, TupV, SpanV, ErrV, Opaque, MEM_MAX


def walk(events):
    for e in events:
        yield e
        b = getattr(e, "body", None)
        if b:
            yield from walk(b)


def field_of_path(key):
    """'self.a' -> 'a' ; 'int(self.e)' -> 'e' ; 'self.x[]' -> ('x', elem)"""
    key = key.replace("r#", "")
    m = re.fullmatch(r"(?:int\()?self\.(\w+)(\[\])?(\?)?\)?", key)
    if m:
        return m.group(1), bool(m.group(2)), bool(m.group(3))
    return None, False, False


def classify_atom(key, env):
    """describe the source of a bit run in an encoder write"""
    e = getattr(env, "defs", {}).get(key) or env.atoms.get(key)
    key = key.replace("r#", "")
    name, is_elem, is_opt = field_of_path(key)
    if name and not is_elem and not is_opt:
        return ("f", name)
    if name and is_elem:
        return ("elem", name)
    if name and is_opt:
        return ("optval", name)
    m = re.fullmatch(r"len\(self\.(\w+)\)", key)
    if m:
        return ("len", m.group(1), 1, 0)
    if e is not None and e.op == "ite":
        c = e.args[0]
        ck = c.key()
        m = re.search(r"is_some\(self\.(\w+)\)", ck)
        a, b = e.args[1], e.args[2]
        if m and a.is_const() and b.is_const():
            present = a.cval() if c.op != "not" else b.cval()
            return ("flag", m.group(1), present)
        m = re.search(r"gt\(len\(self\.(\w+)\),0\)", ck)
        if m and "encoded_len(" in a.key():
            return ("elemsize", m.group(1))
        if c.op == "gt" and c.args[0].is_const() and "encoded_len(self." in a.key():
            m2 = re.search(r"encoded_len\(self\.(\w+)\[\]\)", a.key())
            if m2:
                return ("elemsize", m2.group(1))
    if e is not None:
        p = env.poly(e)
        return classify_size_poly(p)
    return ("unknown", key)


def classify_size_poly(p):
    """size expressions: c + k*len(self.X) | c + sum_encoded_len(self.X) | c + partial_len(self) | c + len(self.payload)"""
    c = 0
    terms = []
    for mono, coef in p.items():
        if not mono:
            c = int(coef)
        else:
            terms.append((mono, coef))
    if len(terms) == 1 and len(terms[0][0]) == 1:
        atom = terms[0][0][0]
        k = terms[0][1]
        m = re.fullmatch(r"len\(self\.(\w+)\)", atom)
        if m:
            if m.group(1) == "payload":
                return ("size", "_payload_", int(c), 1)
            return ("len", m.group(1), int(k), int(c))
        m = re.fullmatch(r"sum_encoded_len\(self\.(\w+)\)", atom)
        if m and k == 1:
            return ("sumlen", m.group(1), int(c))
        m = re.fullmatch(r"encoded_len\(self\.(\w+)\[\]\)", atom)
        if m and k == 1 and c == 0:
            return ("elemsize", m.group(1))
    return ("sizeexpr", sym.p_str(p), p)


# ------------------------------------------------------------------------------------ encoder
def encoder_items(ev):
    """items written by an evaluated encode / encode_partial, in wire order"""
    items = []
    evs = list(ev.events)
    i = 0
    while i < len(evs):
        e = evs[i]
        k = e.kind
        if k == "write":
            items.append(write_item(e))
        elif k == "write_fill":
            cnt = e.count
            v = e.value
            if cnt is not None and cnt.is_const() and v is not None and v.is_const():
                items.append({"k": "chunk", "n": cnt.cval(), "order": None,
                              "bits": [(v.cval() >> (j % 8)) & 1 for j in range(cnt.cval() * 8)], "fill": True, "line": e.line})
            else:
                items.append({"k": "fill", "value": v.cval() if v is not None and v.is_const() else None,
                              "count": e.env.poly(cnt) if cnt is not None else None, "line": e.line})
        elif k == "write_bytes":
            nm = e.vec.name or ""
            items.append({"k": "bytes", "src": nm, "line": e.line})
        elif k == "write_partial":
            items.append({"k": "child", "line": e.line})
        elif k == "write_nested":
            obj = e.obj
            nm = getattr(obj, "name", "") or ""
            items.append({"k": "nested", "src": nm, "type": getattr(obj, "ty", None), "line": e.line,
                          "static": static_of(ev, getattr(obj, "ty", None))})
        elif k == "loop":
            body = [x for x in e.body if x.kind in ("write", "write_nested", "write_bytes")]
            over = e.over.name if e.over is not None else None
            it = {"k": "array", "src": over, "count": e.count, "line": e.line}
            if len(body) == 1 and body[0].kind == "write":
                w = write_item(body[0])
                it["elem"] = w
            elif len(body) == 1 and body[0].kind == "write_nested":
                it["elem"] = {"k": "nested", "type": getattr(body[0].obj, "ty", None),
                              "static": static_of(ev, getattr(body[0].obj, "ty", None))}
            elif not body:
                # element-size consistency loop etc.: no bytes written
                i += 1
                continue
            else:
                it["elem"] = {"k": "unknown", "n": len(body)}
            items.append(it)
        elif k == "opt_region":
            inner = encoder_items_from(e.body, ev)
            opt = getattr(e, "opt", None)
            items.append({"k": "optional", "src": getattr(opt, "name", None), "cond": e.cond, "items": inner, "line": e.line})
        elif k in ("check", "bind", "try", "cond_region", "branch_value", "match"):
            pass
        i += 1
    return items


def static_of(ev, ty):
    summ = getattr(ev, "summ", None)
    if summ is None or ty is None:
        return None
    return (summ.packets.get(ty) or {}).get("static_size")


def encoder_items_from(events, ev):
    class _Tmp:
        pass
    t = _Tmp()
    t.events = events
    t.summ = getattr(ev, "summ", None)
    t.env = getattr(ev, "env", None)
    return encoder_items(t)


def write_item(e):
    n = e.nbytes
    # discover the atoms of the value (unmasked pass), remember how large each can be
    his = {}

    def atoms_of(x):
        if x.op in ("sym", "ite"):
            yield x
            return
        if x.op in ("or", "and", "xor", "shl", "shr", "cast", "sext"):
            for a in x.args:
                if isinstance(a, E):
                    yield from atoms_of(a)
            return
        if x.op != "const":
            yield x
    enum_fields = set()
    for a in atoms_of(e.e):
        e.env.atoms.setdefault(a.key(), a)
        cls = classify_atom(a.key(), e.env)
        his[cls[:2]] = e.env.interval(a)[1]
        if a.key().startswith("int(") and len(cls) > 1:
            enum_fields.add(cls[1])
    bits = sym.bits_of(e.e, e.env, n * 8)
    out = []
    keys = []
    for b in bits:
        keys.append(b[0] if isinstance(b, tuple) and len(b) == 2 and isinstance(b[0], str) else None)
        if b in (0, 1):
            out.append(b)
        elif b is None:
            out.append(("unknown",))
        elif b[0] == "!overlap":
            out.append(("overlap",))
        else:
            key, j = b
            out.append(classify_atom(key, e.env) + (j,))
    return {"k": "chunk", "n": n, "order": e.order, "bits": out, "line": e.line, "api": e.api, "his": his, "enum_fields": enum_fields, "keys": keys, "env": e.env}


def item_bytes(g, env):
    """symbolic number of bytes an encoder item writes"""
    k = g["k"]
    if k == "chunk":
        return sym.p_const(g["n"])
    if k == "fill":
        return g["count"] or {}
    if k == "bytes":
        return {(f"len({g['src']})",): 1}
    if k == "nested":
        st = g.get("static")
        if st is not None:
            return sym.p_const(st)
        return {(f"encoded_len({g['src']})",): 1}
    if k == "array":
        el = g.get("elem", {})
        cnt = env.poly(g["count"]) if g.get("count") is not None else {}
        if el.get("k") == "chunk":
            return sym.p_mul(cnt, sym.p_const(el["n"]))
        st = el.get("static")
        if st is not None:
            return sym.p_mul(cnt, sym.p_const(st))
        return {(f"sum_encoded_len({g['src']})",): 1}
    if k == "optional":
        inner = {}
        for x in g["items"]:
            inner = sym.p_add(inner, item_bytes(x, env))
        if list(inner.keys()) in ([()], []):
            kk = int(inner.get((), 0))
            e = sym.ite(g["cond"], const(kk, "usize"), const(0, "usize"), "usize")
            return env.poly(e)
        if len(inner) == 1:
            (mono, c), = inner.items()
            if len(mono) == 1 and c == 1:
                e = sym.ite(g["cond"], sym.sym(mono[0], None, 0, None), const(0), None)
                return env.poly(e)
        return {("optional?",): 1}
    return {("?" + k,): 1}


# ------------------------------------------------------------------------------------ reference -> expected bits
def ref_chunk_bits(it, side="enc"):
    n = it["n"]
    bits = [0] * (n * 8)
    for bf in it["fields"]:
        for j in range(bf["width"]):
            pos = bf["shift"] + j
            k = bf["k"]
            if k in ("scalar", "enum"):
                bits[pos] = ("f", bf["name"], j)
            elif k == "reserved":
                bits[pos] = 0 if side == "enc" else ("ignored",)
            elif k == "fixed":
                bits[pos] = (bf["value"] >> j) & 1
            elif k == "size":
                bits[pos] = ("size", bf["target"], bf.get("mod", 0), j)
            elif k == "count":
                bits[pos] = ("count", bf["target"], j)
            elif k == "elemsize":
                bits[pos] = ("elemsize", bf["target"], j)
            elif k == "flag":
                bits[pos] = ("flag", bf["name"], tuple(bf["opt"]), j)
    return bits


# ------------------------------------------------------------------------------------ decoder
def _has_sym(e, prefix):
    if e.op == "sym":
        nm = e.args[0]
        if prefix == "len#":
            return nm.startswith("len#") or nm.startswith("len(parent.") or nm.startswith("chunklen#")
        return nm.startswith(prefix)
    return any(_has_sym(a, prefix) for a in e.args if isinstance(a, E))


def _strip_cast(e):
    while e.op == "cast":
        e = e.args[0]
    return e


def _err_variant(v):
    """DecodeError variant produced by a `return Err(..)` value / a mapped error"""
    if isinstance(v, ResV) and v.err:
        x = v.err.get("value") or v.err.get("mapped")
        if isinstance(x, ErrV):
            return x.variant
        p = getattr(x, "path", None)
        if isinstance(p, str) and "Error::" in p:
            return p.split("::")[-1]
    if isinstance(v, ErrV):
        return v.variant
    return None


class DecoderLayout:
    """Items read by an evaluated decode / decode_partial, in wire order."""

    def __init__(self, ev):
        self.ev = ev
        self.env = ev.env
        self.items = []
        self.chunks = {}        # rd key -> chunk item
        self.roles = {}         # E key (cast stripped) -> role tuple
        self.var = {}           # name -> E
        self.checks = []        # (variant, cond, event)
        self.problems = []
        self.result_fields = {}
        self.always_fails = None
        self.return_errors = []
        from .rseval import IfV
        cands = []
        for val, env in ev.returns:
            if isinstance(val, IfV):
                cands += [val.a, val.b]
            else:
                cands.append(val)
        for val in cands:
            ok = val.ok if isinstance(val, ResV) else None
            if isinstance(ok, TupV) and ok.items and isinstance(ok.items[0], ObjV):
                self.result_fields = {k.replace("r#", ""): v for k, v in ok.items[0].fields.items()}
            elif isinstance(ok, ObjV):
                self.result_fields = {k.replace("r#", ""): v for k, v in ok.fields.items()}
            elif isinstance(val, ResV) and ok is None:
                v = _err_variant(val)
                if v:
                    self.return_errors.append(v)
        self.scan(ev.events, None)
        self.finish()

    # -- helpers
    def role(self, e, r):
        self.roles[_strip_cast(e).key()] = r
        self.roles[e.key()] = r

    def classify_count(self, cnt, name, pre_rem=None):
        """shape of an array from its iteration count expression"""
        c = _strip_cast(cnt)
        if cnt.is_const():
            return {"k": "static", "n": cnt.cval()}
        rems = {r.key() for r in (pre_rem or {}).values()}
        if cnt.key() in rems or c.key() in rems:
            return {"k": "rest", "elem_bytes": 1}
        if c.op == "div" and c.args[1].is_const() and c.args[0].key() in rems:
            return {"k": "rest", "elem_bytes": c.args[1].cval()}
        if c.op == "div" and c.args[1].is_const():
            v = c.args[0]
            if _has_sym(v, "len#") and not _has_sym(v, "rd#"):
                return {"k": "rest", "elem_bytes": c.args[1].cval()}
            self.role(v, ("size", name, 0))
            return {"k": "size", "f": name, "elem_bytes": c.args[1].cval(), "v": v}
        if _has_sym(cnt, "len#") and not _has_sym(cnt, "rd#"):
            return {"k": "rest", "elem_bytes": 1}
        if _has_sym(cnt, "rd#"):
            # either a count field, or (1-byte elements) a size field used directly as count
            self.role(cnt, ("count|size1", name, 0))
            return {"k": "count", "f": name, "v": cnt}
        return {"k": "unknown", "expr": cnt.key()}

    def elem_of(self, body):
        """element description from a loop body"""
        reads = [x for x in body if x.kind == "read"]
        convs = [x for x in body if x.kind == "enum_conv"]
        nested = [x for x in body if x.kind == "nested"]
        if nested and not reads:
            return {"k": "struct", "type": nested[0].ty}
        if len(reads) == 1:
            r = reads[0]
            if convs:
                return {"k": "enum", "type": convs[0].ty, "w": r.nbytes * 8, "order": r.order}
            return {"k": "scalar", "w": r.nbytes * 8, "order": r.order}
        return {"k": "unknown"}

    # -- scan
    def scan(self, events, pad):
        evs = list(events)
        i = 0
        pending_pad = pad
        head_spans = {}
        while i < len(evs):
            e = evs[i]
            k = e.kind
            nxt_binds = [x for x in evs[i + 1:i + 6] if x.kind == "bind"]
            prev_binds = [x for x in evs[max(0, i - 4):i] if x.kind == "bind"]
            if k == "read":
                it = {"k": "chunk", "n": e.nbytes, "order": e.order, "sym": e.sym, "line": e.line, "uses": []}
                self.chunks[e.sym.key()] = it
                self.items.append(it)
            elif k == "bind":
                v = e.val
                e.name = e.name.replace("r#", "")
                if isinstance(v, IntV):
                    self.var[e.name] = v.e
                    self.use(e.name, v.e)
                elif isinstance(v, ObjV) and v.src is not None and isinstance(v.src, E):
                    self.use(e.name, v.src, kind="enum" if v.ty not in ("?custom",) else "custom", ty=v.ty)
            elif k == "check":
                var = _err_variant(e.ret) if e.ret is not None else None
                self.checks.append((var, e.cond, e))
                if getattr(e, "always", False):
                    self.always_fails = (var, e.line)
                c = e.cond
                if var == "FixedValueError" and c.op == "ne" and isinstance(c.args[0], E) and isinstance(c.args[1], E):
                    a, b = c.args
                    if a.is_const():
                        a, b = b, a
                    if b.is_const():
                        self.use("fixed", a, kind="fixed", value=b.cval())
                    else:
                        self.use("fixed", a, kind="fixed", value=None, expr=b)
            elif k == "split":
                n = e.n
                if n.is_const():
                    pending_pad = n.cval()
                    head_spans[e.head] = ("pad", n.cval())
                else:
                    head_spans[e.head] = ("sized", n)
            elif k == "loop":
                if getattr(e, "result", None) is not None and nxt_binds:
                    name = nxt_binds[0].name        # `let x = (0..n).map(..).collect()`: bound after the loop
                else:
                    name = self.array_name(prev_binds, nxt_binds)
                shape = self.classify_count(e.count, name, getattr(e, "pre_rem", None))
                it = {"k": "array", "name": name, "elem": self.elem_of(list(walk(e.body))), "shape": shape,
                      "pad": pending_pad, "line": e.line}
                pending_pad = None
                self.items.append(it)
            elif k == "while_nonempty":
                name = self.array_name(prev_binds, nxt_binds)
                hs = head_spans.get(e.span)
                if hs and hs[0] == "sized":
                    self.role(hs[1], ("size", name, 0))
                    shape = {"k": "size", "f": name, "v": hs[1], "elem_bytes": None}
                    padv = pending_pad
                elif hs and hs[0] == "pad":
                    shape = {"k": "rest", "elem_bytes": None}
                    padv = hs[1]
                else:
                    shape = {"k": "rest", "elem_bytes": None}
                    padv = pending_pad
                it = {"k": "array", "name": name, "elem": self.elem_of(list(walk(e.body))), "shape": shape, "pad": padv,
                      "line": e.line}
                pending_pad = None
                self.items.append(it)
            elif k == "chunks":
                name = self.array_name(prev_binds, nxt_binds)
                self.role(e.size, ("elemsize", name, 0))
                take = e.take
                if take is None:
                    shape = {"k": "unknown"}
                else:
                    t = _strip_cast(take)
                    if take.is_const():
                        shape = {"k": "static", "n": take.cval()}
                    elif t.op == "div" and t.args[1].key() == e.size.key():
                        v = t.args[0]
                        if _has_sym(v, "len#") and not _has_sym(v, "rd#"):
                            shape = {"k": "rest", "elem_bytes": None}
                        else:
                            self.role(v, ("size", name, 0))
                            shape = {"k": "size", "f": name, "v": v, "elem_bytes": None}
                    else:
                        self.role(take, ("count", name, 0))
                        shape = {"k": "count", "f": name, "v": take}
                it = {"k": "array", "name": name, "elem": self.elem_of(list(walk(e.body))), "shape": shape,
                      "pad": pending_pad, "elemsize": True, "line": e.line,
                      "trailing_check": any(x.kind == "and_then_check" for x in walk(e.body))}
                pending_pad = None
                self.items.append(it)
            elif k == "nested":
                name = nxt_binds[0].name if nxt_binds else None
                self.items.append({"k": "typedef", "name": name, "type": e.ty, "tk": "struct", "mode": e.mode, "line": e.line})
            elif k in ("opt_region", "cond_region"):
                body = list(walk(e.body))
                if any(x.kind in ("read", "nested") for x in body):
                    name = nxt_binds[0].name if nxt_binds else None
                    c = e.cond
                    flag = None
                    if c.op == "eq" and isinstance(c.args[0], E) and isinstance(c.args[1], E):
                        a, b = c.args
                        if a.is_const():
                            a, b = b, a
                        if b.is_const():
                            flag = (a, b.cval())
                            self.role(a, ("flag", name, b.cval()))
                    inner = self.elem_of(body)
                    self.items.append({"k": "optional", "name": name, "flag": flag, "inner": inner, "line": e.line,
                                       "guarded": any(x.kind == "check" for x in body)})
                    # reads inside belong to the optional, not to chunks
                    for x in body:
                        if x.kind == "read":
                            self.chunks.pop(x.sym.key(), None)
                elif k == "cond_region":
                    self.scan(e.body, pending_pad)
            elif k == "skip" and e.n.is_const() and e.out == e.span and not any(
                    x.kind in ("to_vec", "slice_to") for x in evs[max(0, i - 3):i]):
                it = {"k": "chunk", "n": e.n.cval(), "order": None, "sym": None, "line": e.line, "uses": [], "skipped": True}
                self.items.append(it)
            elif k == "slice_to":
                # payload = span[..n].to_vec()
                n = e.n
                self.items.append(self.payload_item(n, e))
            elif k == "to_vec" and not any(x.kind == "slice_to" for x in evs[max(0, i - 1):i]):
                self.items.append(self.payload_item(e.n, e))
            i += 1
        return

    def payload_item(self, n, e):
        rem = getattr(e, "rem", None)
        if rem is not None:
            d = sym.p_add(self.env.poly(rem), self.env.poly(n), -1)
            if list(d.keys()) in ([()], []):
                # everything but a constant tail
                return {"k": "payload", "shape": {"k": "rest", "tail": int(d.get((), 0))}, "line": e.line}
        c = _strip_cast(n)
        mod = 0
        v = c
        if c.op == "sub" and c.args[1].is_const():
            mod = c.args[1].cval()
            v = c.args[0]
        if _has_sym(v, "rd#") and not _has_sym(v, "len#"):
            self.role(v, ("size", "_payload_", mod))
            return {"k": "payload", "shape": {"k": "size", "mod": mod, "v": v}, "line": e.line}
        return {"k": "payload", "shape": {"k": "unknown", "n": n.key()}, "line": e.line}

    def array_name(self, prev_binds, nxt_binds):
        for b in reversed(prev_binds):
            if isinstance(b.val, VecV):
                return b.name
        for b in nxt_binds:
            if isinstance(b.val, (VecV, ResV)) or True:
                return b.name
        return None

    def use(self, name, e, kind="var", **kw):
        bits = sym._bits_of(e, self.env, 64, structural=True)   # every wire bit that takes part counts
        for j, b in enumerate(bits):
            if isinstance(b, tuple) and len(b) == 2 and isinstance(b[0], str) and b[0] in self.chunks:
                self.chunks[b[0]]["uses"].append({"name": name, "kind": kind, "j": j, "i": b[1], "e": e, **kw})

    def finish(self):
        # result fields -> names of integer / enum fields by value identity
        by_key = {}
        for fname, v in self.result_fields.items():
            if isinstance(v, IntV):
                by_key[v.e.key()] = fname
            elif isinstance(v, ObjV) and isinstance(v.src, E):
                by_key[v.src.key()] = fname
        for it in self.items:
            if it["k"] != "chunk":
                continue
            bits = [("ignored",)] * (it["n"] * 8)
            ckey = it["sym"].key() if it.get("sym") is not None else None
            def is_alias(u):
                return u["kind"] == "var" and _strip_cast(u["e"]).key() == ckey and u["name"] not in self.result_fields \
                    and self.roles.get(u["e"].key()) is None and self.roles.get(_strip_cast(u["e"]).key()) is None
            others = [u for u in it["uses"] if not is_alias(u)]
            for u in it["uses"]:
                i = u["i"]
                if i >= len(bits):
                    continue
                e = u["e"]
                kind = u["kind"]
                if is_alias(u):
                    # `let chunk = read [as uN]`: an alias of the whole group, not a use of its bits (with no other use
                    # the group is read and dropped: a group made only of several reserved fields)
                    continue
                role = self.roles.get(e.key()) or self.roles.get(_strip_cast(e).key())
                if kind == "fixed":
                    v = u.get("value")
                    d = ("fixed", (v >> u["j"]) & 1 if v is not None else None)
                elif role is not None:
                    d = role + (u["j"],)
                elif e.key() in by_key:
                    d = ("f", by_key[e.key()], u["j"])
                elif kind in ("enum", "custom") and u["name"] in self.result_fields:
                    d = ("f", u["name"], u["j"])
                elif u["name"] in self.result_fields:
                    d = ("f", u["name"], u["j"])
                else:
                    d = ("var", u["name"], u["j"])
                # a later, more specific use wins over a plain variable binding
                cur = bits[i]
                if cur == ("ignored",) or cur[0] == "var" or (cur[0] == "f" and d[0] not in ("var", "f")):
                    bits[i] = d
            if it.get("skipped"):
                bits = [("ignored",)] * (it["n"] * 8)
            it["bits"] = bits
