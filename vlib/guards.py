"""Path-condition inventory of the analyzer's diagnostics: for every `Diagnostic::error().with_code(..)` site, the
set of literals of the condition under which it is reached (patterns and boolean expressions with local names erased,
in the normal form of synq.guard_literals)."""
from . import synq, stages

AN = "pdl-compiler/src/analyzer.rs"


def inventory(tree=None):
    tree = tree or stages.repo_syn(AN)
    fns = synq.functions(tree)
    synq.INLINE_FNS.clear()
    synq.INLINE_FNS.update({k: v for k, v in synq.single_expression_fns(tree).items()
                            if k not in ("bit_width", "scalar_max")})      # kept by name: canonical() relates the two
    try:
        return _inventory(fns)
    finally:
        synq.INLINE_FNS.clear()


def _inventory(fns):
    out = []
    for name, f in fns.items():
        if name.startswith("test::") or "::" in name and name.split("::")[0] == "test":
            continue
        if name.startswith("<"):
            continue      # trait-qualified duplicates
        for node, lits in synq.guard_literals(f, lambda x: x.get("k") == "MethodCall" and x["method"] == "with_code"):
            code = synq.expr_skel(node["args"][0])
            out.append({"fn": name, "code": code, "chain": sorted(lits)})
    return out


def canonical(entry):
    """the path condition of a diagnostic as a sorted list of literals (see synq.guard_literals): independent of how
    the condition is spelled (match / if let / matches!, nested ifs / &&, named booleans, operand order) and of the
    function it lives in; plus the known equivalent spellings of 'v does not fit w bits'"""
    c = []
    for x in entry["chain"]:
        x = x.replace("(scalar_max(_) < _)", "(_ < bit_width(_))")
        c.append(x)
    return {"fn": entry["fn"], "code": entry["code"], "chain": sorted(c)}


def merge_cells(entries):
    """sites of one error code that differ only in the cells of one tuple match are one site on the union of the cells
    (two arms with the same body merged into an or-pattern, or split again)"""
    import re
    groups, rest = {}, []
    for e in entries:
        cl = [x for x in e["chain"] if re.match(r".* in \{.*\}$", x)]
        if len(cl) != 1:
            rest.append(e)
            continue
        scrut, cells = cl[0].split(" in {", 1)
        others = tuple(sorted(x for x in e["chain"] if x != cl[0]))
        groups.setdefault((e["code"], others, scrut), {"fn": e["fn"], "cells": set()})
        groups[(e["code"], others, scrut)]["cells"] |= set(c for c in cells[:-1].split("; ") if c)
    for (code, others, scrut), g in groups.items():
        rest.append({"fn": g["fn"], "code": code,
                     "chain": sorted(list(others) + [f"{scrut} in {{" + "; ".join(sorted(g["cells"])) + "}"])})
    return rest


if __name__ == "__main__":
    import json, os, sys
    from . import core
    inv = merge_cells([canonical(e) for e in inventory()])
    json.dump({"comment": "Guard skeletons of every analyzer diagnostic, confirmed by reading against doc/reference.md "
               "on the tree with fix commits D1-D3,D8,D2 applied. Regenerate with `python3 -m vlib.guards` only after "
               "re-confirming each changed entry.", "sites": inv},
              open(os.path.join(core.VERIF, "spec", "analyzer_guards.json"), "w"), indent=1)
    print(len(inv), "sites")
