import sys, os
from vlib import stages, javaeval
d, idx = stages.stage_java("quick", 0)
name = sys.argv[1]; only = sys.argv[2:]
jm = javaeval.JModule(os.path.join(d, name))
print("big", jm.big, len(jm.classes))
u = jm.classes.get("Utils")
if u and not only:
    for mn, ms in u["methods"].items():
        if not mn[:3] in ("get", "put"): continue
        ev = javaeval.JHelper(jm, u, ms[0]).run()
        print(mn, ev.verdict(int(mn[3:]) // 8, jm.big), [o for o in ev.obls if not o.ok])
for cn, c in jm.classes.items():
    if "." in cn or cn == "Utils": continue
    if only and cn not in only: continue
    for mname in ("fromBytes", "fromPayload"):
        m = jm.method(c, mname, lambda m: javaeval.ptype(m, 0) == "ByteBuffer")
        if m is None: continue
        try:
            ev = javaeval.JParse(jm, c, m).run()
        except Exception as e:
            import traceback; traceback.print_exc(); print("EXC", cn, mname); continue
        bad = [o for o in ev.obls if not o.ok]
        print(f"== {cn}.{mname}: {len(bad)} failed; dispatch={[(str(c_)[:60], k) for c_, k in ev.dispatch]}")
        for o in bad: print("   ", o)
        for it in ev.items:
            d2 = {k: v for k, v in it.items() if k not in ("uses", "sym")}
            if "bits" in d2:
                bs = d2.pop("bits"); d2["bits"] = [b for i, b in enumerate(bs) if i == 0 or bs[i-1][:2] != b[:2]]
            print("    ", str(d2)[:260])
