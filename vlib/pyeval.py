"""Abstract evaluator for the Python code emitted by pdl's Python backend (Python `ast` in).

Generated `parse` functions are executed symbolically for all inputs: `span` carries a
symbolic remaining length, integers are symbolic expressions (sym.py, unbounded Python
ints), `fields` is the set of keys written so far.  Obligations: every `span[k]` needs
len(span) > k (IndexError), every constant-bound slice that feeds int.from_bytes /
parse_all / `span = span[n:]` needs len(span) >= bound (no silent short read), `x -= m`
needs x >= m (no negative slice bound), every `raise` must construct a DecodeError
subclass, every fields['k'] read needs a prior write, while-loops need progress.  The
evaluator also produces the decoder layout in the same item format as rslayout.

Nothing is executed; unknown constructs become `unmodelled` obligations (fail closed)."""
import ast

from . import sym
from .sym import E, Cond, const, binop, Env, INF


class Obl:
    def __init__(self, kind, ok, what, line, role=""):
        self.kind, self.ok, self.what, self.line, self.role = kind, ok, what, line, role

    def __repr__(self):
        return f"Obl({self.kind},{'ok' if self.ok else 'FAIL'},{self.what},l{self.line})"


class Span:
    def __init__(self, ev, rem, origin="input", label="span"):
        self.ev = ev
        self.rem = rem
        self.origin = origin
        self.label = label
        ev.nver += 1
        self.ver = ev.nver


class SubSpan:
    """span[a:b] with constant (or symbolic) bounds, not yet consumed"""

    def __init__(self, base, a, b):
        self.base, self.a, self.b = base, a, b


class ListV:
    def __init__(self, name=None):
        self.name = name
        self.elem = None


class FieldsV:
    def __init__(self, keys):
        self.keys = set(keys)
        self.vals = {}


class ObjV:
    def __init__(self, ty, src=None):
        self.ty, self.src = ty, src


class TupleV:
    def __init__(self, items):
        self.items = items


class BoolV:
    def __init__(self, c):
        self.c = c


class Opaque:
    def __init__(self, text=""):
        self.text = text


class Raise(Exception):
    def __init__(self, cls, node):
        self.cls, self.node = cls, node


class Ret(Exception):
    def __init__(self, val):
        self.val = val


class PyModule:
    def __init__(self, path, name=None):
        self.name = name or path
        self.src = open(path).read()
        self.tree = ast.parse(self.src)
        self.classes = {}
        for n in self.tree.body:
            if isinstance(n, ast.ClassDef):
                self.classes[n.name] = n

    def bases(self, cls):
        out = []
        n = self.classes.get(cls)
        seen = set()
        while n is not None and n.name not in seen:
            seen.add(n.name)
            nxt = None
            for b in n.bases:
                nm = b.id if isinstance(b, ast.Name) else (b.attr if isinstance(b, ast.Attribute) else None)
                if nm:
                    out.append(nm)
                    if nm in self.classes:
                        nxt = self.classes[nm]
            n = nxt
        return out

    def is_decode_error(self, cls):
        return cls == "DecodeError" or "DecodeError" in self.bases(cls)

    def method(self, cls, name):
        n = self.classes.get(cls)
        if n is None:
            return None
        for b in n.body:
            if isinstance(b, ast.FunctionDef) and b.name == name:
                return b
        return None

    def dataclass_fields(self, cls):
        out = []
        chain = [cls] + [b for b in self.bases(cls) if b in self.classes]
        for c in reversed(chain):
            for b in self.classes[c].body:
                if isinstance(b, ast.AnnAssign) and isinstance(b.target, ast.Name):
                    out.append(b.target.id)
        return out

    def compute_min_sizes(self, rounds=4):
        self.min_size = {c: 0 for c in self.packet_classes()}
        for c in self.classes:
            if c not in self.min_size and c not in ("Packet",) and not self.is_decode_error(c):
                pass
        for _ in range(rounds):
            changed = False
            for c in self.packet_classes():
                if self.method(c, "parse") is None:
                    continue
                try:
                    ev = ParseEval(self, c).run()
                except Exception:
                    continue
                mn = getattr(ev, "consumed_const", 0)
                for it in ev.items:
                    if it["k"] == "typedef" and it.get("mode") == "parse":
                        mn += self.min_size.get(it["type"], 1 if it["type"] not in self.classes else 0)
                    if it["k"] == "array" and it["shape"]["k"] == "static" and it["elem"].get("k") == "struct":
                        mn += it["shape"]["n"] * self.min_size.get(it["elem"].get("type"), 0)
                if mn != self.min_size.get(c):
                    self.min_size[c] = mn
                    changed = True
            if not changed:
                break
        return self.min_size

    def packet_classes(self):
        return [c for c in self.classes if "Packet" in self.bases(c)]

    def enum_classes(self):
        return [c for c in self.classes if any(b in ("IntEnum",) for b in self.bases(c))]

    def parent_of(self, cls):
        bs = self.bases(cls)
        return bs[0] if bs and bs[0] != "Packet" else None


class ParseEval:
    def __init__(self, pm, cls):
        self.pm = pm
        self.cls = cls
        self.fn = pm.method(cls, "parse")
        self.env = Env()
        self.nver = 0
        self.nsym = 0
        self.obls = []
        self.vars = {}
        self.items = []
        self.chunks = {}         # (ver, off, n) -> item
        self.roles = {}
        self.var = {}
        self.checks = []         # (exception class, cond, node)
        self.raises = []
        self.result_fields = {}
        self.always_fails = None
        self.return_errors = []
        self.children_tried = []
        self.run_pos = {}
        self.pending_pad = None
        self.progress = None
        self.loop = None
        self.returned = None

    # ------------------------------------------------------------------ helpers
    def obl(self, kind, ok, what, node, role=""):
        self.obls.append(Obl(kind, bool(ok), what, getattr(node, "lineno", 0), role))

    def fresh(self, prefix, hi=None):
        self.nsym += 1
        return sym.sym(f"{prefix}#{self.nsym}", None, 0, hi)

    def run(self):
        args = [a.arg for a in self.fn.args.args]
        span = Span(self, self.fresh("len"), "input")
        self.input = span
        if "fields" in args:
            parent = self.pm.parent_of(self.cls)
            keys = set(self.pm.dataclass_fields(parent)) | {"payload"} if parent else {"payload"}
            self.vars["fields"] = FieldsV(keys)
            for k in keys:
                self.vars["fields"].vals[k] = sym.sym(f"fields.{k}")
        self.vars["span"] = span
        try:
            self.block(self.fn.body)
        except Ret as r:
            self.returned = r.val
        except Raise as r:
            self.raises.append((r.cls, None))
        self.finish()
        return self

    def block(self, stmts):
        for s in stmts:
            self.stmt(s)

    # ------------------------------------------------------------------ statements
    def stmt(self, s):
        m = getattr(self, "s_" + type(s).__name__, None)
        if m is None:
            self.obl("unmodelled", False, f"statement {type(s).__name__}", s)
            return
        m(s)

    def s_Pass(self, s):
        pass

    def s_Expr(self, s):
        self.expr(s.value)

    def s_Assign(self, s):
        if len(s.targets) != 1:
            self.obl("unmodelled", False, "multiple assignment targets", s)
            return
        t = s.targets[0]
        v = self.expr(s.value)
        if isinstance(t, ast.Name) and t.id.endswith("_size") and isinstance(v, E) and v.op == "sub":
            ok = self.env.prove_ge(v.args[0], v.args[1])
            self.obl("negative", ok, f"`{t.id} = {v.key()}` may go negative (then used as a slice bound)", s, role="size-modifier")
        self.assign(t, v, s)

    def assign(self, t, v, s):
        if isinstance(t, ast.Name):
            if t.id == "payload":
                v = self.payload(v, s)
            elif t.id == "span" and isinstance(v, SubSpan):
                v = self.advance(v, s)
            elif isinstance(v, SubSpan):
                v = self.materialise(v, s, t.id)
            if isinstance(v, E):
                self.var[t.id] = v
                self.use(t.id, v)
            if isinstance(v, ListV) and v.name is None:
                v.name = t.id
            self.vars[t.id] = v
        elif isinstance(t, ast.Subscript) and isinstance(t.value, ast.Name) and t.value.id == "fields":
            key = t.slice.value if isinstance(t.slice, ast.Constant) else None
            f = self.vars.get("fields")
            if not isinstance(f, FieldsV) or key is None:
                self.obl("unmodelled", False, "fields[..] assignment", s)
                return
            f.keys.add(key)
            f.vals[key] = v
            pt = getattr(self, "pending_typedef", None)
            if pt is not None and isinstance(v, ObjV) and v.ty == pt["type"] and pt["name"] is None:
                pt["name"] = key
                self.pending_typedef = None
            if isinstance(v, E):
                self.use(key, v, field=True)
            elif isinstance(v, ObjV) and isinstance(v.src, E):
                self.use(key, v.src, field=True, kind="enum", ty=v.ty)
        elif isinstance(t, ast.Tuple):
            items = v.items if isinstance(v, TupleV) else [Opaque("?")] * len(t.elts)
            if not isinstance(v, TupleV):
                self.obl("unmodelled", False, "tuple assignment from non-tuple", s)
            for tt, vv in zip(t.elts, items):
                self.assign(tt, vv, s)
        else:
            self.obl("unmodelled", False, f"assignment target {type(t).__name__}", s)

    def s_AugAssign(self, s):
        if isinstance(s.target, ast.Name) and isinstance(s.op, (ast.Sub, ast.Add)):
            cur = self.vars.get(s.target.id)
            d = self.expr(s.value)
            if isinstance(cur, E) and isinstance(d, E):
                if isinstance(s.op, ast.Sub):
                    ok = self.env.prove_ge(cur, d)
                    self.obl("negative", ok, f"`{s.target.id} -= {d.key()}` may go negative (then used as a slice bound)", s,
                             role="size-modifier")
                    nv = binop("sub", cur, d)
                    self.mod_of = getattr(self, "mod_of", {})
                    self.mod_of[nv.key()] = (cur, d)
                else:
                    nv = binop("add", cur, d)
                self.vars[s.target.id] = nv
                self.var[s.target.id] = nv
                return
        self.obl("unmodelled", False, "augmented assignment", s)

    def s_Return(self, s):
        v = self.expr(s.value) if s.value is not None else None
        raise Ret(v)

    def s_Raise(self, s):
        cls = None
        if isinstance(s.exc, ast.Call) and isinstance(s.exc.func, ast.Name):
            cls = s.exc.func.id
        elif isinstance(s.exc, ast.Name):
            cls = s.exc.id
        ok = cls is not None and self.pm.is_decode_error(cls)
        self.obl("raise", ok, f"raise {cls}: not a DecodeError subclass", s, role=f"raise-{cls}")
        raise Raise(cls, s)

    def s_If(self, s):
        c = self.cond(s.test)
        known = self.env.cond_value(c) if c is not None else None
        body_raises = len(s.body) >= 1 and isinstance(s.body[-1], ast.Raise)
        if body_raises and not s.orelse:
            if known is not False:
                saved = self.env
                self.env = saved.copy()
                if c is not None:
                    self.env.assume(c)
                try:
                    self.block(s.body)
                except Raise as r:
                    self.checks.append((r.cls, c, s))
                    if known is True:
                        self.always_fails = (r.cls, s.lineno)
                    if r.cls == "FixedValueError" and c is not None and c.op == "ne":
                        a, b = c.args
                        if isinstance(a, E) and isinstance(b, E):
                            if a.is_const():
                                a, b = b, a
                            if b.is_const():
                                self.use("fixed", a, kind="fixed", value=b.cval())
                            else:
                                self.use("fixed", a, kind="fixed", value=None)
                self.env = saved
            if c is not None:
                self.env.assume(c.negate())
            return
        # conditional region (optional fields, `if remainder:`)
        saved_env = self.env
        snap = self.snapshot()
        branches = []
        for body, cc in ((s.body, c), (s.orelse, c.negate() if c is not None else None)):
            self.env = saved_env.copy()
            if cc is not None:
                self.env.assume(cc)
            self.restore(snap)
            n_items = len(self.items)
            raised = None
            try:
                self.block(body)
            except Raise as r:
                raised = r
            branches.append((self.snapshot(), self.items[n_items:], raised, cc))
        self.env = saved_env
        (s1, i1, r1, c1), (s2, i2, r2, c2) = branches
        # optional field: the then-branch consumed input
        self.items = self.items[:len(self.items) - len(i1) - len(i2)] if False else self.items
        if r1 is not None and r2 is None:
            self.restore(s2)
            return
        if i1 and not i2 and c is not None:
            self.mark_optional(i1, c, s)
        self.merge(s1, s2, c)

    def snapshot(self):
        return {"vars": dict(self.vars), "rems": {id(v): (v, v.rem, v.ver) for v in self.vars.values() if isinstance(v, Span)},
                "keys": set(self.vars["fields"].keys) if isinstance(self.vars.get("fields"), FieldsV) else None}

    def restore(self, snap):
        self.vars = dict(snap["vars"])
        for (v, rem, ver) in snap["rems"].values():
            v.rem, v.ver = rem, ver
        if snap["keys"] is not None and isinstance(self.vars.get("fields"), FieldsV):
            self.vars["fields"].keys = set(snap["keys"])

    def merge(self, s1, s2, c):
        self.vars = dict(s1["vars"])
        for k, (v, rem1, ver1) in s1["rems"].items():
            if k in s2["rems"]:
                _, rem2, ver2 = s2["rems"][k]
                if rem1.key() != rem2.key():
                    v.rem = sym.ite(c, rem1, rem2) if c is not None else self.fresh("len")
                    self.nver += 1
                    v.ver = self.nver
                else:
                    v.rem, v.ver = rem1, ver1
        f = self.vars.get("fields")
        if isinstance(f, FieldsV) and s1["keys"] is not None and s2["keys"] is not None:
            # keys written in only one branch are optional: dataclass defaults cover them
            f.keys = s1["keys"] | s2["keys"]
            self.optional_keys = getattr(self, "optional_keys", set()) | (s1["keys"] ^ s2["keys"])

    def mark_optional(self, items, c, s):
        flag = None
        if c.op == "eq" and isinstance(c.args[0], E) and isinstance(c.args[1], E):
            a, b = c.args
            if a.is_const():
                a, b = b, a
            if b.is_const():
                flag = (a, b.cval())
        reads = [x for x in items if x["k"] == "chunk"]
        nested = [x for x in items if x["k"] == "typedef"]
        name = None
        inner = {"k": "unknown"}
        if reads:
            r = reads[0]
            uses = r.get("uses", [])
            name = uses[0]["name"] if uses else None
            kind = "enum" if any(u.get("kind") == "enum" for u in uses) else "scalar"
            inner = {"k": kind, "w": r["n"] * 8, "order": r["order"]}
            if kind == "enum":
                inner["type"] = next(u.get("ty") for u in uses if u.get("kind") == "enum")
            for x in reads:
                self.chunks = {k: v for k, v in self.chunks.items() if v is not x}
        elif nested:
            name = nested[0].get("name")
            inner = {"k": "struct", "type": nested[0]["type"]}
        if flag:
            self.role(flag[0], ("flag", name, flag[1]))
        for x in items:
            self.items.remove(x)
        self.items.append({"k": "optional", "name": name, "flag": flag, "inner": inner, "line": s.lineno,
                           "guarded": True})

    def s_For(self, s):
        it = s.iter
        if not (isinstance(it, ast.Call) and isinstance(it.func, ast.Name) and it.func.id == "range" and len(it.args) == 1):
            self.obl("unmodelled", False, "for loop not over range(n)", s)
            return
        cnt = self.expr(it.args[0])
        if not isinstance(cnt, E):
            self.obl("unmodelled", False, "range() of non-integer", s)
            return
        nvar = s.target.id if isinstance(s.target, ast.Name) else None
        span = self.vars.get("span")
        pre_rem = span.rem if isinstance(span, Span) else None
        self.loop = {"n": nvar, "count": cnt, "reads": [], "nested": [], "elem": None, "list": None}
        if nvar:
            self.vars[nvar] = sym.sym(f"idx:{nvar}")
        saved_items = len(self.items)
        try:
            self.block(s.body)
        finally:
            lp = self.loop
            self.loop = None
        new_items = self.items[saved_items:]
        del self.items[saved_items:]
        name = lp["list"]
        shape = self.classify_count(cnt, name, pre_rem)
        elem = lp["elem"] or {"k": "unknown"}
        it_ = {"k": "array", "name": name, "elem": elem, "shape": shape, "pad": self.pending_pad, "line": s.lineno}
        self.items.append(it_)
        self.last_array = it_
        self.pending_pad = None
        if lp["reads"] and cnt.is_const() and isinstance(span, Span):
            self.run_pos[span.ver] = self.run_pos.get(span.ver, 0) + cnt.cval() * lp["reads"][0]
        # bounds: count * per-iteration bytes must be available (direct reads)
        if lp["reads"]:
            per = lp["reads"][0]
            total = binop("mul", cnt, const(per))
            if pre_rem is not None:
                ok = self.env.prove_ge(pre_rem, total)
                self.obl("short-read", ok, f"loop reads {cnt.key()} x {per} byte(s) from a span of length {pre_rem.key()}", s,
                         role="loop-read")

    def s_While(self, s):
        # while len(X) > 0:
        t = s.test
        sp = None
        if (isinstance(t, ast.Compare) and isinstance(t.left, ast.Call) and isinstance(t.left.func, ast.Name) and
                t.left.func.id == "len" and isinstance(t.left.args[0], ast.Name)):
            sp = self.vars.get(t.left.args[0].id)
        if not isinstance(sp, Span):
            self.obl("progress", False, "while loop with unrecognised condition", s, role="while")
            return
        self.loop = {"n": None, "count": None, "reads": [], "nested": [], "elem": None, "list": None, "while": sp}
        saved_items = len(self.items)
        try:
            self.block(s.body)
        finally:
            lp = self.loop
            self.loop = None
        del self.items[saved_items:]
        prog = sum(lp.get("progress", [])) if lp.get("progress") else 0
        self.obl("progress", prog >= 1, f"while len(span) > 0 body consumes at least one byte per iteration (min {prog})", s,
                 role="while-progress")
        name = lp["list"]
        sized = getattr(sp, "sized_by", None)
        if sized is not None:
            self.role(sized, ("size", name, 0))
            shape = {"k": "size", "f": name, "v": sized, "elem_bytes": None}
        else:
            shape = {"k": "rest", "elem_bytes": None}
        it_ = {"k": "array", "name": name, "elem": lp["elem"] or {"k": "unknown"}, "shape": shape, "pad": self.pending_pad,
               "line": s.lineno}
        self.items.append(it_)
        self.last_array = it_
        self.pending_pad = None
        sp.rem = const(0)
        self.nver += 1
        sp.ver = self.nver

    def s_Try(self, s):
        # try: child, remainder = C.parse(fields.copy(), payload) ... except Exception: pass
        names = []
        for n in ast.walk(s):
            if isinstance(n, ast.Call) and isinstance(n.func, ast.Attribute) and n.func.attr == "parse" and isinstance(n.func.value, ast.Name):
                names.append(n.func.value.id)
        swallow = all(isinstance(h.type, ast.Name) and h.type.id == "Exception" and
                      all(isinstance(b, ast.Pass) for b in h.body) for h in s.handlers)
        if names and swallow:
            self.children_tried += names
            return
        self.obl("unmodelled", False, "try statement", s)

    # ------------------------------------------------------------------ conditions
    def cond(self, t):
        if isinstance(t, ast.Compare) and len(t.ops) == 1:
            a = self.expr(t.left)
            b = self.expr(t.comparators[0])
            op = {ast.Lt: "lt", ast.LtE: "le", ast.Gt: "gt", ast.GtE: "ge", ast.Eq: "eq", ast.NotEq: "ne"}.get(type(t.ops[0]))
            if isinstance(a, E) and isinstance(b, E) and op:
                return Cond(op, a, b)
            if isinstance(a, ObjV) and isinstance(a.src, E) and isinstance(b, E) and op:
                return Cond(op, a.src, b)
            return Cond("opaque", f"cmp@{t.lineno}:{t.col_offset}")
        if isinstance(t, ast.BoolOp):
            cs = [self.cond(v) for v in t.values]
            return Cond("and" if isinstance(t.op, ast.And) else "or", *cs)
        if isinstance(t, ast.UnaryOp) and isinstance(t.op, ast.Not):
            return self.cond(t.operand).negate()
        if isinstance(t, ast.Name):
            v = self.vars.get(t.id)
            if isinstance(v, Span):
                return Cond("gt", v.rem, const(0))
            return Cond("opaque", f"name:{t.id}")
        return Cond("opaque", f"cond@{getattr(t, 'lineno', 0)}")

    # ------------------------------------------------------------------ expressions
    def expr(self, n):
        m = getattr(self, "e_" + type(n).__name__, None)
        if m is None:
            self.obl("unmodelled", False, f"expression {type(n).__name__}", n)
            return Opaque(type(n).__name__)
        return m(n)

    def e_Constant(self, n):
        if isinstance(n.value, bool):
            return BoolV(Cond("true" if n.value else "false"))
        if isinstance(n.value, int):
            return const(n.value)
        return Opaque(repr(n.value))

    def e_Name(self, n):
        if n.id in self.vars:
            return self.vars[n.id]
        return Opaque("name:" + n.id)

    def e_UnaryOp(self, n):
        v = self.expr(n.operand)
        if isinstance(n.op, ast.UAdd):
            return v
        if isinstance(n.op, ast.USub) and isinstance(v, E) and v.is_const():
            return const(-v.cval())
        self.obl("unmodelled", False, "unary operator", n)
        return Opaque("unary")

    def e_BinOp(self, n):
        a, b = self.expr(n.left), self.expr(n.right)
        ops = {ast.Add: "add", ast.Sub: "sub", ast.Mult: "mul", ast.RShift: "shr", ast.LShift: "shl", ast.BitAnd: "and",
               ast.BitOr: "or", ast.Mod: "rem", ast.Div: "div", ast.FloorDiv: "div"}
        op = ops.get(type(n.op))
        if isinstance(a, E) and isinstance(b, E) and op:
            r = binop(op, a, b)
            if op == "div":
                if binop("rem", a, b).key() in self.env.zero:
                    self.env.add_fact_ge(binop("mul", b, r), a)
                self.env.add_fact_ge(a, binop("mul", b, r))
            return r
        self.obl("unmodelled", False, f"binary {type(n.op).__name__} on {type(a).__name__},{type(b).__name__}", n)
        return Opaque("bin")

    def e_Tuple(self, n):
        return TupleV([self.expr(x) for x in n.elts])

    def e_List(self, n):
        return ListV()

    def e_Dict(self, n):
        keys = [k.value for k in n.keys if isinstance(k, ast.Constant)]
        return FieldsV(keys)

    def e_Attribute(self, n):
        if isinstance(n.value, ast.Name) and n.value.id in self.pm.classes:
            v = enum_member(self.pm, n.value.id, n.attr)
            if v is not None:
                return const(v)
        return Opaque("attr:" + n.attr)

    def e_Subscript(self, n):
        base = self.expr(n.value)
        sl = n.slice
        if isinstance(base, FieldsV):
            key = sl.value if isinstance(sl, ast.Constant) else None
            self.obl("keyerror", key in base.keys, f"fields[{key!r}] read before any write", n, role="fields-read")
            v = base.vals.get(key)
            return v if v is not None else sym.sym(f"fields.{key}")
        if isinstance(base, Span):
            if isinstance(sl, ast.Slice):
                lo = self.expr(sl.lower) if sl.lower is not None else const(0)
                hi = self.expr(sl.upper) if sl.upper is not None else None
                if isinstance(lo, E) and (hi is None or isinstance(hi, E)):
                    return SubSpan(base, lo, hi)
                self.obl("unmodelled", False, "slice with non-integer bounds", n)
                return Opaque("slice")
            k = self.expr(sl)
            if isinstance(k, E):
                if k.is_const() and k.cval() < 0:
                    # span[-k]: from the end
                    need = const(-k.cval())
                    self.obl("index", self.env.prove_ge(base.rem, need), f"span[{k.cval()}] needs {need.key()} byte(s)", n, role="index")
                    return self.fresh("rd_end", 255)
                need = binop("add", k, const(1))
                ok = self.env.prove_ge(base.rem, need)
                self.obl("index", ok, f"span[{k.key()}] needs len(span) > {k.key()} (IndexError otherwise); known length "
                         f"{base.rem.key()}", n, role="index")
                return self.read(base, k, 1, None, n)
        if isinstance(base, ListV) or isinstance(base, Opaque):
            return Opaque("subscript")
        self.obl("unmodelled", False, f"subscript of {type(base).__name__}", n)
        return Opaque("subscript")

    def read(self, span, off, nbytes, order, node):
        """a direct read of nbytes at offset `off` of the current span"""
        if self.loop is not None and not off.is_const():
            self.loop["reads"].append(nbytes)
            self.loop["elem_read"] = (nbytes, order)
            return self.fresh("elem", (1 << (8 * nbytes)) - 1)
        key = (span.ver, off.key(), nbytes)
        it = self.chunks.get(key)
        if it is None and off.is_const():
            self.fill_gap(span, off.cval(), node)
            self.run_pos[span.ver] = off.cval() + nbytes
        if it is None:
            s = sym.sym(f"rd@{span.ver}:{off.key()}:{nbytes}", None, 0, (1 << (8 * nbytes)) - 1)
            it = {"k": "chunk", "n": nbytes, "order": order, "sym": s, "line": getattr(node, "lineno", 0), "uses": [],
                  "off": off.cval() if off.is_const() else None}
            self.chunks[key] = it
            self.chunks[s.key()] = it
            self.items.append(it)
        return it["sym"]

    def fill_gap(self, span, upto, node):
        """bytes of the current static run that are never read (reserved-only groups) become a skipped chunk"""
        pos = self.run_pos.get(span.ver, 0)
        if upto > pos:
            self.items.append({"k": "chunk", "n": upto - pos, "order": None, "sym": None, "line": getattr(node, "lineno", 0),
                               "uses": [], "skipped": True})
            self.run_pos[span.ver] = upto

    def materialise(self, ss, node, name=None):
        """a SubSpan bound to a name: array_span = span[:x_size] / remaining_span = span[P:] / payload = span[:n]"""
        base = ss.base
        if ss.b is None:
            # span[a:]
            ok = self.env.prove_ge(base.rem, ss.a)
            self.obl("short-read", ok, f"span[{ss.a.key()}:] with known length {base.rem.key()}", node, role="advance")
            sp = Span(self, binop("sub", base.rem, ss.a), base.origin, name or "span")
            sp.after = ss.a
            return sp
        # span[a:b]
        ok = self.env.prove_ge(base.rem, ss.b)
        self.obl("short-read", ok, f"span[{ss.a.key()}:{ss.b.key()}] with known length {base.rem.key()} (silent short slice)",
                 node, role="slice")
        sp = Span(self, binop("sub", ss.b, ss.a), None, name or "slice")
        if not ss.b.is_const():
            sp.sized_by = ss.b
        else:
            sp.padded = ss.b.cval()
        return sp

    def payload(self, v, node):
        """payload = span[:n] | span | span[:-k]"""
        if isinstance(v, Span):
            self.items.append({"k": "payload", "shape": {"k": "rest", "tail": 0}, "line": node.lineno})
            return v
        if isinstance(v, SubSpan) and v.a.is_const() and v.a.cval() == 0 and v.b is not None:
            b = v.b
            if b.is_const() and b.cval() < 0:
                k = -b.cval()
                ok = self.env.prove_ge(v.base.rem, const(k))
                self.obl("short-read", ok, f"payload = span[:-{k}] with known length {v.base.rem.key()}", node, role="payload-tail")
                self.items.append({"k": "payload", "shape": {"k": "rest", "tail": k}, "line": node.lineno})
                return Span(self, binop("sub", v.base.rem, const(k)), None, "payload")
            ok = self.env.prove_ge(v.base.rem, b)
            self.obl("short-read", ok, f"payload = span[:{b.key()}] with known length {v.base.rem.key()} (silent short payload)",
                     node, role="payload")
            lo = self.env.interval(b)[0]
            mod = 0
            base = b
            if b.op == "sub" and b.args[1].is_const():
                mod = b.args[1].cval()
                base = b.args[0]
            self.role(base, ("size", "_payload_", mod))
            self.items.append({"k": "payload", "shape": {"k": "size", "mod": mod, "v": base}, "line": node.lineno})
            return Span(self, b, None, "payload")
        self.obl("unmodelled", False, "payload assignment", node)
        return Opaque("payload")

    def advance(self, ss, node):
        """span = span[a:]  /  span = span[:P] (padding head)"""
        base = ss.base
        if ss.b is None and ss.a.is_const() and ss.a.cval() < 0:
            k = -ss.a.cval()
            return Span(self, const(k), base.origin, "span")
        if ss.b is None and ss.a.is_const() and self.loop is None:
            self.consumed_const = getattr(self, "consumed_const", 0) + ss.a.cval()
            self.fill_gap(base, ss.a.cval(), node)
        if ss.b is None:
            if not ss.a.is_const():
                lo_ = self.env.interval(ss.a)[0]
                self.obl("negative-index", lo_ >= 0, f"span = span[{ss.a.key()}:] where the bound may be negative ({lo_}): a "
                         f"negative bound counts from the end of the span, the parser goes on with the wrong bytes", node,
                         role="advance")
            ok = self.env.prove_ge(base.rem, ss.a)
            self.obl("short-read", ok, f"span = span[{ss.a.key()}:] with known length {base.rem.key()} (silently truncates)", node,
                     role="advance")
            sp = Span(self, binop("sub", base.rem, ss.a), base.origin, "span")
            if getattr(base, "sized_by", None) is not None:
                sp.sized_by = base.sized_by
            if self.loop is not None and "progress" in self.loop:
                pass
            return sp
        if ss.a.is_const() and ss.a.cval() == 0:
            # span = span[:P]: restrict to the padded region
            ok = self.env.prove_ge(base.rem, ss.b)
            self.obl("short-read", ok, f"span = span[:{ss.b.key()}] with known length {base.rem.key()}", node, role="slice")
            sp = Span(self, ss.b, None, "span")
            if ss.b.is_const():
                self.pending_pad = ss.b.cval()
            return sp
        self.obl("unmodelled", False, "span = span[a:b]", node)
        return Span(self, self.fresh("len"), None, "span")

    def e_Call(self, n):
        f = n.func
        # len(x)
        if isinstance(f, ast.Name):
            if f.id == "len" and len(n.args) == 1:
                v = self.expr(n.args[0])
                if isinstance(v, Span):
                    return v.rem
                if isinstance(v, SubSpan):
                    return binop("sub", v.b, v.a) if v.b is not None else binop("sub", v.base.rem, v.a)
                return self.fresh("len")
            if f.id == "int" and len(n.args) == 1:
                return self.expr(n.args[0])
            if f.id in ("bytes", "bytearray"):
                if not n.args:
                    return Span(self, const(0), None, "empty")
                a = self.expr(n.args[0])
                if isinstance(a, ListV):
                    return Span(self, const(0), None, "empty")
                return a
            if f.id == "range":
                return Opaque("range")
            if f.id in self.pm.classes:
                # T(**fields)
                if n.keywords and n.keywords[0].arg is None:
                    fv = self.expr(n.keywords[0].value)
                    if isinstance(fv, FieldsV):
                        allowed = set(self.pm.dataclass_fields(f.id))
                        extra = fv.keys - allowed
                        self.obl("kwargs", not extra, f"{f.id}(**fields) receives keys {sorted(extra)} that are not fields of "
                                 f"{f.id} (TypeError)", n, role="kwargs")
                        self.result_fields = dict(fv.vals)
                        for k in fv.keys:
                            self.result_fields.setdefault(k, None)
                        return ObjV(f.id)
                return ObjV(f.id)
            if f.id[:1].isupper() and f.id not in self.vars:
                # user-supplied checksum function: an integer
                for a in n.args:
                    self.expr(a)
                return self.fresh("user")
            self.obl("unmodelled", False, f"call {f.id}()", n)
            return Opaque("call")
        if isinstance(f, ast.Attribute):
            recv = f.value
            # int.from_bytes(span[a:b], byteorder='little')
            if isinstance(recv, ast.Name) and recv.id == "int" and f.attr == "from_bytes":
                ss = self.expr(n.args[0])
                order = None
                for kw in n.keywords:
                    if kw.arg == "byteorder" and isinstance(kw.value, ast.Constant):
                        order = kw.value.value
                if isinstance(ss, SubSpan) and ss.b is not None:
                    nb = binop("sub", ss.b, ss.a)
                    nbv = self.env.poly(nb)
                    if list(nbv.keys()) in ([()], []):
                        nbytes = int(nbv.get((), 0))
                        if self.loop is None or ss.a.is_const():
                            ok = self.env.prove_ge(ss.base.rem, ss.b)
                            self.obl("short-read", ok, f"int.from_bytes(span[{ss.a.key()}:{ss.b.key()}]) with known length "
                                     f"{ss.base.rem.key()} (silent short read)", n, role="from_bytes")
                        return self.read(ss.base, ss.a, nbytes, order if nbytes > 1 else order, n)
                if isinstance(ss, Span):
                    return self.fresh("rd")
                self.obl("unmodelled", False, "int.from_bytes of unrecognised slice", n)
                return self.fresh("rd")
            if isinstance(recv, ast.Name) and (recv.id in self.pm.classes or (
                    recv.id not in self.vars and f.attr in ("parse", "parse_all", "from_int") and recv.id[:1].isupper())):
                # generated class, or a user-supplied custom field type (contract: total, raises only DecodeError,
                # consumes >= 1 byte)
                T = recv.id
                if f.attr == "from_int":
                    v = self.expr(n.args[0])
                    if isinstance(v, E):
                        if self.loop is not None and self.loop.get("elem_read"):
                            nb, order = self.loop["elem_read"]
                            self.loop["elem"] = {"k": "enum", "type": T, "w": nb * 8, "order": order}
                        return ObjV(T, src=v)
                    self.obl("unmodelled", False, "from_int of non-integer", n)
                    return ObjV(T)
                if f.attr == "parse_all":
                    ss = self.expr(n.args[0])
                    if isinstance(ss, SubSpan) and ss.b is not None:
                        if self.loop is None or ss.a.is_const():
                            ok = self.env.prove_ge(ss.base.rem, ss.b)
                            self.obl("short-read", ok, f"{T}.parse_all(span[{ss.a.key()}:{ss.b.key()}]) with known length "
                                     f"{ss.base.rem.key()}", n, role="parse_all")
                        nb = self.env.poly(binop("sub", ss.b, ss.a))
                        nbytes = int(nb.get((), 0)) if list(nb.keys()) in ([()], []) else None
                        if self.loop is not None and not ss.a.is_const():
                            if nbytes:
                                self.loop["reads"].append(nbytes)
                            self.loop["elem"] = {"k": "struct", "type": T}
                            return ObjV(T)
                        if ss.a.is_const() and nbytes is not None:
                            self.fill_gap(ss.base, ss.a.cval(), n)
                            self.run_pos[ss.base.ver] = ss.a.cval() + nbytes
                        self.items.append({"k": "typedef", "name": None, "type": T, "tk": "struct", "mode": "parse_all",
                                           "line": n.lineno, "static_bytes": nbytes})
                        self.pending_typedef = self.items[-1]
                        return ObjV(T)
                    self.obl("unmodelled", False, "parse_all of unrecognised slice", n)
                    return ObjV(T)
                if f.attr == "parse":
                    args = [self.expr(a) for a in n.args]
                    sp = args[-1] if args else None
                    if isinstance(sp, Span):
                        mn = 0
                        info = getattr(self.pm, "min_size", {}).get(T, 0)
                        if T not in self.pm.classes:
                            info = 1      # user-supplied custom field: contract: consumes >= 1 byte
                        new = Span(self, self.fresh("len"), sp.origin, sp.label)
                        if getattr(sp, "sized_by", None) is not None:
                            new.sized_by = sp.sized_by
                        self.env.add_fact_ge(sp.rem, binop("add", new.rem, const(info)))
                        if self.loop is not None:
                            self.loop.setdefault("progress", []).append(info)
                            self.loop["elem"] = {"k": "struct", "type": T}
                        else:
                            self.items.append({"k": "typedef", "name": None, "type": T, "tk": "struct", "mode": "parse",
                                               "line": n.lineno})
                            self.pending_typedef = self.items[-1]
                        return TupleV([ObjV(T), new])
                    return TupleV([ObjV(T), Opaque("span")])
            # x.append(v)
            if f.attr == "append" and isinstance(recv, ast.Name):
                lst = self.vars.get(recv.id)
                v = self.expr(n.args[0])
                if isinstance(lst, ListV):
                    if self.loop is not None:
                        self.loop["list"] = lst.name or recv.id
                        if self.loop.get("elem") is None and self.loop.get("elem_read"):
                            nb, order = self.loop["elem_read"]
                            self.loop["elem"] = {"k": "scalar", "w": nb * 8, "order": order}
                    return Opaque("none")
            if f.attr == "copy":
                v = self.expr(recv)
                return v
            self.obl("unmodelled", False, f"method call .{f.attr}()", n)
            return Opaque("call")
        self.obl("unmodelled", False, "call", n)
        return Opaque("call")

    # ------------------------------------------------------------------ layout bookkeeping (mirrors rslayout.DecoderLayout)
    def role(self, e, r):
        # a size used after `size = size - modifier`: the role belongs to the field value, with that modifier
        if r[0] in ("size", "count|size1") and e.op == "sub" and e.args[1].is_const() and r[2] == 0:
            # (a count has no modifier: `n - K` bounding a loop over one-octet elements is a size)
            self.roles[e.args[0].key()] = ("size", r[1], e.args[1].cval())
        self.roles[e.key()] = r

    def use(self, name, e, field=False, kind="var", **kw):
        bits = sym._bits_of(e, self.env, 64, structural=True)
        for j, b in enumerate(bits):
            if isinstance(b, tuple) and len(b) == 2 and isinstance(b[0], str) and b[0] in self.chunks:
                self.chunks[b[0]]["uses"].append({"name": name, "kind": kind, "j": j, "i": b[1], "e": e, "field": field, **kw})
        if getattr(self, "pending_typedef", None) is not None:
            pass

    def classify_count(self, cnt, name, pre_rem):
        if cnt.is_const():
            return {"k": "static", "n": cnt.cval()}
        if pre_rem is not None and cnt.key() == pre_rem.key():
            return {"k": "rest", "elem_bytes": 1}
        if cnt.op == "div" and cnt.args[1].is_const():
            v = cnt.args[0]
            if pre_rem is not None and v.key() == pre_rem.key():
                return {"k": "rest", "elem_bytes": cnt.args[1].cval()}
            self.role(v, ("size", name, 0))
            return {"k": "size", "f": name, "elem_bytes": cnt.args[1].cval(), "v": v}
        self.role(cnt, ("count|size1", name, 0))
        return {"k": "count", "f": name, "v": cnt}

    def finish(self):
        # payload / typedef naming and roles from the statement sequence are resolved by a second light pass
        for it in self.items:
            if it["k"] != "chunk":
                continue
            bits = [("ignored",)] * (it["n"] * 8)
            for u in it["uses"]:
                i = u["i"]
                if i >= len(bits):
                    continue
                e = u["e"]
                role = self.roles.get(e.key())
                if u["kind"] == "fixed":
                    v = u.get("value")
                    d = ("fixed", (v >> u["j"]) & 1 if v is not None else None)
                elif role is not None:
                    d = role + (u["j"],)
                elif u.get("field"):
                    d = ("f", u["name"], u["j"])
                elif e.key() in self.chunks and not u.get("field"):
                    d = ("var", u["name"], u["j"]) if u["name"] not in ("value_",) else None
                    if d is None:
                        continue
                else:
                    d = ("var", u["name"], u["j"])
                cur = bits[i]
                if cur == ("ignored",) or cur[0] == "var" or (cur[0] == "f" and d[0] not in ("var", "f")):
                    bits[i] = d
            it["bits"] = bits


# ====================================================================================== serializer
class SerEval:
    """Symbolic evaluation of a generated `serialize` (and `size`) method: produces encoder
    items in the format of rslayout.encoder_items."""

    def __init__(self, pm, cls, widths=None):
        self.pm = pm
        self.cls = cls
        self.env = Env()
        self.obls = []
        self.items = []
        self.vars = {}
        self.stack = [self.items]
        self.widths = widths or {}      # field name -> max value for unguarded in-range fields (enum / optional / elems)
        self.to_parent = None
        self.summ = None

    def obl(self, kind, ok, what, node, role=""):
        self.obls.append(Obl(kind, bool(ok), what, getattr(node, "lineno", 0), role))

    def run(self):
        fn = self.pm.method(self.cls, "serialize")
        self.block(fn.body)
        return self

    def emit(self, it):
        self.stack[-1].append(it)

    def block(self, stmts):
        for s in stmts:
            m = getattr(self, "s_" + type(s).__name__, None)
            if m is None:
                self.obl("unmodelled", False, f"statement {type(s).__name__}", s)
                continue
            m(s)

    def s_Pass(self, s):
        pass

    def s_Assign(self, s):
        t = s.targets[0]
        if isinstance(t, ast.Name):
            if t.id == "_span":
                return
            v = self.expr(s.value)
            self.vars[t.id] = v
            return
        self.obl("unmodelled", False, "assignment target", s)

    def s_If(self, s):
        c = self.cond(s.test)
        if s.body and isinstance(s.body[-1], ast.Raise) and not s.orelse:
            self.env.assume(c.negate())
            return
        # optional region: if self.x is not None:
        saved = self.env
        self.env = saved.copy()
        self.env.assume(c)
        inner = []
        self.stack.append(inner)
        try:
            self.block(s.body)
        finally:
            self.stack.pop()
        self.env = saved
        src = None
        import re
        m = re.search(r"is_some\((self\.\w+)\)", c.key())
        if m:
            src = m.group(1)
        if inner:
            self.emit({"k": "optional", "src": src, "cond": c, "items": inner, "line": s.lineno})
        if s.orelse:
            self.obl("unmodelled", False, "if/else in serializer", s)

    def s_For(self, s):
        it = self.expr(s.iter)
        name = s.target.id if isinstance(s.target, ast.Name) else None
        src = getattr(it, "name", None)
        if src is None:
            self.obl("unmodelled", False, "for loop over unknown iterable", s)
            return
        self.vars[name] = sym.sym(src + "[]", None, 0, self.widths.get(("elem", src.split(".")[-1])))
        self.vars[name].__dict__ if False else None
        inner = []
        self.stack.append(inner)
        self.elem_obj = (name, src)
        try:
            self.block(s.body)
        finally:
            self.stack.pop()
            self.elem_obj = None
        cnt = sym.sym(f"len({src})", None, 0, None)
        item = {"k": "array", "src": src, "count": cnt, "line": s.lineno}
        if len(inner) == 1 and inner[0]["k"] == "chunk":
            item["elem"] = inner[0]
        elif len(inner) == 1 and inner[0]["k"] == "nested":
            item["elem"] = {"k": "nested", "type": inner[0].get("type"), "static": inner[0].get("static")}
        else:
            item["elem"] = {"k": "unknown", "n": len(inner)}
        self.emit(item)

    def s_Expr(self, s):
        c = s.value
        if not (isinstance(c, ast.Call) and isinstance(c.func, ast.Attribute) and isinstance(c.func.value, ast.Name)
                and c.func.value.id == "_span"):
            self.obl("unmodelled", False, "expression statement", s)
            return
        meth = c.func.attr
        arg = c.args[0]
        if meth == "append":
            v = self.expr(arg)
            if isinstance(v, FieldRef):
                v = v.e
            if isinstance(v, E):
                self.write(v, 1, None, s)
            else:
                self.obl("unmodelled", False, "_span.append of non-integer", s)
            return
        if meth == "extend":
            # int.to_bytes(v, length=n, byteorder=o)
            if isinstance(arg, ast.Call) and isinstance(arg.func, ast.Attribute) and arg.func.attr == "to_bytes":
                v = self.expr(arg.args[0])
                if isinstance(v, FieldRef):
                    v = v.e
                n = None
                o = None
                for kw in arg.keywords:
                    if kw.arg == "length" and isinstance(kw.value, ast.Constant):
                        n = kw.value.value
                    if kw.arg == "byteorder" and isinstance(kw.value, ast.Constant):
                        o = kw.value.value
                if isinstance(v, E) and n:
                    self.write(v, n, o, s)
                else:
                    self.obl("unmodelled", False, "to_bytes with unknown operands", s)
                return
            # [0] * K
            if isinstance(arg, ast.BinOp) and isinstance(arg.op, ast.Mult) and isinstance(arg.left, ast.List):
                k = self.expr(arg.right)
                val = arg.left.elts[0].value if arg.left.elts and isinstance(arg.left.elts[0], ast.Constant) else None
                if isinstance(k, E):
                    if k.is_const():
                        self.emit({"k": "chunk", "n": k.cval(), "order": None, "bits": [0] * (8 * k.cval()), "fill": True,
                                   "line": s.lineno, "his": {}, "keys": [], "env": self.env})
                    else:
                        self.emit({"k": "fill", "value": val, "count": self.resolve_markers(self.env.poly(k)), "line": s.lineno})
                    return
            # [0x12, 0x34, ..]: literal octets, in wire order
            if isinstance(arg, ast.List) and arg.elts and all(isinstance(x, ast.Constant) and isinstance(x.value, int)
                                                              and 0 <= x.value <= 255 for x in arg.elts):
                bs = [x.value for x in arg.elts]
                self.emit({"k": "chunk", "n": len(bs), "order": "little" if len(bs) > 1 else None,
                           "bits": [(bs[i // 8] >> (i % 8)) & 1 for i in range(8 * len(bs))],
                           "line": s.lineno, "his": {}, "keys": [], "env": self.env})
                return
            # payload or self.payload or []
            if isinstance(arg, ast.BoolOp):
                self.emit({"k": "bytes", "src": "self.payload", "line": s.lineno})
                return
            v = self.expr(arg)
            if isinstance(v, FieldRef):
                v = SeqV("bytes", v.name, None, None)
            if isinstance(v, SeqV):
                if v.kind == "serialize":
                    self.emit({"k": "nested", "src": v.name, "type": v.ty, "line": s.lineno, "static": v.static})
                else:
                    # byte array field
                    el = {"k": "chunk", "n": 1, "order": None, "bits": [("elem", v.name.split(".")[-1], j) for j in range(8)],
                          "his": {}, "keys": [], "env": self.env}
                    self.emit({"k": "array", "src": v.name, "count": sym.sym(f"len({v.name})"), "elem": el, "line": s.lineno})
                return
            self.obl("unmodelled", False, "_span.extend of unknown value", s)
            return
        self.obl("unmodelled", False, f"_span.{meth}", s)

    def resolve_markers(self, p):
        """K - span_len@j + span_len@i  ->  K - bytes(items[i:j])"""
        from . import rslayout
        import re as _re
        plus = minus = None
        rest = {}
        for mono, c in p.items():
            m = _re.fullmatch(r"span_len@(\d+)", mono[0]) if len(mono) == 1 else None
            if m and c == 1:
                plus = int(m.group(1))
            elif m and c == -1:
                minus = int(m.group(1))
            else:
                rest[mono] = c
        if plus is None or minus is None:
            return p
        items = self.stack[-1][plus:minus]
        tot = {}
        for it in items:
            tot = sym.p_add(tot, rslayout.item_bytes(it, self.env))
        return sym.p_add(rest, tot, -1)

    def s_Return(self, s):
        v = s.value
        # return bytes(_span)  |  return Parent.serialize(self, payload = bytes(_span))
        if isinstance(v, ast.Call) and isinstance(v.func, ast.Attribute) and v.func.attr == "serialize" and \
                isinstance(v.func.value, ast.Name):
            self.to_parent = v.func.value.id
        elif isinstance(v, ast.Call) and isinstance(v.func, ast.Name) and v.func.id == "bytes":
            pass
        else:
            self.obl("unmodelled", False, "return value of serialize", s)

    def s_Raise(self, s):
        pass

    def write(self, v, n, order, node):
        class _W:
            pass
        w = _W()
        w.nbytes, w.order, w.e, w.env, w.line, w.api = n, order, v, self.env, getattr(node, "lineno", 0), "to_bytes"
        from . import rslayout
        it = rslayout.write_item(w)
        self.emit(it)

    # -- expressions
    def cond(self, t):
        if isinstance(t, ast.Compare) and len(t.ops) == 1:
            if isinstance(t.ops[0], (ast.IsNot, ast.Is)) and isinstance(t.comparators[0], ast.Constant) and \
                    t.comparators[0].value is None:
                nm = self.path(t.left)
                c = Cond("opaque", f"is_some({nm})")
                return c if isinstance(t.ops[0], ast.IsNot) else c.negate()
            a = self.expr(t.left)
            b = self.expr(t.comparators[0])
            a = a.e if isinstance(a, FieldRef) else a
            b = b.e if isinstance(b, FieldRef) else b
            op = {ast.Lt: "lt", ast.LtE: "le", ast.Gt: "gt", ast.GtE: "ge", ast.Eq: "eq", ast.NotEq: "ne"}.get(type(t.ops[0]))
            if isinstance(a, E) and isinstance(b, E) and op:
                return Cond(op, a, b)
        return Cond("opaque", f"cond@{getattr(t, 'lineno', 0)}:{getattr(t, 'col_offset', 0)}")

    def path(self, n):
        if isinstance(n, ast.Attribute) and isinstance(n.value, ast.Name) and n.value.id == "self":
            return "self." + n.attr
        if isinstance(n, ast.Name):
            return n.id
        return "?"

    def expr(self, n):
        if isinstance(n, ast.Constant) and isinstance(n.value, int):
            return const(n.value)
        if isinstance(n, ast.UnaryOp) and isinstance(n.op, ast.UAdd):
            return self.expr(n.operand)
        if isinstance(n, ast.Name):
            if n.id in self.vars:
                return self.vars[n.id]
            return Opaque(n.id)
        if isinstance(n, ast.Attribute):
            if isinstance(n.value, ast.Name) and n.value.id == "self":
                nm = "self." + n.attr
                hi = self.widths.get(("f", n.attr))
                sv = sym.sym(nm, None, 0, hi)
                return FieldRef(nm, sv)
            if n.attr == "size":
                base = self.expr(n.value)
                nm = getattr(base, "name", None) or (base.key() if isinstance(base, E) else "?")
                return sym.sym(f"encoded_len({nm})", None, 0, None)
            # Enum.TAG
            if isinstance(n.value, ast.Name) and n.value.id in self.pm.classes:
                v = enum_member(self.pm, n.value.id, n.attr)
                if v is not None:
                    return const(v)
            return Opaque("attr")
        if isinstance(n, ast.BinOp):
            a, b = self.expr(n.left), self.expr(n.right)
            a = a.e if isinstance(a, FieldRef) else a
            b = b.e if isinstance(b, FieldRef) else b
            ops = {ast.Add: "add", ast.Sub: "sub", ast.Mult: "mul", ast.RShift: "shr", ast.LShift: "shl", ast.BitAnd: "and",
                   ast.BitOr: "or"}
            op = ops.get(type(n.op))
            if isinstance(a, E) and isinstance(b, E) and op:
                return binop(op, a, b)
            self.obl("unmodelled", False, "binary operation on non-integers", n)
            return Opaque("bin")
        if isinstance(n, ast.IfExp):
            c = self.cond(n.test)
            a, b = self.expr(n.body), self.expr(n.orelse)
            if isinstance(a, E) and isinstance(b, E):
                return sym.ite(c, a, b)
            return Opaque("ifexp")
        if isinstance(n, ast.Call):
            f = n.func
            if isinstance(f, ast.Name) and f.id == "len":
                a = n.args[0]
                if isinstance(a, ast.BoolOp):
                    return sym.sym("len(self.payload)", None, 0, None)
                if isinstance(a, ast.Name) and a.id == "_span":
                    return sym.sym(f"span_len@{len(self.stack[-1])}", None, 0, None)
                v = self.expr(a)
                nm = getattr(v, "name", None)
                if nm:
                    return sym.sym(f"len({nm})", None, 0, None)
                return Opaque("len")
            if isinstance(f, ast.Name) and f.id == "int":
                v = self.expr(n.args[0])
                return v.e if isinstance(v, FieldRef) else v
            if isinstance(f, ast.Name) and f.id == "sum":
                # sum(elt.size for elt in self.x) / sum([..])
                g = n.args[0]
                if isinstance(g, ast.ListComp):
                    g = ast.GeneratorExp(elt=g.elt, generators=g.generators)
                if isinstance(g, ast.GeneratorExp) and len(g.generators) == 1:
                    it = self.expr(g.generators[0].iter)
                    nm = getattr(it, "name", None)
                    if nm:
                        return sym.sym(f"sum_encoded_len({nm})", None, 0, None)
                return Opaque("sum")
            if isinstance(f, ast.Attribute) and f.attr == "serialize":
                base = self.expr(f.value)
                nm = getattr(base, "name", None)
                if self.elem_obj_name(f.value):
                    nm = self.elem_obj[1] + "[]"
                return SeqV("serialize", nm or "?", None, None)
            if isinstance(f, ast.Name) and f.id[:1].isupper():
                return sym.sym("user()", None, 0, None)
            self.obl("unmodelled", False, "call in serializer expression", n)
            return Opaque("call")
        if isinstance(n, ast.Subscript):
            return Opaque("subscript")
        self.obl("unmodelled", False, f"serializer expression {type(n).__name__}", n)
        return Opaque("expr")

    elem_obj = None

    def elem_obj_name(self, node):
        return self.elem_obj is not None and isinstance(node, ast.Name) and node.id == self.elem_obj[0]


class FieldRef:
    """self.x: usable as an integer (e) or as a sequence / object (name)"""

    def __init__(self, name, e):
        self.name, self.e = name, e

    def key(self):
        return self.e.key()


class SeqV:
    def __init__(self, kind, name, ty, static):
        self.kind, self.name, self.ty, self.static = kind, name, ty, static


def enum_member(pm, cls, name):
    c = pm.classes.get(cls)
    if c is None:
        return None
    for b in c.body:
        if isinstance(b, ast.Assign) and isinstance(b.targets[0], ast.Name) and b.targets[0].id == name and \
                isinstance(b.value, ast.Constant):
            return b.value.value
    return None
