import sys, json
from vlib import rsmod
m = rsmod.Module(sys.argv[1])
which = sys.argv[2:] 
m.compute_sizes()
print({k:v['min_size'] for k,v in m.summ.packets.items()}, m.summ.customs)
for ty in m.type_names():
    for fn in ("decode","decode_partial","encode","encode_partial","encoded_len","specialize"):
        if which and fn not in which: continue
        f = m.fn(ty, fn)
        if f is None: continue
        try:
            if fn == "decode": ev = m.eval_decode(ty)
            elif fn == "decode_partial": ev = m.eval_decode_partial(ty)
            elif fn in ("encode","encode_partial"): ev = m.eval_encode(ty, fn)
            else: ev = m.eval_fn(ty, fn, "encode")
        except Exception as e:
            import traceback; traceback.print_exc()
            print("EXC", ty, fn, e); continue
        bad = [o for o in ev.obls if not o.ok]
        print(f"== {ty}::{fn}: {len(ev.obls)} obligations, {len(bad)} failed, {len(ev.events)} events, {len(ev.returns)} returns")
        for o in bad: print("   ", o)
