import sys
from vlib import pyeval
pm = pyeval.PyModule(sys.argv[1])
only = sys.argv[2:] 
pm.compute_min_sizes()
for cls in pm.packet_classes():
    if only and cls not in only: continue
    if pm.method(cls,'parse') is None: continue
    try:
        ev = pyeval.ParseEval(pm, cls).run()
    except Exception as e:
        import traceback; traceback.print_exc(); print("EXC", cls); continue
    bad=[o for o in ev.obls if not o.ok]
    print(f"== {cls}: {len(ev.obls)} obls, {len(bad)} failed, items={[i['k'] for i in ev.items]}")
    for o in bad: print("    ", o)
    if only:
        for it in ev.items:
            print('     ', {k:(v.key() if hasattr(v,'key') else v) for k,v in it.items() if k not in ('uses','sym')})
