"""Index of one generated Rust module (syn JSON): type definitions, impls, enum
conversion tables; drives rseval over decode / encode functions."""
import json
from . import sym
from .sym import const, Cond, E
from . import rseval
from .rseval import (Eval, Summaries, SpanV, ObjV, BufV, IntV, VecV, ResV, TupV, OptV, MatchV, IfV, Opaque,
                     ErrV, UnitV, INT_TYPES)


def camel(s):
    """heck::ToUpperCamelCase as used by the generator for tag names"""
    out = []
    word = ""
    words = []
    prev = ""
    for ch in s:
        if ch == "_":
            if word:
                words.append(word)
            word = ""
        elif ch.isupper() and prev and (prev.islower() or prev.isdigit()) and word:
            words.append(word)
            word = ch
        else:
            word += ch
        prev = ch
    if word:
        words.append(word)
    # split ACRONYMWord boundaries: "HTTPRequest" -> "HTTP","Request" (heck behaviour)
    res = []
    for w in words:
        res.append(w[0].upper() + w[1:].lower())
    return "".join(res)


class EnumInfo:
    def __init__(self, name):
        self.name = name
        self.repr = None
        self.variants = []        # [(name, has_payload)]
        self.from_arms = []       # ordered [(lo, hi, result)] result: ('ok', variant, carries_value) | ('err',)
        self.into_arms = {}       # variant -> int | 'value'
        self.widen = []           # types with From<E>
        self.primitive_repr = None
        self.line = 0
        self.problems = []


class Module:
    def __init__(self, path, name=None):
        with open(path) as f:
            self.j = json.load(f)
        self.name = name or path
        self.error = self.j.get("error")
        self.structs = {}      # name -> {field: type}
        self.struct_order = []
        self.enums = {}        # name -> EnumInfo (PDL enums)
        self.child_enums = {}  # XChild enums -> variants
        self.impls = {}        # (trait or None, self_ty) -> [fn json]
        self.trait_impls = []  # (trait string, self_ty, impl json)
        self.methods = {}      # (self_ty, name) -> fn json
        self.summ = Summaries()
        if self.error:
            return
        self._index()

    def _index(self):
        for it in self.j["items"]:
            k = it["k"]
            if k == "StructDef":
                if it["name"] == "Private":
                    continue
                self.structs[it["name"]] = {f["name"]: f["ty"].replace(" ", "") for f in it["fields"]}
                self.struct_order.append(it["name"])
            elif k == "EnumDef":
                names = [v["name"] for v in it["variants"]]
                if it["name"].endswith("Child") and "None" in names and any(
                        len(v["fields"]) == 1 and not v["fields"][0]["ty"].startswith("Private") for v in it["variants"]):
                    self.child_enums[it["name"]] = it
                else:
                    ei = EnumInfo(it["name"])
                    ei.line = it["l"]
                    ei.variants = [(v["name"], bool(v["fields"])) for v in it["variants"]]
                    for a in it["attrs"]:
                        if a.startswith("repr("):
                            ei.primitive_repr = a[5:-1]
                    ei.discs = {v["name"]: int(v["disc"]["v"]) for v in it["variants"]
                                if v.get("disc") and v["disc"].get("k") == "Lit"}
                    self.enums[it["name"]] = ei
            elif k == "Impl":
                tr = it["trait"]["full"].replace(" ", "") if it["trait"] else None
                st = it["self_ty"].replace(" ", "")
                self.trait_impls.append((tr, st, it))
                for f in it["items"]:
                    if f["k"] == "Fn":
                        self.impls.setdefault((tr, st), []).append(f)
                        if tr is None or tr == "Packet":
                            self.methods[(st, f["name"])] = f
        # enum conversions
        for (tr, st, it) in self.trait_impls:
            if tr and tr.startswith("TryFrom<") and st in self.enums and tr[8:-1] in INT_TYPES:
                self._enum_try_from(self.enums[st], tr[8:-1], it)
            elif tr and tr.startswith("From<&") and st in INT_TYPES and tr[6:-1] in self.enums:
                self._enum_into(self.enums[tr[6:-1]], st, it)
            elif tr and tr.startswith("From<") and st in INT_TYPES and tr[5:-1] in self.enums:
                en = self.enums[tr[5:-1]]
                fn = it["items"][0] if it["items"] else None
                en.widen.append((st, fn))
        # TryFrom<uN> of generated custom-field newtypes: if value > MAX { Err(value) } else { Ok(..) }
        for (tr, st, it) in self.trait_impls:
            if tr and tr.startswith("TryFrom<") and tr[8:-1] in INT_TYPES and st in self.structs and st not in self.enums:
                fn = next((f for f in it["items"] if f["k"] == "Fn" and f["name"] == "try_from"), None)
                mx = None
                if fn and len(fn["body"]) == 1 and fn["body"][0]["k"] == "ExprStmt" and fn["body"][0]["e"]["k"] == "If":
                    c = fn["body"][0]["e"]["cond"]
                    th = fn["body"][0]["e"]["then"]
                    if (c["k"] == "Binary" and c["op"] == ">" and c["lhs"]["k"] == "Path" and c["rhs"]["k"] == "Lit"
                            and len(th) == 1 and th[0]["e"]["k"] == "Call" and th[0]["e"]["func"]["path"]["s"] == "Err"):
                        mx = int(c["rhs"]["v"])
                if mx is not None:
                    self.summ.custom_try[st] = (tr[8:-1], mx)
            elif tr and tr.startswith("From<") and tr[5:-1] in INT_TYPES and st in self.structs and st not in self.enums:
                self.summ.custom_try[st] = (tr[5:-1], sym.TYMAX[tr[5:-1]])
        # summaries for the evaluator
        s = self.summ
        s.structs = self.structs
        s.methods = self.methods
        s.child_enums = self.child_enums
        for name, ei in self.enums.items():
            tags = {}
            mx = 0
            for v, x in ei.into_arms.items():
                if isinstance(x, int):
                    tags[v] = x
                    mx = max(mx, x)
            for lo, hi, res in ei.from_arms:
                if res[0] == "ok":
                    mx = max(mx, hi)
            s.enums[name] = {"repr": ei.repr, "tags": tags, "max": mx}
        for name in self.structs:
            if ("Packet", name) in self.impls:
                s.packets[name] = {"min_size": 0, "static_size": None}

    # ---- enum tables
    def _lit(self, n):
        if n is None:
            return None
        if n["k"] == "Lit" and n.get("ty") == "int":
            return int(n["v"])
        return None

    def _pat_intervals(self, p):
        k = p["k"]
        if k == "PLit":
            v = self._lit(p["lit"])
            return [(v, v)] if v is not None else None
        if k == "PRange":
            lo = self._lit(p.get("lo")) if "lo" in p else 0
            hi = self._lit(p.get("hi")) if "hi" in p else None
            if lo is None or hi is None:
                return None
            if not p.get("closed"):
                hi -= 1
            return [(lo, hi)]
        if k == "POr":
            out = []
            for c in p["cases"]:
                r = self._pat_intervals(c)
                if r is None:
                    return None
                out += r
            return out
        if k == "PWild":
            return [("wild",)]
        if k == "PIdent":
            return [("wild",)]
        return None

    def _enum_try_from(self, ei, repr_ty, impl):
        ei.repr = repr_ty
        fn = next((f for f in impl["items"] if f["k"] == "Fn" and f["name"] == "try_from"), None)
        if fn is None:
            ei.problems.append("no try_from fn")
            return
        body = fn["body"]
        if len(body) != 1 or body[0]["k"] != "ExprStmt" or body[0]["e"]["k"] != "Match":
            ei.problems.append("try_from body is not a single match")
            return
        m = body[0]["e"]
        param = fn["params"][0]["pat"].get("id") if fn["params"] else None
        if m["e"]["k"] != "Path" or m["e"]["path"]["s"] != param:
            ei.problems.append("try_from does not match on its parameter")
        for arm in m["arms"]:
            ivs = self._pat_intervals(arm["pat"])
            if ivs is None or "guard" in arm:
                ei.problems.append(f"unrecognised match arm pattern at line {arm['l']}")
                continue
            res = self._try_from_result(ei, arm["body"], param)
            if res is None:
                ei.problems.append(f"unrecognised match arm body at line {arm['l']}")
                continue
            for iv in ivs:
                if iv == ("wild",):
                    ei.from_arms.append((0, sym.TYMAX[repr_ty], res))
                else:
                    ei.from_arms.append((iv[0], iv[1], res))

    @staticmethod
    def _unblock(b):
        while b["k"] == "Block" and len(b["stmts"]) == 1 and b["stmts"][0]["k"] == "ExprStmt" and not b["stmts"][0].get("semi"):
            b = b["stmts"][0]["e"]
        return b

    def _try_from_result(self, ei, b, param):
        b = self._unblock(b)
        if b["k"] != "Call" or b["func"]["k"] != "Path":
            return None
        f = b["func"]["path"]["s"]
        if f == "Err":
            a = b["args"][0]
            if a["k"] == "Path" and a["path"]["s"] == param:
                return ("err",)
            return None
        if f == "Ok":
            a = b["args"][0]
            if a["k"] == "Path" and a["path"]["s"].startswith(ei.name + "::"):
                return ("ok", a["path"]["s"].split("::", 1)[1], False)
            if a["k"] == "Call" and a["func"]["k"] == "Path" and a["func"]["path"]["s"].startswith(ei.name + "::"):
                inner = a["args"][0]
                # E::V(Private(value))
                if (inner["k"] == "Call" and inner["func"]["k"] == "Path" and inner["func"]["path"]["s"] == "Private"
                        and inner["args"][0]["k"] == "Path" and inner["args"][0]["path"]["s"] == param):
                    return ("ok", a["func"]["path"]["s"].split("::", 1)[1], True)
        return None

    def _enum_into(self, ei, ty, impl):
        fn = next((f for f in impl["items"] if f["k"] == "Fn" and f["name"] == "from"), None)
        if fn is None:
            return
        body = fn["body"]
        if len(body) != 1 or body[0]["k"] != "ExprStmt":
            ei.problems.append("From<&E> body shape")
            return
        e = body[0]["e"]
        if e["k"] == "Match":
            for arm in e["arms"]:
                p = arm["pat"]
                if p["k"] == "PPath":
                    v = p["path"]["s"].split("::", 1)[1]
                    val = self._lit(self._unblock(arm["body"]))
                    if val is None:
                        ei.problems.append(f"into arm for {v} is not a literal")
                    else:
                        ei.into_arms[v] = val
                elif p["k"] == "PTupleStruct":
                    v = p["path"]["s"].split("::", 1)[1]
                    # E::V(Private(value)) => *value
                    inner = p["elems"][0]
                    nm = None
                    if inner["k"] == "PTupleStruct" and inner["path"]["s"] == "Private" and inner["elems"][0]["k"] == "PIdent":
                        nm = inner["elems"][0]["id"]
                    b = self._unblock(arm["body"])
                    if nm and b["k"] == "Unary" and b["op"] == "*" and b["e"]["k"] == "Path" and b["e"]["path"]["s"] == nm:
                        ei.into_arms[v] = "value"
                    else:
                        ei.problems.append(f"into arm for {v}: unrecognised payload extraction")
                else:
                    ei.problems.append("into arm pattern")
        elif e["k"] == "Cast":
            # primitive enum: `*value as u8`
            ei.into_arms["*"] = "as"
        else:
            ei.problems.append("From<&E> body is neither match nor cast")

    # ---- sizes: min_size fixpoint from decode traces
    def detect_customs(self):
        defined = set(self.structs) | set(self.enums) | set(self.child_enums)
        out = {}
        for st, fields in self.structs.items():
            for ty in fields.values():
                base = ty
                while True:
                    if base.startswith("Vec<") or base.startswith("Option<"):
                        base = base[base.index("<") + 1:-1]
                    elif base.startswith("["):
                        base = base[1:-1].rsplit(";", 1)[0]
                    else:
                        break
                if base not in defined and base not in INT_TYPES and base != "bool":
                    # user-supplied type. Contract assumed: its Packet::decode is total and
                    # consumes at least one byte on success.
                    out[base] = {"min_size": 1, "static_size": None, "custom": True}
        self.summ.customs = out
        return out

    def min_consumed(self, ev, events=None):
        tot = 0
        for e in (ev.events if events is None else events):
            k = e.kind
            if k == "read":
                if ev.spans[e.span].suffix_of:
                    tot += e.nbytes
            elif k == "skip":
                if ev.spans[e.span].suffix_of and e.out == e.span:
                    lo = ev.env.interval(e.n)[0]
                    tot += max(0, lo)
            elif k == "split":
                if ev.spans[e.span].suffix_of and e.n.is_const():
                    tot += e.n.cval()
            elif k == "nested":
                if ev.spans[e.span].suffix_of:
                    info = self.summ.packets.get(e.ty) or self.summ.customs.get(e.ty) or {}
                    tot += info.get("min_size", 0)
            elif k == "loop":
                if e.count.is_const():
                    tot += e.count.cval() * self.min_consumed(ev, e.body)
        return tot

    def compute_sizes(self, rounds=4):
        self.detect_customs()
        # static encoded size: encoded_len() evaluates to a constant
        from .rseval import IntV as _IntV, LitV as _LitV
        for _ in range(rounds):
            changed = False
            for ty in self.type_names():
                if self.summ.packets[ty].get("static_size") is not None:
                    continue
                if self.fn(ty, "encoded_len") is None:
                    continue
                try:
                    ev = self.eval_fn(ty, "encoded_len", "size")
                except Exception:
                    continue
                val = ev.returns[-1][0] if ev.returns else None
                c = None
                if isinstance(val, _LitV):
                    c = val.v
                elif isinstance(val, _IntV) and val.e.is_const():
                    c = val.e.cval()
                if c is not None:
                    self.summ.packets[ty]["static_size"] = c
                    changed = True
            if not changed:
                break
        for _ in range(rounds):
            changed = False
            for ty in self.type_names():
                if self.fn(ty, "decode_partial") is not None:
                    continue
                try:
                    ev = self.eval_decode(ty)
                except Exception:
                    continue
                mn = self.min_consumed(ev)
                if mn != self.summ.packets[ty].get("min_size"):
                    self.summ.packets[ty]["min_size"] = mn
                    changed = True
            for ty in self.type_names():
                if self.fn(ty, "decode_partial") is None:
                    continue
                p = self.parent_of(ty)
                mn = self.summ.packets.get(p, {}).get("min_size", 0)
                if mn != self.summ.packets[ty].get("min_size"):
                    self.summ.packets[ty]["min_size"] = mn
                    changed = True
            if not changed:
                break

    def type_names(self):
        return [n for n in self.struct_order if ("Packet", n) in self.impls]

    def fn(self, ty, name):
        return self.methods.get((ty, name))

    def parent_of(self, ty):
        """child packets have `impl TryFrom<&Parent> for Child`... use decode_partial's param type"""
        f = self.fn(ty, "decode_partial")
        if f is None:
            return None
        pty = f["params"][0]["ty"].replace(" ", "").lstrip("&")
        return pty

    # ---- drivers
    def new_eval(self, ty, fn_name, mode):
        return Eval(self.summ, fn_name, ty, mode)

    def eval_decode(self, ty):
        """Evaluate T::decode.  Returns Eval (events, obligations, returns)."""
        f = self.fn(ty, "decode")
        ev = self.new_eval(ty, "decode", "decode")
        pname = f["params"][0]["pat"].get("id", "buf")
        buf = ev.new_span(None, "input", "input")
        ev.input_sid = buf.sid
        ev.run_fn(f, {pname: buf})
        return ev

    def eval_decode_partial(self, ty):
        f = self.fn(ty, "decode_partial")
        ev = self.new_eval(ty, "decode_partial", "decode")
        pname = f["params"][0]["pat"].get("id", "parent")
        pty = self.parent_of(ty)
        parent = ObjV(pty, name="parent")
        # parent.payload is a Vec<u8> whose bytes become the span
        ev.run_fn_partial = True
        ev.run_fn(f, {pname: parent})
        return ev

    def eval_encode(self, ty, fn_name="encode"):
        f = self.fn(ty, fn_name)
        ev = self.new_eval(ty, fn_name, "encode")
        me = ObjV(ty, name="self")
        ev.run_fn(f, {"self": me, f["params"][1]["pat"].get("id", "buf"): BufV()})
        return ev

    def eval_fn(self, ty, fn_name, mode="decode", args=None):
        f = self.fn(ty, fn_name)
        ev = self.new_eval(ty, fn_name, mode)
        a = {"self": ObjV(ty, name="self")}
        if args:
            a.update(args)
        ev.run_fn(f, a)
        return ev
