"""C01 — generated Rust parsers are total and memory-safe on arbitrary bytes.

Decided by abstract interpretation (rseval) of every emitted decode / decode_partial /
specialize / parent->child conversion, for all byte strings at once."""
from . import rustcommon as rc
from ..rseval import ResV, TupV, SpanV, ObjV, MatchV, Opaque

LEVEL = "other"

DECODE_FNS = ("decode", "decode_partial", "specialize")


def key_for(o, fn, r, ty):
    facts = rc.ident_facts(r, ty, getattr(o, "idents", []))
    parts = ["C01", "rust", fn, o.kind, o.role or "-"]
    if o.kind in ("bounds", "panic"):
        parts.append("ctx=" + (o.ctx or "-"))
        parts.append("stmt=" + (o.stmt or "-"))
    if o.kind in ("overflow", "alloc") and facts:
        parts.append("fields=" + ",".join(facts))
    if o.kind in ("alloc", "divzero") and ("div(" in o.what and ",0)" in o.what or " div 0" in o.what or " rem 0" in o.what):
        parts.append("zero-sized-element")
    if o.kind == "divzero":
        parts.append("divisor=" + ",".join(sorted({f.split(":")[0] for f in facts})))
    if o.kind == "unmodelled":
        parts.append(o.what.split(" on ")[0][:60])
    return "|".join(parts)


def run(rep, tier, seed):
    g = rc.gen(tier, seed)
    n_fn = 0
    n_obl = 0
    n_ok = 0
    kinds = {}
    samples = []
    subjects = rc.rust_subjects(g)
    for name, m in subjects:
        r = rc.model_ref(g, name)
        for ty in m.type_names():
            for fn in DECODE_FNS:
                f = m.fn(ty, fn)
                if f is None:
                    continue
                n_fn += 1
                try:
                    if fn == "decode":
                        ev = m.eval_decode(ty)
                    elif fn == "decode_partial":
                        ev = m.eval_decode_partial(ty)
                    else:
                        ev = m.eval_fn(ty, fn, "decode")
                except RecursionError:
                    rep.add(f"C01|rust|{fn}|evaluator-recursion", "evaluator recursion limit", f"{name}:{ty}::{fn}")
                    continue
                for o in ev.obls:
                    n_obl += 1
                    kinds[o.kind] = kinds.get(o.kind, 0) + 1
                    if o.ok:
                        n_ok += 1
                    else:
                        rep.add(key_for(o, fn, r, ty), o.what, f"{name}.rs:{o.line} {ty}::{fn}",
                                {"description": name, "type": ty, "fn": fn, "line": o.line, "ctx": o.ctx,
                                 "stmt": o.stmt})
                # remainder typestate: on success the returned slice is a suffix of the input
                if fn == "decode":
                    for val, env in ev.returns:
                        if isinstance(val, ResV) and isinstance(val.ok, TupV) and len(val.ok.items) == 2:
                            sp = val.ok.items[1]
                            n_obl += 1
                            kinds["suffix"] = kinds.get("suffix", 0) + 1
                            if isinstance(sp, SpanV) and ev.spans[sp.sid].suffix_of == "input":
                                n_ok += 1
                            else:
                                rep.add("C01|rust|decode|suffix", "returned remainder is not a suffix of the input",
                                        f"{name}:{ty}::decode")
                        elif isinstance(val, ResV) and val.ok is None:
                            pass
                        elif isinstance(val, ResV) and val.ok is not None and not isinstance(val.ok, TupV):
                            rep.add("C01|rust|decode|return-shape", "decode returns an unrecognised value",
                                    f"{name}:{ty}::decode")
                if len(samples) < 6 and ev.obls:
                    samples.append({"description": name, "fn": f"{ty}::{fn}",
                                    "obligations": [f"{o.kind}: {o.what} -> {'discharged' if o.ok else 'FAILED'}"
                                                    for o in ev.obls[:4]]})
            # the generated impl must not override the provided decode_mut / decode_full
            for meth in ("decode_mut", "decode_full"):
                if any(f["name"] == meth for f in m.impls.get(("Packet", ty), [])):
                    rep.add(f"C01|rust|impl-overrides-{meth}", f"generated impl Packet for {ty} overrides {meth}",
                            f"{name}:{ty}")
    rep.coverage.update({
        "explanation": "Every generated Rust decode/decode_partial/specialize body of every corpus description was "
                       "abstractly interpreted for all inputs: each read/advance/split/slice needs a proved length "
                       "bound, every + - * << must stay in its type, divisors and chunk sizes must be >= 1, "
                       "with_capacity must be bounded by the remaining input, while-loops must consume >= 1 byte, "
                       "unwrap() must be unreachable, the returned remainder must be a suffix of the input.",
        "descriptions": len(subjects),
        "functions": n_fn,
        "obligations": n_obl,
        "discharged": n_ok,
        "obligation_kinds": kinds,
        "samples": samples,
        "rule": "obligation = trap-capable operation in emitted decode code; discharged = proved from dominating guards",
        "evaluations": n_fn,
        "distinct_nontrivial": n_obl,
    })
    rep.assumptions += [
        "bytes::Buf / core slice contracts as frozen in vlib/rseval.py (get_*, advance, split_at, chunks, indexing)",
        "64-bit target (usize = u64)",
        "user-supplied custom-field types implement Packet::decode totally and consume >= 1 byte on success",
        "stack depth of recursive structures is not decided",
    ]
    if n_fn < 50:
        rep.add("C01|coverage-floor", f"only {n_fn} decode functions analysed (floor 50)", "corpus")
