"""C13 — Python backend: conformance, round trip, and only DecodeError on bad input.

Front-end: Python's own `ast` on the emitted module; never executed.
(a) only DecodeError: every generated parse is evaluated symbolically for all inputs
    (pyeval): each span[k] needs a proved length (IndexError), each constant-bound slice
    feeding int.from_bytes / parse_all / `span = span[n:]` needs the bytes (no silent short
    read), `size -= modifier` needs size >= modifier, every raise builds a DecodeError
    subclass, fields[k] is written before it is read, T(**fields) only receives dataclass
    fields, while-loops make progress;
(b) conformance: parser layout and serializer layout == reference layout (same comparison
    as C04 / C03), both byte orders; child parsers check every constraint on their
    inheritance path, __post_init__ pins every constrained field, parents try exactly the
    reference children;
(c) size: for roots the `size` property equals the symbolic byte count of serialize()."""
import ast
import re

from . import rustcommon as rc
from .c04 import DCmp
from .c03 import Cmp
from .. import pyeval, sym, rslayout, ref as refm

LEVEL = "translation_validation"


def py_subjects(g):
    out = []
    groups = {e["name"]: e["group"] for e in g.index}
    for name in g.names():
        if g.status.get(name, {}).get("python") != "ok" or groups.get(name) == "borderline":
            continue
        try:
            pm = pyeval.PyModule(g.path(name, "py"), name)
            pm.compute_min_sizes()
        except SyntaxError:
            continue
        out.append((name, pm))
    return out


def adapt_ref_for_python(items, r):
    out = []
    for it in items:
        if it["k"] == "typedef" and it["tk"] in ("custom", "checksum"):
            out.append({"k": "typedef", "tk": "struct", "type": it["type"], "name": it["name"], "static": it.get("w")})
        elif it["k"] == "checksum_start":
            continue
        else:
            out.append(it)
    return out


def key_for(o, what="parse"):
    role = o.role or "-"
    return f"C13|python|{what}|{o.kind}|{role}"


def reference_children(r, ty):
    """children a parent's parse must try: direct children, aliases (payload-only) replaced by theirs"""
    out = []
    for c in r.children(ty):
        fs = r.decls[c].fields
        is_alias = all(f.kind in ("payload", "body") for f in fs)
        if is_alias:
            out += reference_children(r, c)
        else:
            out.append(c)
    return out


def widths_for(r, ty):
    """max values of fields the Python serializer does not range-check (enum typed, optional, array elements):
    C13 quantifies over in-range values"""
    w = {}
    for n_ in [ty] + r.parent_chain(ty):
        for f in r.inlined(n_):
            if f.kind == "typedef" and f.type in r.enums:
                w[("f", f.name)] = (1 << r.enums[f.type].width) - 1
            if f.kind == "scalar" and f.cond is not None:
                w[("f", f.name)] = (1 << f.width) - 1
            if f.kind == "array":
                if f.width is not None:
                    w[("elem", f.name)] = (1 << f.width) - 1
                elif f.type in r.enums:
                    w[("elem", f.name)] = (1 << r.enums[f.type].width) - 1
    return w


def full_py_items(pm, r, ty, cache):
    """flat serializer items of a complete encoding of `ty`: own items placed in the parent's payload slot"""
    if ty in cache:
        return cache[ty]
    ev = pyeval.SerEval(pm, ty, widths_for(r, ty)).run()
    own = ev.items
    cache[(ty, "ev")] = ev
    res = own
    cache[ty] = res
    return res


def check_class(rep, name, pm, r, ty, stats, samples):
    where = f"{name}:{ty}"
    # ---- (a) parse totality
    ev = pyeval.ParseEval(pm, ty).run()
    for o in ev.obls:
        stats["obligations"] += 1
        if o.ok:
            stats["discharged"] += 1
        else:
            rep.add(key_for(o), o.what, f"{name}.py:{o.line} {ty}.parse")
    # ---- (b) parser layout
    try:
        want = adapt_ref_for_python(r.layout(ty), r)
    except refm.RefError as e:
        rep.notes.append(f"{where}: reference cannot lay out: {e}")
        return
    if ev.always_fails is not None and ev.always_fails[0] == "LengthError":
        cause, why = "other", "a length guard that can never be satisfied precedes the remaining fields"
        for i, w in enumerate(want):
            later = want[i + 1:]
            if w["k"] == "payload" and w["shape"].get("k") == "rest" and any(x["k"] == "array" and x.get("pad") for x in later):
                cause, why = ("payload-tail|padded-array", "the octets reserved after the open-ended payload count a padded "
                              "array at its unpadded size, so the padded region never fits")
            elif w["k"] == "array" and w["shape"].get("k") == "rest" and not w.get("pad") and later:
                cause, why = "after-open-array", "fields after an open-ended array"
        rep.add(f"C13|python|parse|always-rejects|{cause}", f"{ty}.parse raises LengthError for every input ({why})", where)
    else:
        c = DCmp(rep, where, r, ty, ev, prop="C13")
        c.side = "py"
        c.run(want)
        stats["items"] += c.n
    # constraints on the path
    if r.decls[ty].parent:
        allc = {}
        for n_ in reversed([ty] + r.parent_chain(ty)):
            allc.update(r.decls[n_].constraints)
        found = {}
        for cls, cnd, node in ev.checks:
            if cls == "ConstraintValueError" and cnd is not None and cnd.op == "ne":
                a, b = cnd.args
                k = a.key() if isinstance(a, sym.E) else str(a)
                m = re.match(r"fields\.(\w+)$", k)
                if m:
                    found[m.group(1)] = b
        def cval(f_, v):
            if isinstance(v, int):
                return v
            for n_ in [ty] + r.parent_chain(ty):
                for fld in r.inlined(n_):
                    if fld.name == f_ and fld.kind == "typedef" and fld.type in r.enums:
                        try:
                            return r.tag_value(fld.type, v)
                        except Exception:
                            return None
            return None
        for f_, v in allc.items():
            stats["constraints"] += 1
            if f_ in found and not isinstance(v, int):
                ev_ = cval(f_, v)
                if ev_ is not None and isinstance(found[f_], sym.E) and found[f_].is_const() and found[f_].cval() != ev_:
                    rep.add("C13|python|parse|constraint-value", f"{ty}.parse checks {f_} against {found[f_].cval()} instead of "
                            f"{v} ({ev_})", where)
            if f_ not in found:
                rep.add("C13|python|parse|constraint-not-checked", f"{ty}.parse does not check the inherited constraint {f_} = {v}",
                        where)
            elif isinstance(v, int) and isinstance(found[f_], sym.E) and found[f_].is_const() and found[f_].cval() != v:
                rep.add("C13|python|parse|constraint-value", f"{ty}.parse checks {f_} against {found[f_].cval()} instead of {v}", where)
        # __post_init__ pins every constrained field
        pi = pm.method(ty, "__post_init__")
        assigned = {}
        if pi is not None:
            for s in pi.body:
                if isinstance(s, ast.Assign) and isinstance(s.targets[0], ast.Attribute):
                    val = s.value
                    if isinstance(val, ast.Constant):
                        assigned[s.targets[0].attr] = val.value
                    elif isinstance(val, ast.Attribute):
                        assigned[s.targets[0].attr] = val.attr
        for f_, v in allc.items():
            stats["constraints"] += 1
            if f_ not in assigned:
                rep.add("C13|python|post_init|constraint-not-pinned", f"{ty}.__post_init__ does not set the constrained field "
                        f"{f_} = {v}: serialize() of a {ty} built without it does not carry the constraint value", where)
            elif assigned[f_] != v:
                rep.add("C13|python|post_init|constraint-value", f"{ty}.__post_init__ sets {f_} = {assigned[f_]} instead of {v}", where)
    # children tried
    want_kids = reference_children(r, ty)
    if r.has_payload(ty) or want_kids:
        stats["constraints"] += 1
        if sorted(ev.children_tried) != sorted(want_kids):
            rep.add("C13|python|parse|children", f"{ty}.parse tries children {sorted(ev.children_tried)}, the reference has "
                    f"{sorted(want_kids)}", where)
    # ---- serializer layout (own part) and size
    if pm.method(ty, "serialize") is not None:
        sev = pyeval.SerEval(pm, ty, widths_for(r, ty)).run()
        for o in sev.obls:
            stats["obligations"] += 1
            if o.ok:
                stats["discharged"] += 1
            else:
                rep.add(key_for(o, "serialize"), o.what, f"{name}.py:{o.line} {ty}.serialize")
        try:
            own = adapt_ref_for_python(r.layout(ty), r)
        except refm.RefError:
            own = None
        if own is not None:
            cm = Cmp(rep, "C13", where, r, r.big, ty, side="ser")
            cm.len_semantics = True
            for it in sev.items:
                if it["k"] == "nested" and it.get("static") is None:
                    it["static"] = None
            cm.run(own, sev.items, sev.env)
            stats["items"] += cm.n
        # a derived class must hand its bytes to the parent's serialize as the payload
        parent = r.decls[ty].parent
        if parent and sev.to_parent != parent:
            rep.add("C13|python|serialize|child-shape", f"{ty}.serialize does not end in {parent}.serialize(self, payload=...)", where)
        # (c) size property for roots
        if not parent:
            szfn = pm.method(ty, "size")
            if szfn is not None and len(szfn.body) == 1 and isinstance(szfn.body[0], ast.Return):
                se = pyeval.SerEval(pm, ty, widths_for(r, ty))
                v = se.expr(szfn.body[0].value)
                v = v.e if isinstance(v, pyeval.FieldRef) else v
                stats["sizes"] += 1
                if isinstance(v, sym.E):
                    want_p = {}
                    for it in sev.items:
                        want_p = sym.p_add(want_p, rslayout.item_bytes(fix_item(it, pm), sev.env))
                    got_p = se.env.poly(v)
                    got_p = normalise_size_poly(got_p)
                    want_p = normalise_size_poly(want_p)
                    # statically counted arrays: len(self.x) == count for every well-formed value
                    subst = {}
                    poly_subst = {}
                    for it_ in r.layout(ty):
                        if it_["k"] == "array" and it_["shape"]["k"] == "static":
                            subst[f"len(self.{it_['name']})"] = it_["shape"]["n"]
                        if it_["k"] == "array" and it_.get("elem_bytes") is not None and it_["elem"]["k"] in ("struct", "custom"):
                            # statically sized elements: sum of sizes == count * size
                            poly_subst[f"sum_encoded_len(self.{it_['name']})"] = (f"len(self.{it_['name']})", it_["elem_bytes"])
                        if it_["k"] == "typedef":
                            st = it_.get("static") if it_["tk"] == "struct" else it_.get("w")
                            if st is not None:
                                subst[f"encoded_len(self.{it_['name']})"] = st // 8
                    def pre(p):
                        out = {}
                        for mono, c in p.items():
                            k = 1
                            rest = []
                            for a in mono:
                                if a in poly_subst:
                                    rest.append(poly_subst[a][0])
                                    k *= poly_subst[a][1]
                                else:
                                    rest.append(a)
                            key = tuple(sorted(rest))
                            out[key] = out.get(key, 0) + c * k
                        return out
                    got_p, want_p = pre(got_p), pre(want_p)
                    def sub(p):
                        out = {}
                        for mono, c in p.items():
                            k = 1
                            rest = []
                            for a in mono:
                                if a in subst:
                                    k *= subst[a]
                                else:
                                    rest.append(a)
                            key = tuple(rest)
                            out[key] = out.get(key, 0) + c * k
                        return {kk: vv for kk, vv in out.items() if vv != 0}
                    got_p, want_p = sub(got_p), sub(want_p)
                    if got_p != want_p:
                        rep.add("C13|python|size", f"{ty}.size = {sym.p_str(got_p)} but serialize() writes {sym.p_str(want_p)}", where)
                else:
                    rep.add("C13|python|size|unmodelled", f"{ty}.size expression not understood", where)
    if len(samples) < 3:
        samples.append({"description": name, "class": ty, "parse_items": [i["k"] for i in ev.items][:8],
                        "obligations": [f"{o.kind}: {o.what[:80]}" for o in ev.obls[:3]]})
    stats["classes"] += 1


def fix_item(it, pm):
    return it


def normalise_size_poly(p):
    """the serializer counts struct fields as encoded_len(self.s) / size atoms; optional as ite(...)"""
    out = {}
    for mono, c in p.items():
        m2 = []
        for a in mono:
            a = re.sub(r"^ite\(not\(opaque\((is_some\([^)]*\))\)\),0,(.*)\)$", r"ite(opaque(\1),\2,0)", a)
            m2.append(a)
        out[tuple(sorted(m2))] = out.get(tuple(sorted(m2)), 0) + c
    return {k: v for k, v in out.items() if v != 0}


def check_raises(rep, name, pm, stats):
    """every raise inside parse / parse_all / from_int builds a DecodeError subclass"""
    for cname, c in pm.classes.items():
        for b in c.body:
            if isinstance(b, ast.FunctionDef) and b.name in ("parse", "parse_all", "from_int"):
                for n in ast.walk(b):
                    if isinstance(n, ast.Raise) and n.exc is not None:
                        stats["obligations"] += 1
                        cls = None
                        if isinstance(n.exc, ast.Call) and isinstance(n.exc.func, ast.Name):
                            cls = n.exc.func.id
                        if cls is not None and pm.is_decode_error(cls):
                            stats["discharged"] += 1
                        elif b.name != "parse":      # parse bodies are covered (with context) by the evaluator
                            rep.add(f"C13|python|{b.name}|raise|raise-{cls}", f"{cname}.{b.name} raises {cls}, not a DecodeError",
                                    f"{name}.py:{n.lineno}")


def run(rep, tier, seed):
    g = rc.gen(tier, seed)
    stats = {"classes": 0, "obligations": 0, "discharged": 0, "items": 0, "constraints": 0, "sizes": 0}
    samples = []
    subs = py_subjects(g)
    for name, pm in subs:
        r = rc.model_ref(g, name)
        if r is None:
            continue
        check_raises(rep, name, pm, stats)
        for ty in pm.packet_classes():
            if ty not in r.decls or r.decls[ty].kind not in ("packet", "struct"):
                continue
            if any(f.kind == "checksum_start" for f in r.decls[ty].fields):
                # checksum-covered declarations: layout comparison not modelled; totality is still decided
                stats["skipped_checksum"] = stats.get("skipped_checksum", 0) + 1
                ev = pyeval.ParseEval(pm, ty).run()
                for o in ev.obls:
                    stats["obligations"] += 1
                    if o.ok:
                        stats["discharged"] += 1
                    else:
                        rep.add(key_for(o), o.what, f"{name}.py:{o.line} {ty}.parse")
                continue
            if pm.method(ty, "parse") is None:
                continue
            try:
                check_class(rep, name, pm, r, ty, stats, samples)
            except RecursionError:
                rep.add("C13|python|evaluator-recursion", "evaluator recursion", f"{name}:{ty}")
    rep.coverage.update({
        "programs": stats["classes"], "disagreements_checked": stats["items"] + stats["constraints"] + stats["sizes"],
        "modules": len(subs), "obligations": stats["obligations"], "discharged": stats["discharged"],
        "samples": samples,
        "explanation": "every generated Python parse evaluated symbolically for all inputs (IndexError / short slices / "
                       "negative sizes / raise discipline / KeyError / kwargs / progress); parser and serializer layouts "
                       "compared with the reference; constraint checks, __post_init__, tried children, size property",
    })
    rep.assumptions += ["C13 quantifies over in-range values: enum-typed, optional and array element values are assumed to fit "
                        "their declared width on serialize (int.to_bytes raises OverflowError otherwise)",
                        "user-supplied custom field classes implement parse/parse_all totally and raise only DecodeError"]
    if stats["classes"] < 250:
        rep.add("C13|coverage-floor", f"only {stats['classes']} classes analysed (floor 250)", "corpus")
