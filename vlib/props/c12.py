"""C12 — parser fidelity: structural clauses.

(a) grammar agreement: the pest grammar in /repo's parser.rs, normalised (helper rules
    inlined, sequences/choices flattened), equals the production set confirmed against
    doc/reference.md (spec/grammar.json);
(b) converter agreement: every literal prefix the grammar accepts for a hex integer is
    stripped by the integer converter, radix 16 under the prefix and 10 otherwise;
(c) nothing dropped: every alternative of `declaration` / `field_desc` / `enum_tag` has a
    converter arm that builds an AST node;
(d) comments: Pair::into_inner is reachable only through Helpers::children, which filters
    COMMENT pairs;
(e) truthful ranges: every AST node built in parser.rs takes `loc` from as_loc of the pair
    being converted; as_loc uses the pair's own start/end; line starts come from the same
    function the diagnostics renderer uses."""
import json
import os
import re

from .. import core, stages, pestq, synq, mirfacts as mf

LEVEL = "other"
PARSER = "pdl-compiler/src/parser.rs"


def is_result_literal(f, lit):
    """lit is the struct literal in the function's tail expression (possibly inside Ok(..))"""
    body = f.get("body") or []
    stmts = body if isinstance(body, list) else (body.get("stmts") or [])
    if not stmts:
        return False
    tail = stmts[-1]
    found = synq.find_all(tail, lambda x: x is lit)
    if not found:
        return False
    # outermost ast:: literal of the tail
    outer = synq.find_all(tail, lambda x: x.get("k") == "Struct" and x["path"]["s"].startswith("ast::"))
    return bool(outer) and outer[0] is lit


def run(rep, tier, seed):
    n = {"rules": 0}
    samples = []
    g = pestq.load_grammar()
    if "error" in g:
        rep.add("C12|anchor-missing|grammar", f"cannot read the grammar: {g['error'][:200]}", PARSER)
        finish(rep, n, samples)
        return
    rules = g["rules"]
    spec = json.load(open(os.path.join(core.VERIF, "spec", "grammar.json")))
    prods = set(spec["productions"])
    cur = pestq.normalise(rules, prods)
    # (a) production by production
    for name in spec["productions"]:
        n["rules"] += 1
        if name not in cur:
            rep.add(f"C12|grammar|production-missing|{name}", f"production {name} is no longer defined by the grammar", PARSER)
            continue
        want = spec["rules"][name]
        got = cur[name]
        if got["expr"] != want["expr"]:
            rep.add(f"C12|grammar|production-changed|{name}", f"production {name} changed: now {json.dumps(got['expr'])[:300]}, "
                    f"confirmed {json.dumps(want['expr'])[:300]}", PARSER, {"now": got["expr"], "confirmed": want["expr"]})
        if got["atomic"] != want["atomic"]:
            rep.add(f"C12|grammar|atomicity-changed|{name}", f"production {name}: atomic={got['atomic']} (confirmed "
                    f"{want['atomic']}): implicit whitespace/comment handling differs", PARSER)
    for r in rules:
        if r["name"] not in prods and r["ty"] != "Silent":
            n["rules"] += 1
            rep.add(f"C12|grammar|new-production|{r['name']}", f"new non-silent rule {r['name']} changes the parse tree the "
                    f"converter walks", PARSER)
    samples.append({"rule": "grammar agreement", "productions": len(prods)})

    tree = stages.repo_syn(PARSER)
    if tree is None:
        rep.add("C12|anchor-missing|parser.rs", "parser.rs could not be parsed", PARSER)
        finish(rep, n, samples)
        return
    fns = synq.functions(tree)

    # (b) converter agreement
    as_usize = next((f for k, f in fns.items() if k.endswith("::as_usize")), None)
    if as_usize is None:
        rep.add("C12|anchor-missing|as_usize", "Helpers::as_usize not found", PARSER)
    else:
        hex_prefixes = pestq.literals(rules, "hexvalue")
        from . import c12_consume
        # as_usize interpreted on every class of token text the grammar accepts for an integer (one per hex prefix,
        # one for "no prefix"): which text reaches from_str_radix, with which radix
        probs = c12_consume.analyse_converter(tree, hex_prefixes)
        stripped = hex_prefixes
        for cls, what in probs or []:
            n["rules"] += 1
            kind = "hex-prefix-not-stripped" if "not stripped" in what else ("unmodelled" if what.startswith("unmodelled") else "radix")
            rep.add(f"C12|converter|{kind}", f"Helpers::as_usize on a token {'starting with ' + repr(cls) if cls else 'without prefix'}: "
                    f"{what}", PARSER + ":as_usize", {"prefix": cls})
        n["rules"] += len(hex_prefixes) + 1
        samples.append({"rule": "converter agreement", "grammar_prefixes": hex_prefixes, "stripped": sorted(set(stripped))})

    # (c) nothing dropped
    def rule_arms(fn):
        arms = {}
        for m in synq.match_arms(fn):
            for a in m["arms"]:
                for p in synq.pat_paths(a["pat"]):
                    if p.startswith("Rule::"):
                        arms.setdefault(p[6:], []).append(a)
        return arms

    top = fns.get("parse_toplevel")
    if top is None:
        rep.add("C12|anchor-missing|parse_toplevel", "parse_toplevel not found", PARSER)
    else:
        arms = rule_arms(top)
        for alt in pestq.alternatives(rules, "declaration"):
            n["rules"] += 1
            if alt not in arms:
                rep.add(f"C12|nothing-dropped|declaration|{alt}|no-arm", f"parse_toplevel has no arm for Rule::{alt}", PARSER)
                continue
            builds = any(any(mc["method"] == "push" for mc in synq.method_calls(a["body"])) and
                         any(p.startswith("ast::Decl") for p in synq.paths_in(a["body"])) for a in arms[alt])
            if not builds:
                rep.add(f"C12|nothing-dropped|declaration|{alt}", f"Rule::{alt} is parsed and dropped: its arm builds no "
                        f"declaration", PARSER + ":parse_toplevel")
        samples.append({"rule": "nothing dropped", "declaration_alternatives": pestq.alternatives(rules, "declaration")})
    pf = fns.get("parse_field")
    if pf is None:
        rep.add("C12|anchor-missing|parse_field", "parse_field not found", PARSER)
    else:
        arms = rule_arms(pf)
        for alt in pestq.alternatives(rules, "field_desc"):
            n["rules"] += 1
            if alt not in arms:
                rep.add(f"C12|nothing-dropped|field|{alt}|no-arm", f"parse_field has no arm for Rule::{alt}", PARSER)
                continue
            builds = any(any(p.startswith("ast::FieldDesc::") for p in synq.paths_in(a["body"])) for a in arms[alt])
            if not builds:
                rep.add(f"C12|nothing-dropped|field|{alt}", f"Rule::{alt}: arm builds no FieldDesc", PARSER + ":parse_field")
    pt = fns.get("parse_enum_tag")
    if pt is None:
        rep.add("C12|anchor-missing|parse_enum_tag", "parse_enum_tag not found", PARSER)
    else:
        mentioned = {p[6:] for p in synq.paths_in(pt) if p.startswith("Rule::")}
        built = {p for p in synq.paths_in(pt) if p.startswith("ast::Tag::")}
        for alt in pestq.alternatives(rules, "enum_tag") or [a for a in ("enum_range", "enum_value", "enum_other")]:
            n["rules"] += 1
            if alt not in mentioned:
                rep.add(f"C12|nothing-dropped|enum_tag|{alt}", f"parse_enum_tag never tests Rule::{alt}", PARSER)
        n["rules"] += 1
        if len(built) < 3:
            rep.add("C12|nothing-dropped|enum_tag|variants", f"parse_enum_tag builds only {sorted(built)}", PARSER)

    # (d) into_inner only through children(), which filters COMMENT
    comp = stages.mir_bodies("compiler")
    into_inner_sites = []
    for b in comp:
        for bi, t in mf.calls(b):
            if re.search(r"iterators::Pair::<.*>::into_inner$", t.callee):
                into_inner_sites.append(b.name)
    for s in into_inner_sites:
        n["rules"] += 1
        if not re.search(r"parser::<impl at .*>::children$", s):
            rep.add("C12|comments|into_inner-outside-children", f"Pair::into_inner is called in {s}: comment pairs are not "
                    f"filtered there", PARSER + ":" + s.split("::")[-1])
    n["rules"] += 1
    if not any(re.search(r"::children$", s) for s in into_inner_sites):
        rep.add("C12|anchor-missing|children", "Helpers::children no longer calls Pair::into_inner", PARSER)
    ch = next((f for k, f in fns.items() if k.endswith("::children")), None)
    if ch is not None:
        n["rules"] += 1
        filt = synq.method_calls(ch, "filter")
        okf = False
        for f in filt:
            for b in synq.find_all(f, lambda x: x.get("k") == "Binary" and x.get("op") == "!="):
                if "Rule::COMMENT" in synq.paths_in(b):
                    okf = True
        if not okf:
            rep.add("C12|comments|children-no-filter", "Helpers::children does not filter Rule::COMMENT pairs", PARSER)
    samples.append({"rule": "into_inner who-may-call", "sites": into_inner_sites})

    # (e) loc provenance
    n_loc = 0
    for name, f in fns.items():
        if not name.startswith("parse_"):
            continue
        lits = synq.find_all(f, lambda x: x.get("k") == "Struct" and x["path"]["s"].startswith("ast::")
                             and any(fl["name"] == "loc" for fl in x["fields"]))
        if not lits:
            continue
        # `let loc = X.as_loc(context)` bindings in this fn
        loc_recv = []
        for l in synq.find_all(f, lambda x: x.get("k") == "Let" and x["pat"].get("k") == "PIdent" and x["pat"]["id"] == "loc"):
            init = l.get("init", {})
            if init.get("k") == "MethodCall" and init["method"] == "as_loc" and init["recv"].get("k") == "Path":
                loc_recv.append(init["recv"]["path"]["s"])
            else:
                rep.add("C12|loc|not-from-as_loc", f"{name}: `loc` is not computed by as_loc of a pair", PARSER + ":" + name)
        child_recv = [mc["recv"]["path"]["s"] for mc in synq.method_calls(f, "children") if mc["recv"].get("k") == "Path"]
        for lit in lits:
            n_loc += 1
            n["rules"] += 1
            fl = next(x for x in lit["fields"] if x["name"] == "loc")
            e = fl["e"]
            if e.get("k") == "Path" and e["path"]["s"] == "loc":
                if not loc_recv:
                    rep.add("C12|loc|unbound", f"{name}: loc used but not bound from as_loc", PARSER + ":" + name)
                elif child_recv and not any(r in child_recv for r in loc_recv):
                    rep.add("C12|loc|different-node", f"{name}: loc is taken from {loc_recv} but the children of {child_recv} "
                            f"are converted", PARSER + ":" + name)
                else:
                    # the pair handed to the function covers everything the function converts (sub-pairs are obtained from
                    # it): when the function has such a parameter, the node it returns must take its range from that pair
                    params = [p_["pat"].get("id") for p_ in f.get("params", []) if "Node" in str(p_.get("ty", ""))
                              and p_.get("pat", {}).get("k") == "PIdent"]
                    if params and is_result_literal(f, lit):
                        n["result_loc"] = n.get("result_loc", 0) + 1
                    if params and is_result_literal(f, lit) and not any(r in params for r in loc_recv):
                        rep.add("C12|loc|sub-node", f"{name}: the returned node takes its range from {loc_recv}, a sub-pair of "
                                f"`{params[0]}`: parts converted from its siblings (e.g. a field's condition) fall outside the "
                                f"range", PARSER + ":" + name)
            elif e.get("k") == "MethodCall" and e["method"] == "as_loc":
                pass
            elif e.get("k") == "Struct" and e["path"]["s"].endswith("SourceRange"):
                pass    # comments: explicit start/end positions (checked below)
            else:
                rep.add("C12|loc|not-from-as_loc", f"{name}: ast node built with loc = {e.get('k')}", PARSER + ":" + name)
    n["rules"] += 1
    if n.get("result_loc", 0) < 3:
        rep.add("C12|floor|result-loc", f"only {n.get('result_loc', 0)} converters return a node ranged by their own pair (floor 3)",
                PARSER)
    if n_loc < 12:
        rep.add("C12|floor|loc-sites", f"only {n_loc} AST literals with a loc found (floor 12)", PARSER)
    al = next((f for k, f in fns.items() if k.endswith("::as_loc")), None)
    if al is None:
        rep.add("C12|anchor-missing|as_loc", "Helpers::as_loc not found", PARSER)
    else:
        for lit in synq.find_all(al, lambda x: x.get("k") == "Struct" and x["path"]["s"].endswith("SourceRange")):
            for fl in lit["fields"]:
                if fl["name"] in ("start", "end"):
                    n["rules"] += 1
                    ms = [mc["method"] for mc in synq.method_calls(fl["e"])]
                    want = f"{fl['name']}_pos"
                    other = "end_pos" if fl["name"] == "start" else "start_pos"
                    if want not in ms or other in ms:
                        rep.add("C12|loc|as_loc-endpoints", f"as_loc: `{fl['name']}` is not computed from span.{want}()",
                                PARSER + ":as_loc")
                    if "line_starts" not in " ".join(synq.paths_in(fl["e"]) + [m2["member"] for m2 in synq.find_all(
                            fl["e"], lambda x: x.get("k") == "Field")]):
                        rep.add("C12|loc|as_loc-line-starts", "as_loc does not use context.line_starts", PARSER + ":as_loc")
    # line starts: same function as the renderer (codespan SimpleFiles)
    pi = next((b for b in comp if b.name == "parse_inline"), None)
    if pi is None:
        rep.add("C12|anchor-missing|parse_inline", "parse_inline not found in MIR", PARSER)
    else:
        n["rules"] += 1
        org = mf.origins(pi)
        ctx_args = []
        for bi, t in mf.calls(pi):
            if t.callee.endswith("parse_toplevel"):
                ctx_args = [org["__resolve"](a) for a in t.args]
        local_defs = [b.name for b in comp if re.search(r"(^|::)line_starts$", b.name)]
        joined = " ".join(ctx_args)
        if "line_starts: " not in joined:
            rep.undecided.append("parse_inline: Context literal not recognised")
        else:
            seg = joined.partition("line_starts: ")[2]
            if "call<line_starts>" not in seg and "files::line_starts" not in seg:
                rep.add("C12|loc|line-starts-source", "Context.line_starts is not computed by codespan_reporting::files::"
                        "line_starts (the function the diagnostics renderer uses)", PARSER + ":parse_inline")
            elif local_defs:
                rep.add("C12|loc|line-starts-source", f"a local line_starts ({local_defs}) shadows codespan's: line/column may "
                        f"disagree with the renderer", PARSER + ":parse_inline")
            if "param_3" not in seg:
                rep.add("C12|loc|line-starts-input", "line starts are not computed from the source text", PARSER + ":parse_inline")
    # (f) consumption conformance: the converters interpreted on every child sequence their production can produce
    from . import c12_consume
    res, total = c12_consume.analyse(tree, cur)
    seen = set()
    for r_ in res:
        n["rules"] += r_["paths"]
        for kind, detail in r_["findings"]:
            key = f"C12|consume|{kind}" + ("" if "|" in kind else f"|{r_['rule']}")
            if (key, detail) in seen:
                continue
            seen.add((key, detail))
            rep.add(key, detail, PARSER + ":" + r_["fn"])
    samples.append({"rule": "consumption conformance", "converters": [[r_["fn"], r_["rule"], r_["paths"]] for r_ in res],
                    "paths": total})
    if total < 120 or len(res) < 8:
        rep.add("C12|floor|consumption", f"only {total} converter paths over {len(res)} converters interpreted (floors 120 / 8)",
                PARSER)
    if any(r_["paths"] >= c12_consume.MAXPATHS for r_ in res):
        rep.add("C12|consume|path-cap", "a converter has more paths than the exploration cap", PARSER)
    finish(rep, n, samples)


def finish(rep, n, samples):
    rep.coverage.update({
        "explanation": "grammar productions compared with the confirmed normal form; integer converter prefixes vs grammar "
                       "literals; Rule arms vs grammar alternatives; who-may-call Pair::into_inner (MIR); provenance of "
                       "every `loc` in parser.rs; line-start source agreement with the renderer; abstract interpretation of every "
                       "converter on every child sequence of its production (no valid shape rejected, no child left unconsumed).",
        "rule_instances": n["rules"], "samples": samples,
        "evaluations": n["rules"], "distinct_nontrivial": n["rules"],
    })
    rep.assumptions += ["pest semantics of implicit WHITESPACE/COMMENT and atomic rules",
                        "value-level AST fidelity and SourceLocation arithmetic are not decided"]
    if n["rules"] < 90:
        rep.add("C12|floor|rule-instances", f"only {n['rules']} rule instances evaluated (floor 90)", PARSER)
