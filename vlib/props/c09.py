"""C09 — well-formed input is accepted regardless of order/layout; groups behave as inlined.
Structural clauses, decided on /repo's source (syn tree + MIR + pest grammar):

(a) order producer vs order consumers: every FieldDesc shape for which Schema::new needs
    another declaration's size is visited first by check_decl_identifiers::bfs on every
    path that does not raise a diagnostic; the declaration is appended to the sorted
    history after its dependencies (post-order); every later pass receives the sorted file;
(b) layout: Pair::into_inner only inside Helpers::children (comment filter); WHITESPACE is a
    silent rule;
(c) radix: the integer converter strips every prefix the grammar accepts;
(d) lookups are by identifier, never by declaration position;
(e) groups: inline_groups leaves no group declaration / group field behind, constrained
    scalar -> FixedScalar, constrained typedef -> FixedEnum, inner constraints extend outer;
    the sibling range guards for fixed values and constraint values are the same predicate."""
import re

from .. import stages, synq, pestq, mirfacts as mf

LEVEL = "other"
AN = "pdl-compiler/src/analyzer.rs"

# Declaration kinds a field of the given shape may reference in a description that reaches
# Schema::new (other kinds are rejected by an earlier pass): one line of reason each.
REQUIRED_KINDS = {
    "Typedef": ["Enum", "Struct", "CustomField", "Checksum"],   # Packet -> E6 in bfs itself
    "Array": ["Enum", "Struct", "CustomField"],                 # Packet -> E6 in bfs itself
    "FixedEnum": ["Enum"],                                      # other kinds -> E33/E35 in check_fixed_fields
    "Group": ["Group"],                                         # other kinds -> E4 in bfs itself
}


# ---- tiny three-valued evaluation of conditions about `field.desc`
def pat_cases(p):
    """pattern -> [(variant, {field: 'Some'|'None'})]  for FieldDesc patterns; None = matches anything"""
    k = p.get("k")
    if k == "POr":
        out = []
        for c in p["cases"]:
            r = pat_cases(c)
            if r is None:
                return None
            out += r
        return out
    if k in ("PWild", "PIdent"):
        return None
    if k in ("PRef", "PType"):
        return pat_cases(p["pat"])
    if k in ("PStruct", "PTupleStruct", "PPath"):
        path = p["path"]["s"]
        if not path.startswith("FieldDesc::"):
            return None
        cons = {}
        for f in p.get("fields", []) if k == "PStruct" else []:
            fp = f["pat"]
            if fp.get("k") == "PTupleStruct" and fp["path"]["s"] == "Some":
                cons[f["name"]] = "Some"
            elif fp.get("k") == "PPath" and fp["path"]["s"] == "None":
                cons[f["name"]] = "None"
        return [(path.split("::")[1], cons)]
    return None


def tok_cases(tokens):
    """matches!(&field.desc, FieldDesc::Array { size: Some(_), .. }) tokens -> (subject, cases)"""
    t = re.sub(r"\s+", "", tokens)
    m = re.match(r"^&?([\w.]+),(.*)$", t)
    if not m:
        return None, None
    subj, pat = m.group(1), m.group(2)
    cases = []
    for alt in pat.split("|"):
        mm = re.match(r"^FieldDesc::(\w+)(\{(.*)\})?", alt)
        if not mm:
            return subj, None
        cons = {}
        for fm in re.finditer(r"(\w+):(Some\(|None)", mm.group(3) or ""):
            cons[fm.group(1)] = "Some" if fm.group(2).startswith("Some") else "None"
        cases.append((mm.group(1), cons))
    return subj, cases


def match3(cases, assume):
    """does the assumed (variant, constraints) match one of the pattern cases? True/False/None"""
    if cases is None:
        return True
    res = False
    for v, cons in cases:
        if v != assume[0]:
            continue
        r = True
        for f, want in cons.items():
            have = assume[1].get(f)
            if have is None:
                r = None
            elif have != want:
                r = False
                break
        if r is True:
            return True
        if r is None:
            res = None
    return res


def kind_pat3(p, kind):
    """pattern over the result of a typedef lookup vs the assumed declaration kind"""
    k = p.get("k")
    if k in ("PWild",):
        return True
    if k == "PIdent":
        if p["id"] == "None":      # syn parses a bare `None` pattern as an identifier
            return False
        return kind_pat3(p["sub"], kind) if p.get("sub") else True
    if k in ("PRef", "PType"):
        return kind_pat3(p["pat"], kind)
    if k == "PPath":
        return False if p["path"]["s"] == "None" else None
    if k == "PTupleStruct" and p["path"]["s"] == "Some":
        return kind_pat3(p["elems"][0], kind)
    if k == "PStruct" and p["path"]["s"] == "Decl":
        for f in p["fields"]:
            if f["name"] == "desc":
                fp = f["pat"]
                while fp.get("k") in ("PRef", "PIdent") and (fp.get("pat") or fp.get("sub")):
                    fp = fp.get("pat") or fp.get("sub")
                if fp.get("k") in ("PStruct", "PTupleStruct", "PPath") and fp["path"]["s"].startswith("DeclDesc::"):
                    return fp["path"]["s"].split("::")[1] == kind
                if fp.get("k") == "POr":
                    return any(c.get("path", {}).get("s", "").endswith("::" + kind) for c in fp["cases"])
        return True
    if k == "POr":
        rs = [kind_pat3(c, kind) for c in p["cases"]]
        if True in rs:
            return True
        return None if None in rs else False
    return None


def is_lookup(e):
    return "typedef.get(" in synq.expr_skel(e)


def cond3(e, assume):
    k = e.get("k")
    if k == "Paren":
        return cond3(e["e"], assume)
    if k == "Binary" and e["op"] in ("||", "&&"):
        a, b = cond3(e["lhs"], assume), cond3(e["rhs"], assume)
        if e["op"] == "||":
            if a is True or b is True:
                return True
            if a is False and b is False:
                return False
            return None
        if a is False or b is False:
            return False
        if a is True and b is True:
            return True
        return None
    if k == "Unary" and e["op"] == "!":
        r = cond3(e["e"], assume)
        return None if r is None else (not r)
    if k == "Macro" and e["path"] == "matches":
        subj, cases = tok_cases(e["tokens"])
        if subj and subj.endswith("field.desc") and cases is not None:
            return match3(cases, assume)
        t = re.sub(r"\s+", "", e["tokens"])
        mm = re.match(r"^&?[\w.]+\.desc,(.*)$", t)
        if mm and len(assume) > 2 and "DeclDesc::" in mm.group(1):
            kinds = re.findall(r"DeclDesc::(\w+)", mm.group(1))
            return assume[2] in kinds
        return None
    return None


def is_desc_scrutinee(e):
    s = synq.expr_skel(e)
    return s.endswith(".desc")


def covers(n, assume, is_leaf):
    """True if on every path (under the assumption about field.desc) node n reaches a leaf
    (recursive visit or a diagnostic)."""
    if isinstance(n, list):
        return any(covers(s, assume, is_leaf) for s in n)
    if not isinstance(n, dict):
        return False
    k = n.get("k")
    if is_leaf(n):
        return True
    if k == "Macro" and n["path"] == "unreachable":
        return True     # dead by construction (would panic, never silently skip)
    if k == "ExprStmt":
        return covers(n["e"], assume, is_leaf)
    if k == "Let":
        return covers(n.get("init"), assume, is_leaf) if n.get("init") else False
    if k == "Block":
        return covers(n["stmts"], assume, is_leaf)
    if k == "If":
        c = n["cond"]
        if c.get("k") == "LetCond":
            r = None
            if len(assume) > 2 and is_lookup(c["e"]):
                r = kind_pat3(c["pat"], assume[2])
        else:
            r = cond3(c, assume)
        th = covers(n["then"], assume, is_leaf)
        el = covers(n["else"], assume, is_leaf) if "else" in n else False
        if r is True:
            return th
        if r is False:
            return el
        return th and el
    if k == "Match":
        if is_desc_scrutinee(n["e"]):
            for a in n["arms"]:
                m = match3(pat_cases(a["pat"]), assume)
                if m is True and not a.get("guard"):
                    return covers(a["body"], assume, is_leaf)
                if m is None or (m is True and a.get("guard")):
                    if not covers(a["body"], assume, is_leaf):
                        return False
            return False
        if len(assume) > 2 and is_lookup(n["e"]):
            for a in n["arms"]:
                m = kind_pat3(a["pat"], assume[2])
                if m is True and not a.get("guard"):
                    return covers(a["body"], assume, is_leaf)
                if m is None or (m is True and a.get("guard")):
                    if not covers(a["body"], assume, is_leaf):
                        return False
            return False
        return all(covers(a["body"], assume, is_leaf) for a in n["arms"])
    if k in ("MethodCall",):
        # e.g. diagnostics.push(...) handled by is_leaf; otherwise look into receiver/args closures
        return covers(n["recv"], assume, is_leaf) or any(covers(a, assume, is_leaf) for a in n["args"])
    if k in ("Paren", "Try", "Ref", "Unary"):
        return covers(n["e"], assume, is_leaf)
    return False


def run(rep, tier, seed):
    n = {"rules": 0}
    samples = []
    tree = stages.repo_syn(AN)
    if tree is None:
        rep.add("C09|anchor-missing|analyzer.rs", "analyzer.rs could not be parsed", AN)
        return finish(rep, n, samples)
    fns = synq.functions(tree)

    # (a) consumers
    af = fns.get("Schema::new::annotate_field")
    bfs = fns.get("check_decl_identifiers::bfs")
    if af is None or bfs is None:
        for nm, f in (("Schema::new::annotate_field", af), ("check_decl_identifiers::bfs", bfs)):
            if f is None:
                rep.add(f"C09|anchor-missing|{nm}", f"{nm} not found", AN)
    else:
        consumers = []
        for m in synq.match_arms(af):
            if not is_desc_scrutinee(m["e"]):
                continue
            for a in m["arms"]:
                body_skel = synq.expr_skel(a["body"])
                needs = ("total_size" in body_skel or ".get(" in body_skel) and "scope" in str(synq.paths_in(a["body"]))
                if needs:
                    for c in pat_cases(a["pat"]) or []:
                        consumers.append(c)
        n["rules"] += 1
        if len(consumers) < 4:
            rep.add("C09|floor|order-consumers", f"only {len(consumers)} size-dependent FieldDesc shapes found in "
                    f"annotate_field (floor 4)", AN)

        def is_leaf(x):
            if x.get("k") == "Call" and x["func"].get("k") == "Path" and x["func"]["path"]["s"] == "bfs":
                return True
            if x.get("k") == "MethodCall" and x["method"] == "push" and synq.expr_skel(x["recv"]) == "_" and \
                    "Diagnostic::error" in str(synq.paths_in(x)):
                return True
            return False

        # the per-field loop of bfs
        loops = synq.find_all(bfs, lambda x: x.get("k") == "For" and "fields()" in synq.expr_skel(x["iter"]))
        if not loops:
            rep.add("C09|anchor-missing|bfs-field-loop", "bfs no longer iterates over decl.fields()", AN)
        else:
            body = loops[0]["body"]
            for (variant, cons) in consumers:
                for kind in REQUIRED_KINDS.get(variant, ["Enum", "Struct"]):
                    n["rules"] += 1
                    ok = covers(body, (variant, cons, kind), is_leaf)
                    samples.append({"consumer": f"FieldDesc::{variant} {cons} -> {kind}", "visited_first": ok})
                    if not ok:
                        key_cons = ",".join(f"{k}={v}" for k, v in sorted(cons.items()))
                        rep.add(f"C09|order|not-visited|{variant}|{key_cons}|{kind}",
                                f"Schema::new needs the size of the {kind} declaration referenced by FieldDesc::{variant} "
                                f"{cons}, but check_decl_identifiers::bfs does not visit it first on every non-failing path: "
                                f"a forward reference is not reordered", AN + ":check_decl_identifiers::bfs")
        # parent
        n["rules"] += 1
        pl = synq.find_all(bfs, lambda x: x.get("k") == "If" and x["cond"].get("k") == "LetCond"
                           and "parent_id" in synq.expr_skel(x["cond"]["e"]))
        if not pl or not covers(pl[0]["then"], ("", {}), is_leaf):
            rep.add("C09|order|parent-not-visited", "bfs does not visit the parent declaration on every non-failing path",
                    AN + ":bfs")
        # post-order: history.push after the loops
        n["rules"] += 1
        stmts = bfs["body"]
        idx_push = [i for i, s in enumerate(stmts) if "history.push" in synq.expr_skel(s.get("e", s.get("init", {})) or {})]
        idx_loop = [i for i, s in enumerate(stmts) if s.get("k") == "ExprStmt" and s["e"].get("k") in ("For", "If")]
        if not idx_push:
            rep.add("C09|order|no-history", "bfs never appends the declaration to the sorted history", AN + ":bfs")
        elif idx_loop and idx_push[0] < max(idx_loop):
            rep.add("C09|order|not-post-order", "bfs appends the declaration before visiting its dependencies", AN + ":bfs")

    # every later pass receives the sorted file (MIR def-use on analyze)
    comp = stages.mir_bodies("compiler")
    an = next((b for b in comp if b.name == "analyze"), None)
    if an is None:
        rep.add("C09|anchor-missing|analyze", "analyze not found in MIR", AN)
    else:
        org = mf.origins(an)
        passes = 0
        for bi, t in mf.calls(an):
            nm = t.callee.split("::")[-1]
            if re.match(r"^(check_\w+|inline_groups)$", nm) and nm != "check_decl_identifiers":
                passes += 1
                n["rules"] += 1
                o = org["__resolve"](t.args[0])
                if "call<check_decl_identifiers>" not in o:
                    rep.add(f"C09|order|pass-on-unsorted|{nm}", f"{nm} does not receive the topologically sorted file", AN + ":analyze")
            if t.callee.endswith("Schema::new"):
                passes += 1
                n["rules"] += 1
                o = org["__resolve"](t.args[0])
                if "call<check_decl_identifiers>" not in o or "call<inline_groups>" not in o:
                    rep.add("C09|order|schema-on-unsorted", "Schema::new does not receive the sorted, group-inlined file", AN + ":analyze")
        if passes < 14:
            rep.add("C09|floor|passes", f"only {passes} passes found in analyze (floor 14)", AN)
        samples.append({"rule": "passes receive sorted file", "passes": passes})

    # (b) WHITESPACE silent, into_inner who-may-call
    g = pestq.load_grammar()
    if "error" in g:
        rep.add("C09|anchor-missing|grammar", "grammar unreadable", "parser.rs")
    else:
        ws = next((r for r in g["rules"] if r["name"] == "WHITESPACE"), None)
        n["rules"] += 1
        if ws is None or ws["ty"] != "Silent":
            rep.add("C09|layout|whitespace-not-silent", "WHITESPACE is not a silent rule: layout shows up in the parse tree", "parser.rs")
        hexp = pestq.literals(g["rules"], "hexvalue")
        ptree = stages.repo_syn("pdl-compiler/src/parser.rs")
        pf = synq.functions(ptree) if ptree else {}
        au = next((f for k, f in pf.items() if k.endswith("::as_usize")), None)
        if au is not None:
            stripped = []
            for mc in synq.method_calls(au):
                if mc["method"] in ("strip_prefix", "trim_start_matches", "starts_with"):
                    for a in mc["args"]:
                        stripped += synq.str_lits(a)
            lowered = bool(synq.method_calls(au, "to_lowercase") or synq.method_calls(au, "to_ascii_lowercase"))
            for p in hexp:
                n["rules"] += 1
                if not (p in stripped or (lowered and p.lower() in stripped)):
                    rep.add("C09|radix|hex-prefix-not-stripped", f"literal prefix {p!r} accepted by the grammar is not handled by "
                            f"as_usize", "parser.rs:as_usize")
    for b in comp:
        for bi, t in mf.calls(b):
            if re.search(r"iterators::Pair::<.*>::into_inner$", t.callee):
                n["rules"] += 1
                if not re.search(r"parser::<impl at .*>::children$", b.name):
                    rep.add("C09|layout|into_inner-outside-children", f"Pair::into_inner called in {b.name}: comments are not "
                            f"filtered", "parser.rs:" + b.name.split("::")[-1])

    # (d) no positional lookup of declarations
    for name, f in fns.items():
        if name.startswith("test::"):
            continue
        for ix in synq.find_all(f, lambda x: x.get("k") == "Index"):
            base = synq.expr_skel(ix["base"])
            n["rules"] += 1
            if base.endswith(".declarations"):
                rep.add("C09|lookup|by-position", f"{name} indexes declarations by position", AN + ":" + name)

    # (e) groups
    ig = fns.get("inline_groups")
    inl = fns.get("inline_groups::inline_fields")
    if ig is None or inl is None:
        rep.add("C09|anchor-missing|inline_groups", "inline_groups / inline_fields not found", AN)
    else:
        arms = {}
        for m in synq.match_arms(inl):
            if is_desc_scrutinee(m["e"]):
                for a in m["arms"]:
                    for c in pat_cases(a["pat"]) or [("_", {})]:
                        arms[c[0]] = a
        checks = [
            ("Group", lambda a: any(c["func"]["path"]["s"] == "inline_fields" for c in synq.calls(a["body"])),
             "group fields are not expanded recursively"),
            ("Scalar", lambda a: a.get("guard") is not None and "contains_key" in synq.expr_skel(a["guard"]) and
             "FieldDesc::FixedScalar" in synq.paths_in(a["body"]), "constrained scalar does not become FixedScalar"),
            ("Typedef", lambda a: a.get("guard") is not None and "contains_key" in synq.expr_skel(a["guard"]) and
             "FieldDesc::FixedEnum" in synq.paths_in(a["body"]), "constrained typedef does not become FixedEnum"),
        ]
        for variant, pred, msg in checks:
            n["rules"] += 1
            a = arms.get(variant)
            if a is None:
                rep.add(f"C09|groups|no-arm|{variant}", f"inline_fields has no arm for FieldDesc::{variant}", AN + ":inline_fields")
            elif not pred(a):
                rep.add(f"C09|groups|{variant}", msg, AN + ":inline_fields")
        # key / loc / cond carried over on the rewritten fields
        for variant in ("Scalar", "Typedef"):
            a = arms.get(variant)
            if a is None:
                continue
            for lit in synq.find_all(a["body"], lambda x: x.get("k") == "Struct" and x["path"]["s"] == "Field"):
                n["rules"] += 1
                names = {f["name"]: synq.expr_skel(f["e"]) for f in lit["fields"]}
                for fld in ("loc", "key", "cond"):
                    if fld not in names or not names[fld].startswith("_." + fld):
                        rep.add(f"C09|groups|field-{fld}-not-carried", f"inline_fields: rewritten {variant} field does not keep "
                                f"the original {fld}", AN + ":inline_fields")
        ga = arms.get("Group")
        if ga is not None:
            n["rules"] += 1
            sk = synq.expr_skel(ga["body"])
            if ".extend(" not in sk or "let _=_" not in sk.replace(" ", "") and "clone" not in str(synq.method_calls(ga["body"], "clone")):
                pass
            ext = synq.method_calls(ga["body"], "extend")
            if not ext:
                # the same written as a loop: `for c in group_constraints { map.insert(..) }` on a clone of the enclosing map
                loops = synq.find_all(ga["body"], lambda x: x.get("k") == "For" and synq.method_calls(x["body"], "insert"))
                ext = [l_ for l_ in loops if "constraints" in synq.expr_skel(l_["iter"]) or "constraints" in str(l_["iter"])]
            if not ext:
                rep.add("C09|groups|constraints-not-extended", "group constraints do not extend the enclosing constraints", AN)
        # no group declaration survives
        n["rules"] += 1
        drops = False
        for m in synq.match_arms(ig):
            for a in m["arms"]:
                if "DeclDesc::Group" in synq.pat_paths(a["pat"]) and synq.expr_skel(a["body"]) in ("None", "_"):
                    drops = True
                if "DeclDesc::Group" in synq.pat_paths(a["pat"]) and a["body"].get("k") == "Path" and a["body"]["path"]["s"] == "None":
                    drops = True
        if not drops:
            rep.add("C09|groups|group-decl-survives", "inline_groups does not remove group declarations", AN + ":inline_groups")
    # sibling range guards: fixed value vs constraint value
    sib = {}
    for fname, code in (("check_fixed_fields", "ErrorCode::FixedValueOutOfRange"), ("check_constraint", "ErrorCode::ConstraintValueOutOfRange")):
        f = fns.get(fname)
        if f is None:
            rep.add(f"C09|anchor-missing|{fname}", f"{fname} not found", AN)
            continue
        for node, ctx in synq.guard_chains(f, lambda x: x.get("k") == "MethodCall" and x["method"] == "with_code"):
            if synq.expr_skel(node["args"][0]) == code:
                g1 = [c for c in ctx if "bit_width" in c or "scalar_max" in c]
                sib[fname] = canonical_width_guard(g1[-1]) if g1 else None
    n["rules"] += 1
    if len(sib) == 2:
        vals = list(sib.values())
        samples.append({"rule": "sibling width guards", "guards": sib})
        if None in vals:
            rep.undecided.append(f"width guard shape not recognised: {sib}")
        elif vals[0] != vals[1]:
            rep.add("C09|groups|sibling-width-guards", f"a constrained group field and the equivalent _fixed_ field are range-"
                    f"checked by different predicates: {sib}", AN)
        elif vals[0] != "exceeds":
            rep.add("C09|groups|width-guard", f"the value-fits-width guard is not `bit_width(v) > w` / `v > scalar_max(w)`: {sib}", AN)
    finish(rep, n, samples)


def canonical_width_guard(ctx_entry):
    """'... if (_ < bit_width(_))' -> 'exceeds' ; other spellings -> their text"""
    m = re.search(r"\(([^()]*(?:\([^()]*\))?[^()]*)\)\s*\}?$", ctx_entry)
    g = ctx_entry
    if "(_ < bit_width(_))" in g:
        return "exceeds"
    if "(scalar_max(_) < _)" in g:
        return "exceeds"
    if "!(0..=scalar_max(_)).contains(_)" in g or "!0..=scalar_max(_).contains(_)" in g:
        return "exceeds"
    mm = re.search(r"\([^()]*(bit_width|scalar_max)\(_\)[^()]*\)", g)
    return mm.group(0) if mm else None


def finish(rep, n, samples):
    rep.coverage.update({
        "explanation": "order producer/consumer agreement by three-valued evaluation of bfs over each size-dependent "
                       "FieldDesc shape; def-use of the sorted file through analyze (MIR); silent WHITESPACE; converter "
                       "prefixes; who-may-call into_inner; no positional lookups; inline_groups arm structure; sibling "
                       "width guards.",
        "rule_instances": n["rules"], "samples": samples[:12],
        "evaluations": n["rules"], "distinct_nontrivial": n["rules"],
    })
    rep.assumptions += ["equality of analysed declarations across permutations as a relation between two runs is not decided"]
    if n["rules"] < 30:
        rep.add("C09|floor|rule-instances", f"only {n['rules']} rule instances (floor 30)", AN)
