"""C19 — Java backend: conformance of the generated classes with the reference encoding.

Subject: javac's attributed syntax trees of the classes emitted by /repo's Java backend (pdl-compiler built with the
`java` feature inside pdlgen) — never compiled to bytecode, never run.

(a) Utils.getNN / putNN compose exactly the bytes they read / write in the module's byte order (bit by bit);
(b) the static parsers fromBytes(ByteBuffer) / fromPayload(ByteBuffer) read the reference layout of the declaration
    (bits, byte order, array and payload delimitation, nested structs), and no wire value reaches a quantity (array length,
    loop bound, slice length, remaining size) or a field through a signed widening that keeps its sign bits: Java's
    integers are signed, the wire's are not;
(c) toBytes writes the reference layout of the declaration's own fields, children hand their bytes to the parent as its
    payload, fieldWidth() equals the bytes written;
(d) a parent dispatches to a child exactly on the child's constraints.
ByteBuffer underflow and explicit throws are rejections, which the property allows; they are not obligations."""
import os
import re

from . import rustcommon as rc
from .c04 import DCmp
from .c03 import Cmp
from .. import stages, javaeval, rslayout, sym, ref as refm

LEVEL = "translation_validation"


SAMPLES = []


def key_for(o, fn):
    role = re.sub(r"#\d+", "", o.role or "")
    return f"C19|java|{fn}|{o.kind}|{role}"


def statics_of(jm):
    st = {}
    for _ in range(3):
        changed = False
        for cn, c in jm.classes.items():
            if "." in cn or cn == "Utils":
                continue
            fw = jm.method(c, "fieldWidth")
            if fw is None or c.get("extends"):
                continue
            if any(m in c["methods"] for m in ("fromPayload",)):
                continue
            ev = javaeval.JSer(jm, c, fw, "width", st).run()
            v = ev.size_value
            if isinstance(v, sym.E) and not any(not o.ok for o in ev.obls):
                p = ev.env.poly(v)
                if list(p.keys()) in ([()], []):
                    val = int(p.get((), 0))
                    has_payload = jm.method(c, "toBytes", lambda m: javaeval.ptype(m, 0) == "ByteBuffer") is not None
                    if not has_payload and st.get(cn) != val:
                        st[cn] = val
                        changed = True
        if not changed:
            break
    # a class whose width() returns a literal has that width wherever `.width()` is called on it (children with static
    # inherited and own parts); check_width compares the literal with the reference
    for cn, c in jm.classes.items():
        if "." in cn or cn == "Utils" or cn in st:
            continue
        f_ = width_form(jm, c)
        if f_[0] == "lit":
            st[cn] = f_[1]
    return st


def width_form(jm, c):
    """('lit', n) | ('own',) | ('super+own',) | ('other', text) for the body of width()"""
    m = jm.method(c, "width")
    if m is None:
        return ("none",)
    st_ = (m.get("body") or {}).get("stmts") or []
    if len(st_) != 1 or st_[0].get("k") != "RETURN":
        return ("other", "body")
    e = st_[0]["e"]

    def is_call(x, name, recv=None):
        if x.get("k") != "METHOD_INVOCATION" or x.get("args"):
            return False
        fn = x["fn"]
        if recv is None:
            return fn.get("k") == "IDENTIFIER" and fn.get("name") == name
        return fn.get("k") == "MEMBER_SELECT" and fn.get("name") == name and fn["e"].get("k") == "IDENTIFIER" \
            and fn["e"].get("name") == recv
    if e.get("k") == "INT_LITERAL":
        return ("lit", int(e["v"]))
    if is_call(e, "fieldWidth"):
        return ("own",)
    if e.get("k") == "PLUS" and ((is_call(e["a"], "width", "super") and is_call(e["b"], "fieldWidth")) or
                                 (is_call(e["b"], "width", "super") and is_call(e["a"], "fieldWidth"))):
        return ("super+own",)
    return ("other", e.get("k"))


def check_width(rep, jm, r, decl, c, where, stats):
    """(e) width() -- what parsers advance by and size-delimited loops count down with -- is the encoded size of the
    object: a literal equal to the reference's static size of the whole declaration (inherited fields included), or the
    sum of the own part (fieldWidth(), compared with the bytes written in (c)) and, for a child, the parent's width()"""
    f_ = width_form(jm, c)
    if f_[0] == "none":
        return
    stats["widths"] += 1
    has_parent = bool(r.decls[decl].parent)
    if f_[0] == "lit":
        try:
            want = r.total_static_bits(decl)
        except refm.RefError:
            return
        if want is None or want != f_[1] * 8:
            rep.add("C19|java|width|static", f"{c['name']}.width() returns {f_[1]}; the reference's encoded size of {decl} is "
                    f"{'not static' if want is None else str(want // 8) + ' octets'}", where)
    elif f_[0] == "own":
        if has_parent:
            rep.add("C19|java|width|inherited-part", f"{c['name']}.width() leaves out the inherited fields of {decl}", where)
    elif f_[0] == "super+own":
        if not has_parent:
            rep.add("C19|java|width|inherited-part", f"{c['name']}.width() adds super.width() but {decl} has no parent", where)
    else:
        rep.add("C19|java|width|unmodelled", f"{c['name']}.width() has an unrecognised form ({f_[1]})", where)


def check_decl(rep, name, jm, r, decl, c, stats, st):
    where = f"{name}:{decl}"
    is_child = bool(r.decls[decl].parent)
    chain = [decl] + r.parent_chain(decl)
    # ---- parse
    pm = jm.method(c, "fromPayload" if is_child else "fromBytes", lambda m: javaeval.ptype(m, 0) == "ByteBuffer")
    if pm is not None:
        ev = javaeval.JParse(jm, c, pm, st).run()
        stats["functions"] += 1
        for o in ev.obls:
            stats["obligations"] += 1
            if o.ok:
                stats["discharged"] += 1
            else:
                rep.add(key_for(o, "parse"), o.what, f"{name} {c['name']}.{pm['name']}")
        stats["undecided"] += len(ev.undecided)
        if not any(o.kind == "unmodelled" and not o.ok for o in ev.obls):
            try:
                want = [x for x in r.layout(decl) if x["k"] != "checksum_start"]
            except refm.RefError:
                want = None
            if want is not None:
                if ev.always_fails is not None:
                    rep.add("C19|java|parse|always-rejects", f"{c['name']}.{pm['name']} throws for every input", where)
                else:
                    # the Java class names are camel-cased: compare struct types modulo that
                    for it in ev.items:
                        if it["k"] == "typedef":
                            it["type"] = next((d for d in r.decls if javaeval.camel(d) == javaeval.camel(it["type"])), it["type"])
                        if it["k"] == "array" and it["elem"].get("type"):
                            it["elem"]["type"] = next((d for d in list(r.decls) + list(r.enums)
                                                       if javaeval.camel(d) == javaeval.camel(it["elem"]["type"])), it["elem"]["type"])
                    for it in ev.items:
                        if it["k"] == "chunk":
                            for i, b in enumerate(it["bits"]):
                                pass
                    names = {javaeval.camel(f.name): f.name for f in r.inlined(decl) if f.name}
                    for it in ev.items:
                        if it.get("name") and javaeval.camel(it["name"]) in names:
                            it["name"] = names[javaeval.camel(it["name"])]
                        if it["k"] == "chunk":
                            it["bits"] = [tuple(names.get(javaeval.camel(x), x) if i_ == 1 and isinstance(x, str) else x
                                                for i_, x in enumerate(b)) if isinstance(b, tuple) else b for b in it["bits"]]
                    cm = DCmp(rep, where, r, decl, ev, prop="C19")
                    cm.side = "java"
                    cm.run(want)
                    if len(SAMPLES) < 4 and ev.items:
                        SAMPLES.append({"description": name, "class": c["name"], "method": pm["name"],
                                        "reference_items": [w["k"] for w in want][:8],
                                        "parser_items": [x["k"] for x in ev.items][:8]})
                    stats["items"] += cm.n
        # (d) dispatch
        kids = r.children(decl) if hasattr(r, "children") else []
        if ev.dispatch:
            stats["dispatch"] += len(ev.dispatch)
    check_width(rep, jm, r, decl, c, where, stats)
    # ---- serialize
    sm = None
    if r.has_payload(decl):
        sm = jm.method(c, "toBytes", lambda m: javaeval.ptype(m, 0) == "ByteBuffer")
    if sm is None:
        sm = jm.method(c, "toBytes", lambda m: not m.get("params"))
    if sm is not None:
        try:
            own = [x for x in r.layout(decl) if x["k"] != "checksum_start"]
        except refm.RefError:
            own = None
        ref_chunks = [(it["n"], [(bf["shift"], bf["width"], bf["k"]) for bf in it["fields"]]) for it in (own or [])
                      if it["k"] == "chunk"]
        sev = javaeval.JSer(jm, c, sm, "ser", st)
        sev.ref_chunks = ref_chunks
        sev.run()
        stats["functions"] += 1
        for o in sev.obls:
            stats["obligations"] += 1
            if o.ok:
                stats["discharged"] += 1
            else:
                rep.add(key_for(o, "serialize"), o.what, f"{name} {c['name']}.toBytes")
        if own is not None and not any(not o.ok for o in sev.obls):
            for it in sev.items:
                if it["k"] == "nested" and it.get("type"):
                    it["type"] = next((d for d in r.decls if javaeval.camel(d) == javaeval.camel(it["type"])), it["type"])
                if it["k"] == "array" and isinstance(it.get("elem"), dict) and it["elem"].get("type"):
                    it["elem"]["type"] = next((d for d in r.decls if javaeval.camel(d) == javaeval.camel(it["elem"]["type"])),
                                              it["elem"]["type"])
            names = {javaeval.camel(f.name): f.name for f in r.inlined(decl) if f.name}

            def ren(b):
                if isinstance(b, tuple) and len(b) > 1 and isinstance(b[1], str) and javaeval.camel(b[1]) in names:
                    return (b[0], names[javaeval.camel(b[1])]) + tuple(b[2:])
                return b
            for it in sev.items:
                if it.get("src", "").startswith("self.") and javaeval.camel(it["src"][5:]) in names:
                    it["src"] = "self." + names[javaeval.camel(it["src"][5:])]
                if it["k"] == "chunk":
                    it["bits"] = [ren(b) for b in it["bits"]]
                    it["his"] = {ren(k_): v_ for k_, v_ in (it.get("his") or {}).items()}
                if it["k"] == "array" and isinstance(it.get("elem"), dict) and it["elem"].get("k") == "chunk":
                    it["elem"]["bits"] = [ren(b) for b in it["elem"]["bits"]]
            cm = Cmp(rep, "C19", where, r, r.big, decl, side="javaser")
            cm.len_semantics = True
            cm.run(own, sev.items, sev.env)
            stats["items"] += cm.n
            stats["serializers"] += 1
            if is_child and not sev.to_parent:
                rep.add("C19|java|serialize|child-shape", f"{c['name']}.toBytes does not hand its bytes to super.toBytes", where)
            # fieldWidth() == bytes written (payload excluded)
            fw = jm.method(c, "fieldWidth")
            if fw is not None:
                wev = javaeval.JSer(jm, c, fw, "width", st).run()
                v = wev.size_value
                if isinstance(v, sym.E) and not any(not o.ok for o in wev.obls):
                    wrote = {}
                    for it in sev.items:
                        if it["k"] == "bytes":
                            continue
                        wrote = sym.p_add(wrote, rslayout.item_bytes(it, sev.env))
                    got = wev.env.poly(v)
                    stats["sizes"] += 1
                    subst, scale = {}, {}
                    for it_ in own:
                        if it_["k"] == "array" and it_["shape"]["k"] == "static":
                            subst[f"len(self.{it_['name']})"] = it_["shape"]["n"]
                        if it_["k"] == "array" and it_.get("elem_bytes") is not None and it_["elem"]["k"] == "struct":
                            scale[f"sum_encoded_len(self.{it_['name']})"] = (f"len(self.{it_['name']})", it_["elem_bytes"])
                        if it_["k"] == "typedef" and it_["tk"] == "struct" and it_.get("static") is not None:
                            subst[f"encoded_len(self.{it_['name']})"] = it_["static"] // 8

                    def ap(p):
                        out = {}
                        for mono, cf in p.items():
                            k2, m2 = 1, []
                            mono = list(mono)
                            for i_, a in enumerate(mono):
                                a = re.sub(r"self\.(\w+)", lambda mm: "self." + names.get(javaeval.camel(mm.group(1)), mm.group(1)), a)
                                if a in scale:
                                    k2 *= scale[a][1]
                                    a = scale[a][0]
                                mono[i_] = a
                            for a in mono:
                                if a in subst:
                                    k2 *= subst[a]
                                else:
                                    m2.append(a)
                            key = tuple(sorted(m2))
                            out[key] = out.get(key, 0) + cf * k2
                        return {k: v_ for k, v_ in out.items() if v_ != 0}
                    if ap(wrote) != ap(got):
                        rep.add("C19|java|width|bytes-written", f"{c['name']}.fieldWidth() = {sym.p_str(ap(got))}, toBytes writes "
                                f"{sym.p_str(ap(wrote))}", where)


def run(rep, tier, seed):
    del SAMPLES[:]
    g = rc.gen(tier, seed)
    d, idx = stages.stage_java(tier, seed)
    stats = {"modules": 0, "functions": 0, "obligations": 0, "discharged": 0, "items": 0, "undecided": 0, "helpers": 0,
             "serializers": 0, "sizes": 0, "widths": 0, "dispatch": 0, "skipped_modules": 0, "classes": 0}
    for name in sorted(idx):
        info = idx[name]
        if info["rc"] != 0:
            stats["skipped_modules"] += 1
            continue
        jm = javaeval.JModule(os.path.join(d, name))
        bad_files = {e["file"].replace(".java", "") for e in info["errors"]}
        stats["modules"] += 1
        r = rc.model_ref(g, name)
        if r is not None:
            jm.big = r.big
        # (a) helpers
        u = jm.classes.get("Utils")
        if u is not None and "Utils" not in bad_files:
            for mn, ms in u["methods"].items():
                m = re.fullmatch(r"(get|put)(\d+)", mn)
                if not m:
                    continue
                ev = javaeval.JHelper(jm, u, ms[0]).run()
                stats["helpers"] += 1
                big = r.big if r is not None else bool(jm.big)
                probs = ev.verdict(int(m.group(2)) // 8, big) + [o.what for o in ev.obls if not o.ok]
                for pr in probs[:1]:
                    rep.add(f"C19|java|helper|{m.group(1)}|{'big' if big else 'little'}",
                            f"Utils.{mn} ({'big' if big else 'little'}-endian module): {pr}", f"{name} Utils.{mn}")
        if r is None:
            continue
        st = statics_of(jm)
        excl = set((g.entry(name).get("opts") or {}).get("exclude", {}).get("java", []))
        for decl, dd in r.decls.items():
            if dd.kind not in ("packet", "struct") or decl in excl:
                continue
            c = jm.by_decl(decl)
            if c is None or c["name"] in bad_files:
                continue
            stats["classes"] += 1
            try:
                check_decl(rep, name, jm, r, decl, c, stats, st)
            except Exception as e:
                import traceback
                rep.add("C19|evaluator-crashed", f"{type(e).__name__}: {e} ({traceback.format_exc().splitlines()[-3].strip()})",
                        f"{name}:{decl}")
    rep.coverage.update({
        "programs": stats["functions"], "disagreements_checked": stats["items"] + stats["obligations"] + stats["helpers"],
        **stats, "samples": SAMPLES[:4],
        "explanation": "javac syntax trees of every emitted Java class: helpers bit by bit, parsers vs the reference layout "
                       "with sign-extension obligations, serializers vs the reference layout, fieldWidth vs bytes written",
    })
    rep.assumptions += ["exceptions (BufferUnderflow, IllegalArgument, NegativeArraySize, Arithmetic) are rejections, which the "
                        "property allows; only wrong objects and wrongly rejected valid encodings are violations",
                        "classes in files javac reports errors for are skipped (reported by C10's javac witness)"]
    if stats["functions"] < 150:
        rep.add("C19|coverage-floor", f"only {stats['functions']} functions evaluated (floor 150)", "corpus")
