"""C19 — Java backend: conformance of the generated classes with the reference encoding.

Subject: javac's attributed syntax trees of the classes emitted by /repo's Java backend (pdl-compiler built with the
`java` feature inside pdlgen) — never compiled to bytecode, never run.

(a) Utils.getNN / putNN compose exactly the bytes they read / write in the module's byte order (bit by bit);
(b) the static parsers fromBytes(ByteBuffer) / fromPayload(ByteBuffer) read the reference layout of the declaration
    (bits, byte order, array and payload delimitation, nested structs), and no wire value reaches a quantity (array length,
    loop bound, slice length, remaining size) or a field through a signed widening that keeps its sign bits: Java's
    integers are signed, the wire's are not;
(c) toBytes writes the reference layout of the declaration's own fields, children hand their bytes to the parent as its
    payload, fieldWidth() equals the bytes written;
(d) a parent dispatches to a child exactly on the child's constraints.
ByteBuffer underflow and explicit throws are rejections, which the property allows; they are not obligations."""
import os
import re

from . import rustcommon as rc
from .c04 import DCmp
from .c03 import Cmp
from .. import stages, javaeval, rslayout, sym, ref as refm

LEVEL = "translation_validation"


SAMPLES = []


def key_for(o, fn):
    role = re.sub(r"#\d+", "", o.role or "")
    return f"C19|java|{fn}|{o.kind}|{role}"


def statics_of(jm):
    st = {}
    for _ in range(3):
        changed = False
        for cn, c in jm.classes.items():
            if "." in cn or cn == "Utils":
                continue
            fw = jm.method(c, "fieldWidth")
            if fw is None or c.get("extends"):
                continue
            if any(m in c["methods"] for m in ("fromPayload",)):
                continue
            ev = javaeval.JSer(jm, c, fw, "width", st).run()
            v = ev.size_value
            if isinstance(v, sym.E) and not any(not o.ok for o in ev.obls):
                p = ev.env.poly(v)
                if list(p.keys()) in ([()], []):
                    val = int(p.get((), 0))
                    has_payload = jm.method(c, "toBytes", lambda m: javaeval.ptype(m, 0) == "ByteBuffer") is not None
                    if not has_payload and st.get(cn) != val:
                        st[cn] = val
                        changed = True
        if not changed:
            break
    # a class whose width() returns a literal has that width wherever `.width()` is called on it (children with static
    # inherited and own parts); check_width compares the literal with the reference
    for cn, c in jm.classes.items():
        if "." in cn or cn == "Utils" or cn in st:
            continue
        f_ = width_form(jm, c)
        if f_[0] == "lit":
            st[cn] = f_[1]
    return st


def width_form(jm, c):
    """('lit', n) | ('own',) | ('super+own',) | ('other', text) for the body of width()"""
    m = jm.method(c, "width")
    if m is None:
        return ("none",)
    st_ = (m.get("body") or {}).get("stmts") or []
    if len(st_) != 1 or st_[0].get("k") != "RETURN":
        return ("other", "body")
    e = st_[0]["e"]

    def is_call(x, name, recv=None):
        if x.get("k") != "METHOD_INVOCATION" or x.get("args"):
            return False
        fn = x["fn"]
        if recv is None:
            return fn.get("k") == "IDENTIFIER" and fn.get("name") == name
        return fn.get("k") == "MEMBER_SELECT" and fn.get("name") == name and fn["e"].get("k") == "IDENTIFIER" \
            and fn["e"].get("name") == recv
    if e.get("k") == "INT_LITERAL":
        return ("lit", int(e["v"]))
    if is_call(e, "fieldWidth"):
        return ("own",)
    if e.get("k") == "PLUS" and ((is_call(e["a"], "width", "super") and is_call(e["b"], "fieldWidth")) or
                                 (is_call(e["b"], "width", "super") and is_call(e["a"], "fieldWidth"))):
        return ("super+own",)
    return ("other", e.get("k"))


class Unknown(Exception):
    pass


def _wrap(v, bits):
    v &= (1 << bits) - 1
    return v - (1 << bits) if v >> (bits - 1) else v


def jconc(e, vals):
    """value of a javaeval expression under concrete values of its symbols, with Java's integer semantics"""
    if isinstance(e, sym.Cond):
        op = e.op
        if op in ("true", "false"):
            return op == "true"
        if op == "and":
            return all(jconc(a, vals) for a in e.args)
        if op == "or":
            return any(jconc(a, vals) for a in e.args)
        if op == "not":
            return not jconc(e.args[0], vals)
        if op in ("eq", "ne", "lt", "le", "gt", "ge"):
            a, b = jconc(e.args[0], vals), jconc(e.args[1], vals)
            return {"eq": a == b, "ne": a != b, "lt": a < b, "le": a <= b, "gt": a > b, "ge": a >= b}[op]
        raise Unknown(op)
    if not isinstance(e, sym.E):
        raise Unknown(type(e).__name__)
    op = e.op
    if op == "const":
        return e.args[0]
    if op == "sym":
        if e.args[0] not in vals:
            raise Unknown(e.args[0])
        return vals[e.args[0]]
    if op == "sext":
        return jconc(e.args[0], vals)
    nb = javaeval.BITS.get(e.ty)
    if op == "cast":
        v = jconc(e.args[0], vals)
        return _wrap(v, nb) if nb and e.ty != "bool" else v
    if op == "ite":
        return jconc(e.args[1], vals) if jconc(e.args[0], vals) else jconc(e.args[2], vals)
    if op in ("add", "sub", "mul", "and", "or", "xor", "shl", "shr", "div", "rem"):
        a, b = jconc(e.args[0], vals), jconc(e.args[1], vals)
        nb = nb or 32
        if op == "shl":
            v = a << (b & (nb - 1))
        elif op == "shr":
            v = (a & ((1 << nb) - 1)) >> (b & (nb - 1))
        elif op == "div":
            if b == 0:
                raise Unknown("div0")
            v = abs(a) // abs(b) * (1 if (a < 0) == (b < 0) else -1)
        elif op == "rem":
            if b == 0:
                raise Unknown("div0")
            v = abs(a) % abs(b) * (1 if a >= 0 else -1)
        else:
            v = {"add": a + b, "sub": a - b, "mul": a * b, "and": a & b, "or": a | b, "xor": a ^ b}[op]
        return _wrap(v, nb)
    raise Unknown(op)


def _syms(e, out):
    if isinstance(e, sym.Cond):
        for a in e.args:
            _syms(a, out)
    elif isinstance(e, sym.E):
        if e.op == "sym":
            out.add(e.args[0])
        else:
            for a in e.args:
                if isinstance(a, (sym.E, sym.Cond)):
                    _syms(a, out)
    return out


def check_dispatch(rep, jm, r, decl, c, ev, where, stats):
    """(d) the if-chain that hands the payload to a child's fromPayload is evaluated -- first match, Java integer
    semantics, on concrete header values composed through the parser's own (already compared) bit layout -- on every cell of
    the partition induced by the children's constraint values and static sizes, and compared with the reference
    selection.  A Java parent always takes the payload length into account, so the reference does too: a child whose own
    part has a static size is a candidate only for that length; the fallback child stands for `no child`."""
    import itertools
    from . import c06
    by_class = {}
    for k in r.children(decl):
        # children the Java backend was not asked to generate (outside its supported constructs) are not subjects
        cn = next((n for n in jm.classes if "." not in n and javaeval.camel(n) == javaeval.camel(k)), None)
        if cn is not None:
            by_class[cn] = k
    kids = list(by_class.values())
    cls_of = {k: cn for cn, k in by_class.items()}
    chain = list(ev.dispatch)
    if not kids and not chain:
        return
    fallback = "Unknown" + c["name"]
    for cond, cls in chain:
        if cls != fallback and cls not in by_class:
            rep.add("C19|java|dispatch|unknown-child", f"{c['name']} hands its payload to {cls}, which is not a direct child "
                    f"of {decl}", where)
            return
    fields = c06.data_fields(r, decl)
    cases = []
    for x in kids:
        cs = {k: v for k, v in r.decls[x].constraints.items() if k in fields}
        cases.append((x, x, cs, c06.size_class(r, x)))
    reach = {cls for _c, cls in chain}
    for (x, _d, cs, sz) in cases:
        if (cs or sz[0] == "static") and cls_of[x] not in reach:
            rep.add("C19|java|dispatch|child-never-selected", f"{c['name']} never hands its payload to {x}, whose constraints "
                    f"or static size select it", where)
            return
    # partition
    dom = {}
    for (x, _d, cs, sz) in cases:
        for k, v in cs.items():
            dom.setdefault(k, {c06.OTHER}).add(v)
    lens = {0}
    for (x, _d, cs, sz) in cases:
        if sz[0] == "static":
            lens.add(sz[1])
    lens.add(max(lens) + 3)

    def concrete(k, v):
        f = fields[k]
        enum = f.type if f.type in r.enums else None
        if v is not c06.OTHER and v != c06.OTHER:
            return r.tag_value(enum, v) if isinstance(v, str) else v
        used = {concrete(k, u) for u in dom[k] if u != c06.OTHER}
        w = r.field_width(f) or 8
        for cand in range(min(1 << w, 4096)):
            if cand not in used:
                return cand
        return None
    # what the parser reads: chunks before the payload
    pre, static_prefix, tail = [], 0, None
    for it in ev.items:
        if it["k"] == "payload":
            tail = it["shape"].get("tail", 0) if it["shape"].get("k") == "rest" else 0
            break
        pre.append(it)
        if static_prefix is None:
            continue
        if it["k"] == "chunk":
            static_prefix += it["n"]
        elif it["k"] == "array" and (it.get("shape") or {}).get("k") in ("count", "size"):
            pass        # count and size fields are given the value 0 below: the array is empty
        elif it["k"] == "array" and (it.get("shape") or {}).get("k") == "static" and it.get("elem_bytes") is not None:
            static_prefix += it["shape"]["n"] * it["elem_bytes"]
        elif it["k"] == "typedef" and it.get("static") is not None:
            static_prefix += it["static"] // 8
        else:
            static_prefix = None
    wanted = set()
    for cond, _cls in chain:
        if cond is not None:
            _syms(cond, wanted)
    keys = sorted(dom)
    n_cells = undecided = 0
    for combo in itertools.islice(itertools.product(*[sorted(dom[k], key=str) for k in keys]), 4000):
        assign = dict(zip(keys, combo))
        conc = {k: concrete(k, v) for k, v in assign.items()}
        if any(v is None for v in conc.values()):
            continue
        for L in sorted(lens):
            vals = {}
            for it in pre:
                if it["k"] != "chunk" or it.get("sym") is None:
                    continue
                v = 0
                for i, b in enumerate(it["bits"]):
                    bit = 0
                    if isinstance(b, tuple) and b:
                        if b[0] == "f" and b[1] in conc:
                            bit = (conc[b[1]] >> b[2]) & 1
                        elif b[0] == "f" and b[1] in wanted_fields(r, decl, fields):
                            bit = 0
                        elif b[0] == "size" and b[1] in ("_payload_", "_body_"):
                            bit = ((L + (b[2] or 0)) >> b[3]) & 1
                        elif b[0] == "fixed":
                            bit = b[1] or 0
                    v |= bit << i
                vals[it["sym"].args[0]] = _wrap(v, it["n"] * 8)
            if static_prefix is not None and ev.input is not None and isinstance(ev.input.total, sym.E) \
                    and ev.input.total.op == "sym":
                vals[ev.input.total.args[0]] = static_prefix + L + (tail or 0)
            got = None
            try:
                for cond, cls in chain:
                    if cond is None or jconc(cond, vals):
                        got = cls
                        break
            except Unknown:
                undecided += 1
                continue
            n_cells += 1
            got_x = None if got in (None, fallback) else by_class[got]
            strong, weak = c06.ref_expected(cases, assign, L, True)
            ok = (got_x in strong) if strong else (got_x is None or got_x in weak)
            if not ok:
                cause = ""
                if got_x is None and all(not cs_ and sz_[0] != "static" for (x_, _d, cs_, sz_) in cases if x_ in strong):
                    cause = "|unconstrained-dynamic-child"
                rep.add("C19|java|dispatch|wrong-child" + ("|fallback-for-matching" if got_x is None else "") + cause,
                        f"{c['name']} dispatches to {got_x or 'the fallback child'} for {assign} with a payload of {L} octets; "
                        f"the reference selects {sorted(strong) or 'no child'}", where,
                        {"cell": {k: str(v) for k, v in assign.items()}, "len": L, "generated": got_x, "reference": sorted(strong)})
                stats["dispatch"] += n_cells
                return
    stats["dispatch"] += n_cells
    stats["dispatch_undecided"] += undecided
    if chain and kids and n_cells == 0:
        rep.notes.append(f"{where}: no cell of {c['name']}'s child dispatch could be evaluated (dynamic fields before the payload)")
        stats["dispatch_unevaluated"] += 1


def wanted_fields(r, decl, fields):
    return fields


def check_enum(rep, name, jm, r, en, c, stats):
    """(g) the enum class: fromByte/Short/Int/Long, read as the ordered if-chain it is and evaluated with Java's integer
    semantics, maps every value of the declared width to the tag the reference table gives (a value named inside a range
    may come back as the range class: it equals the nested constant), rejects exactly the values a closed enum does not
    declare, and each constant's toX() returns its declared value"""
    where = f"{name}:{en}"
    e = r.enums[en]
    fm = next((ms[0] for mn, ms in c["methods"].items() if re.fullmatch(r"from(Byte|Short|Int|Long)", mn)), None)
    if fm is None:
        rep.add("C19|java|enum|no-converter", f"{c['name']} has no fromByte/Short/Int/Long", where)
        return
    ev = javaeval.JEval(jm, c, fm, "parse")
    ps = fm.get("params") or []
    ty = ev.jty(javaeval.ptype(fm, 0))
    if len(ps) != 1 or ty is None:
        rep.add("C19|java|enum|unmodelled", f"{c['name']}.{fm['name']} signature", where)
        return
    nb = javaeval.BITS[ty]
    ev.vars[ps[0]["name"]] = sym.sym("value", ty, -(1 << (nb - 1)), (1 << (nb - 1)) - 1)
    chain = []          # (cond | None, result)

    def result_of(st):
        if st.get("k") == "BLOCK":
            ss = st.get("stmts") or []
            if len(ss) != 1:
                return None
            st = ss[0]
        if st.get("k") == "THROW":
            return ("reject",)
        if st.get("k") == "RETURN":
            x = st["e"]
            if x.get("k") == "IDENTIFIER":
                return ("tag", x["name"], False)
            if x.get("k") == "NEW_CLASS":
                a = x.get("args") or []
                if len(a) == 1 and a[0].get("k") == "IDENTIFIER" and a[0]["name"] == ps[0]["name"]:
                    return ("tag", x["type"].get("name"), True)
            if x.get("k") == "METHOD_INVOCATION" and x["fn"].get("k") == "IDENTIFIER":
                a = x.get("args") or []
                if len(a) == 1 and a[0].get("k") == "IDENTIFIER" and a[0]["name"] == ps[0]["name"]:
                    return ("tag", x["fn"]["name"], True)
        return None
    node = fm["body"]
    ss = node.get("stmts") or []
    cur = ss[0] if len(ss) == 1 else None
    while cur is not None:
        if cur.get("k") == "IF":
            res = result_of(cur["then"])
            cnd = ev.cond(cur["cond"])
            if res is None or cnd is None:
                rep.add("C19|java|enum|unmodelled", f"{c['name']}.{fm['name']}: branch form", where)
                return
            chain.append((cnd, res))
            cur = cur.get("else")
            if cur is None:
                rep.add("C19|java|enum|unmodelled", f"{c['name']}.{fm['name']}: chain without a final else", where)
                return
        else:
            res = result_of(cur)
            if res is None:
                rep.add("C19|java|enum|unmodelled", f"{c['name']}.{fm['name']}: final branch form", where)
                return
            chain.append((None, res))
            cur = None
    if not chain:
        rep.add("C19|java|enum|unmodelled", f"{c['name']}.{fm['name']}: body form", where)
        return
    table = r.enum_table(en)
    owner = {}
    for t in e.tags:
        for s_ in t.subtags:
            owner[s_.name] = t.name
    mx = (1 << e.width) - 1
    segs, curv = [], 0
    for lo, hi, tag, carries in table:
        if curv <= lo - 1:
            segs.append((curv, lo - 1, None))
        segs.append((lo, hi, tag))
        curv = hi + 1
    if curv <= mx:
        segs.append((curv, mx, None))
    for lo, hi, tag in segs:
        for v in sorted({lo, hi, (lo + hi) // 2}):
            stats["enum_points"] += 1
            vals = {"value": _wrap(v, nb)}
            got = None
            try:
                for cnd, res in chain:
                    if cnd is None or jconc(cnd, vals):
                        got = res
                        break
            except Unknown as u:
                rep.add("C19|java|enum|unmodelled", f"{c['name']}.{fm['name']}: condition not evaluable ({u})", where)
                return
            if tag is None:
                if got != ("reject",):
                    rep.add("C19|java|enum|accepts-undeclared", f"{c['name']}.{fm['name']}({v:#x}) returns {got[1]}; {en} does not "
                            f"declare that value", where)
                    return
                continue
            if got == ("reject",):
                rep.add("C19|java|enum|rejects-declared", f"{c['name']}.{fm['name']}({v:#x}) throws; the reference gives {tag}", where)
                return
            want = {javaeval.camel(tag), javaeval.camel(owner.get(tag, tag)), tag, owner.get(tag, tag)}
            if got[1] not in want and javaeval.camel(got[1]) not in want:
                rep.add("C19|java|enum|wrong-tag", f"{c['name']}.{fm['name']}({v:#x}) returns {got[1]}; the reference gives {tag}", where)
                return
    # constants return their declared value
    for t in e.tags:
        for tg, outer in [(t, None)] + [(s_, t) for s_ in t.subtags]:
            if tg.value is None:
                continue
            cands = [cn for cn in jm.classes if cn.startswith(c["name"] + ".") and javaeval.camel(cn.split(".")[-1]) in
                     (javaeval.camel(tg.name), tg.name)]
            for cn in cands:
                k_ = jm.classes[cn]
                tm = next((ms[0] for mn, ms in k_["methods"].items() if re.fullmatch(r"to(Byte|Short|Int|Long)", mn)), None)
                lit = None
                if tm is not None:
                    st_ = (tm["body"].get("stmts") or [{}])[0]
                    x = st_.get("e") if st_.get("k") == "RETURN" else None
                    while x is not None and x.get("k") in ("TYPE_CAST", "PARENTHESIZED"):
                        x = x["e"]
                    if x is not None and x.get("k") in ("INT_LITERAL", "LONG_LITERAL"):
                        lit = int(x["v"])
                else:
                    # nested constant: `super((byte) v)` in its constructor
                    for ms in k_["methods"].get("<init>", []):
                        for x in _walk(ms):
                            if x.get("k") in ("INT_LITERAL", "LONG_LITERAL"):
                                lit = int(x["v"])
                if lit is None:
                    continue
                stats["enum_points"] += 1
                if _wrap(lit, nb) != _wrap(tg.value, nb):
                    rep.add("C19|java|enum|constant-value", f"{cn} carries {lit:#x}; {en}::{tg.name} is declared as {tg.value:#x}", where)
                    return
    stats["enums"] += 1


def _walk(n):
    if isinstance(n, dict):
        yield n
        for v in n.values():
            yield from _walk(v)
    elif isinstance(n, list):
        for v in n:
            yield from _walk(v)


def check_width(rep, jm, r, decl, c, where, stats):
    """(e) width() -- what parsers advance by and size-delimited loops count down with -- is the encoded size of the
    object: a literal equal to the reference's static size of the whole declaration (inherited fields included), or the
    sum of the own part (fieldWidth(), compared with the bytes written in (c)) and, for a child, the parent's width()"""
    f_ = width_form(jm, c)
    if f_[0] == "none":
        return
    stats["widths"] += 1
    has_parent = bool(r.decls[decl].parent)
    if f_[0] == "lit":
        try:
            want = r.total_static_bits(decl)
        except refm.RefError:
            return
        if want is None or want != f_[1] * 8:
            rep.add("C19|java|width|static", f"{c['name']}.width() returns {f_[1]}; the reference's encoded size of {decl} is "
                    f"{'not static' if want is None else str(want // 8) + ' octets'}", where)
    elif f_[0] == "own":
        if has_parent:
            rep.add("C19|java|width|inherited-part", f"{c['name']}.width() leaves out the inherited fields of {decl}", where)
    elif f_[0] == "super+own":
        if not has_parent:
            rep.add("C19|java|width|inherited-part", f"{c['name']}.width() adds super.width() but {decl} has no parent", where)
    else:
        rep.add("C19|java|width|unmodelled", f"{c['name']}.width() has an unrecognised form ({f_[1]})", where)


def check_decl(rep, name, jm, r, decl, c, stats, st):
    where = f"{name}:{decl}"
    is_child = bool(r.decls[decl].parent)
    chain = [decl] + r.parent_chain(decl)
    # ---- parse
    pm = jm.method(c, "fromPayload" if is_child else "fromBytes", lambda m: javaeval.ptype(m, 0) == "ByteBuffer")
    if pm is not None:
        ev = javaeval.JParse(jm, c, pm, st).run()
        stats["functions"] += 1
        for o in ev.obls:
            stats["obligations"] += 1
            if o.ok:
                stats["discharged"] += 1
            else:
                rep.add(key_for(o, "parse"), o.what, f"{name} {c['name']}.{pm['name']}")
        stats["undecided"] += len(ev.undecided)
        if not any(o.kind == "unmodelled" and not o.ok for o in ev.obls):
            try:
                want = [x for x in r.layout(decl) if x["k"] != "checksum_start"]
            except refm.RefError:
                want = None
            if want is not None:
                if ev.always_fails is not None:
                    rep.add("C19|java|parse|always-rejects", f"{c['name']}.{pm['name']} throws for every input", where)
                else:
                    # the Java class names are camel-cased: compare struct types modulo that
                    for it in ev.items:
                        if it["k"] == "typedef":
                            it["type"] = next((d for d in r.decls if javaeval.camel(d) == javaeval.camel(it["type"])), it["type"])
                        if it["k"] == "array" and it["elem"].get("type"):
                            it["elem"]["type"] = next((d for d in list(r.decls) + list(r.enums)
                                                       if javaeval.camel(d) == javaeval.camel(it["elem"]["type"])), it["elem"]["type"])
                    for it in ev.items:
                        if it["k"] == "chunk":
                            for i, b in enumerate(it["bits"]):
                                pass
                    names = {javaeval.camel(f.name): f.name for f in r.inlined(decl) if f.name}
                    for it in ev.items:
                        if it.get("name") and javaeval.camel(it["name"]) in names:
                            it["name"] = names[javaeval.camel(it["name"])]
                        if it["k"] == "chunk":
                            it["bits"] = [tuple(names.get(javaeval.camel(x), x) if i_ == 1 and isinstance(x, str) else x
                                                for i_, x in enumerate(b)) if isinstance(b, tuple) else b for b in it["bits"]]
                    cm = DCmp(rep, where, r, decl, ev, prop="C19")
                    cm.side = "java"
                    cm.run(want)
                    if len(SAMPLES) < 4 and ev.items:
                        SAMPLES.append({"description": name, "class": c["name"], "method": pm["name"],
                                        "reference_items": [w["k"] for w in want][:8],
                                        "parser_items": [x["k"] for x in ev.items][:8]})
                    stats["items"] += cm.n
        # (d) dispatch
        if not any(o.kind == "unmodelled" and not o.ok for o in ev.obls) and ev.always_fails is None:
            check_dispatch(rep, jm, r, decl, c, ev, where, stats)
    # the public entry point: wraps the bytes, sets the byte order, requires the whole input to be consumed
    em = jm.method(c, "fromBytes", lambda m: javaeval.ptype(m, 0) != "ByteBuffer" and m.get("params"))
    if em is not None:
        ev0 = javaeval.JParse(jm, c, em, st).run()
        stats["functions"] += 1
        for o in ev0.obls:
            if o.kind in ("byte-order", "trailing-bytes", "unmodelled"):
                stats["obligations"] += 1
                if o.ok:
                    stats["discharged"] += 1
                else:
                    rep.add(key_for(o, "entry"), o.what, f"{name} {c['name']}.fromBytes(byte[])")
    check_width(rep, jm, r, decl, c, where, stats)
    # ---- serialize
    sm = None
    if r.has_payload(decl):
        sm = jm.method(c, "toBytes", lambda m: javaeval.ptype(m, 0) == "ByteBuffer")
    if sm is None:
        sm = jm.method(c, "toBytes", lambda m: not m.get("params"))
    if sm is not None:
        try:
            own = [x for x in r.layout(decl) if x["k"] != "checksum_start"]
        except refm.RefError:
            own = None
        ref_chunks = [(it["n"], [(bf["shift"], bf["width"], bf["k"]) for bf in it["fields"]]) for it in (own or [])
                      if it["k"] == "chunk"]
        sev = javaeval.JSer(jm, c, sm, "ser", st)
        sev.ref_chunks = ref_chunks
        sev.run()
        stats["functions"] += 1
        for o in sev.obls:
            stats["obligations"] += 1
            if o.ok:
                stats["discharged"] += 1
            else:
                rep.add(key_for(o, "serialize"), o.what, f"{name} {c['name']}.toBytes")
        if own is not None and not any(not o.ok for o in sev.obls):
            for it in sev.items:
                if it["k"] == "nested" and it.get("type"):
                    it["type"] = next((d for d in r.decls if javaeval.camel(d) == javaeval.camel(it["type"])), it["type"])
                if it["k"] == "array" and isinstance(it.get("elem"), dict) and it["elem"].get("type"):
                    it["elem"]["type"] = next((d for d in r.decls if javaeval.camel(d) == javaeval.camel(it["elem"]["type"])),
                                              it["elem"]["type"])
            names = {javaeval.camel(f.name): f.name for f in r.inlined(decl) if f.name}

            def ren(b):
                if isinstance(b, tuple) and len(b) > 1 and isinstance(b[1], str) and javaeval.camel(b[1]) in names:
                    return (b[0], names[javaeval.camel(b[1])]) + tuple(b[2:])
                return b
            for it in sev.items:
                if it.get("src", "").startswith("self.") and javaeval.camel(it["src"][5:]) in names:
                    it["src"] = "self." + names[javaeval.camel(it["src"][5:])]
                if it["k"] == "chunk":
                    it["bits"] = [ren(b) for b in it["bits"]]
                    it["his"] = {ren(k_): v_ for k_, v_ in (it.get("his") or {}).items()}
                if it["k"] == "array" and isinstance(it.get("elem"), dict) and it["elem"].get("k") == "chunk":
                    it["elem"]["bits"] = [ren(b) for b in it["elem"]["bits"]]
            cm = Cmp(rep, "C19", where, r, r.big, decl, side="javaser")
            cm.len_semantics = True
            cm.run(own, sev.items, sev.env)
            stats["items"] += cm.n
            stats["serializers"] += 1
            if is_child and not sev.to_parent:
                rep.add("C19|java|serialize|child-shape", f"{c['name']}.toBytes does not hand its bytes to super.toBytes", where)
            # fieldWidth() == bytes written (payload excluded)
            fw = jm.method(c, "fieldWidth")
            if fw is not None:
                wev = javaeval.JSer(jm, c, fw, "width", st).run()
                v = wev.size_value
                if isinstance(v, sym.E) and not any(not o.ok for o in wev.obls):
                    wrote = {}
                    for it in sev.items:
                        if it["k"] == "bytes":
                            continue
                        wrote = sym.p_add(wrote, rslayout.item_bytes(it, sev.env))
                    got = wev.env.poly(v)
                    stats["sizes"] += 1
                    subst, scale = {}, {}
                    for it_ in own:
                        if it_["k"] == "array" and it_["shape"]["k"] == "static":
                            subst[f"len(self.{it_['name']})"] = it_["shape"]["n"]
                        if it_["k"] == "array" and it_.get("elem_bytes") is not None and it_["elem"]["k"] == "struct":
                            scale[f"sum_encoded_len(self.{it_['name']})"] = (f"len(self.{it_['name']})", it_["elem_bytes"])
                        if it_["k"] == "typedef" and it_["tk"] == "struct" and it_.get("static") is not None:
                            subst[f"encoded_len(self.{it_['name']})"] = it_["static"] // 8

                    def ap(p):
                        out = {}
                        for mono, cf in p.items():
                            k2, m2 = 1, []
                            mono = list(mono)
                            for i_, a in enumerate(mono):
                                a = re.sub(r"self\.(\w+)", lambda mm: "self." + names.get(javaeval.camel(mm.group(1)), mm.group(1)), a)
                                if a in scale:
                                    k2 *= scale[a][1]
                                    a = scale[a][0]
                                mono[i_] = a
                            for a in mono:
                                if a in subst:
                                    k2 *= subst[a]
                                else:
                                    m2.append(a)
                            key = tuple(sorted(m2))
                            out[key] = out.get(key, 0) + cf * k2
                        return {k: v_ for k, v_ in out.items() if v_ != 0}
                    if ap(wrote) != ap(got):
                        rep.add("C19|java|width|bytes-written", f"{c['name']}.fieldWidth() = {sym.p_str(ap(got))}, toBytes writes "
                                f"{sym.p_str(ap(wrote))}", where)


def run(rep, tier, seed):
    del SAMPLES[:]
    g = rc.gen(tier, seed)
    d, idx = stages.stage_java(tier, seed)
    stats = {"modules": 0, "functions": 0, "obligations": 0, "discharged": 0, "items": 0, "undecided": 0, "helpers": 0,
             "serializers": 0, "sizes": 0, "widths": 0, "dispatch": 0, "dispatch_undecided": 0, "dispatch_unevaluated": 0, "enums": 0, "enum_points": 0, "skipped_modules": 0, "classes": 0}
    for name in sorted(idx):
        info = idx[name]
        if info["rc"] != 0:
            stats["skipped_modules"] += 1
            continue
        jm = javaeval.JModule(os.path.join(d, name))
        bad_files = {e["file"].replace(".java", "") for e in info["errors"]}
        stats["modules"] += 1
        r = rc.model_ref(g, name)
        if r is not None:
            jm.big = r.big
        # (a) helpers
        u = jm.classes.get("Utils")
        if u is not None and "Utils" not in bad_files:
            for mn, ms in u["methods"].items():
                m = re.fullmatch(r"(get|put)(\d+)", mn)
                if not m:
                    continue
                ev = javaeval.JHelper(jm, u, ms[0]).run()
                stats["helpers"] += 1
                big = r.big if r is not None else bool(jm.big)
                probs = ev.verdict(int(m.group(2)) // 8, big) + [o.what for o in ev.obls if not o.ok]
                for pr in probs[:1]:
                    rep.add(f"C19|java|helper|{m.group(1)}|{'big' if big else 'little'}",
                            f"Utils.{mn} ({'big' if big else 'little'}-endian module): {pr}", f"{name} Utils.{mn}")
        if r is None:
            continue
        for en in r.enums:
            ec = next((jm.classes[cn] for cn in jm.classes if "." not in cn and javaeval.camel(cn) == javaeval.camel(en)), None)
            if ec is None or ec["name"] in bad_files:
                continue
            try:
                check_enum(rep, name, jm, r, en, ec, stats)
            except Exception as ex:
                import traceback
                rep.add("C19|evaluator-crashed", f"{type(ex).__name__}: {ex} ({traceback.format_exc().splitlines()[-3].strip()})",
                        f"{name}:{en}")
        # value classes are compared with equals(): range and default tags are allocated per value, a parsed object is
        # never the builder's instance -- `==` between two objects of generated classes is a reference comparison
        for cn, kc in jm.classes.items():
            if cn.split(".")[0] in bad_files:
                continue
            for mn, ms in kc["methods"].items():
                for m_ in ms:
                    for x in _walk(m_.get("body")):
                        if x.get("k") in ("EQUAL_TO", "NOT_EQUAL_TO"):
                            ta, tb = str(x["a"].get("t") or ""), str(x["b"].get("t") or "")
                            stats["ref_eq_sites"] = stats.get("ref_eq_sites", 0) + 1
                            if ta.startswith("p.") and tb.startswith("p.") and \
                                    not any(y.get("k") == "IDENTIFIER" and y.get("name") == "this" for y in (x["a"], x["b"])):
                                rep.add("C19|java|equals|reference-equality", f"{cn}.{mn} compares two {ta.split('.')[-1]} "
                                        f"objects with {'==' if x['k'] == 'EQUAL_TO' else '!='}: equal values held by different "
                                        f"instances (range tags, parsed objects) compare unequal", f"{name} {cn}.{mn}")
        # equals() of a class that has subclasses in the module (a range tag with named sub-tags is a sealed class whose
        # constants are subclasses; the parser always allocates the range class itself) must not be class-strict:
        # `getClass() != o.getClass()` makes the named constant unequal to the parsed object of the same value
        supers = set()
        for cn, kc in jm.classes.items():
            ex = kc.get("extends")
            if ex:
                supers.add(str(ex).split(".")[-1].split("<")[0])

        def _is_getclass(y):
            while isinstance(y, dict) and y.get("k") == "PARENTHESIZED":
                y = y.get("e")
            return isinstance(y, dict) and y.get("k") == "METHOD_INVOCATION" and \
                ((y["fn"].get("name") == "getClass") or (y["fn"].get("k") == "IDENTIFIER" and y["fn"].get("name") == "getClass"))
        for cn, kc in jm.classes.items():
            if cn.split(".")[0] in bad_files or cn.split(".")[-1] not in supers:
                continue
            for m_ in kc["methods"].get("equals", []):
                stats["equals_of_superclasses"] = stats.get("equals_of_superclasses", 0) + 1
                for x in _walk(m_.get("body")):
                    if x.get("k") in ("EQUAL_TO", "NOT_EQUAL_TO") and _is_getclass(x.get("a")) and _is_getclass(x.get("b")):
                        rep.add("C19|java|equals|class-strict-with-subclasses", f"{cn}.equals compares getClass(): {cn} has subclasses "
                                f"in the generated module (named constants of a range tag) while parsers allocate {cn} itself, so a "
                                f"value built from the named constant never equals the object parsed from its own encoding",
                                f"{name} {cn}.equals")
        st = statics_of(jm)
        excl = set((g.entry(name).get("opts") or {}).get("exclude", {}).get("java", []))
        for decl, dd in r.decls.items():
            if dd.kind not in ("packet", "struct") or decl in excl:
                continue
            c = jm.by_decl(decl)
            if c is None or c["name"] in bad_files:
                continue
            stats["classes"] += 1
            try:
                check_decl(rep, name, jm, r, decl, c, stats, st)
            except Exception as e:
                import traceback
                rep.add("C19|evaluator-crashed", f"{type(e).__name__}: {e} ({traceback.format_exc().splitlines()[-3].strip()})",
                        f"{name}:{decl}")
    rep.coverage.update({
        "programs": stats["functions"], "disagreements_checked": stats["items"] + stats["obligations"] + stats["helpers"],
        **stats, "samples": SAMPLES[:4],
        "explanation": "javac syntax trees of every emitted Java class: helpers bit by bit, parsers vs the reference layout "
                       "with sign-extension obligations, serializers vs the reference layout, fieldWidth vs bytes written, width() forms, "
                       "child dispatch chains evaluated per cell against the reference selection",
    })
    rep.assumptions += ["exceptions (BufferUnderflow, IllegalArgument, NegativeArraySize, Arithmetic) are rejections, which the "
                        "property allows; only wrong objects and wrongly rejected valid encodings are violations",
                        "classes in files javac reports errors for are skipped (reported by C10's javac witness)"]
    if stats["functions"] < 1000 or stats["dispatch"] < 400 or stats["widths"] < 500:
        rep.add("C19|coverage-floor", f"only {stats['functions']} functions / {stats['dispatch']} dispatch cells / "
                f"{stats['widths']} width() bodies evaluated (floors 1000 / 400 / 500)", "corpus")
