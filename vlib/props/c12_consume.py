"""C12 (f) — consumption conformance of the converters in parser.rs.

Every converter (the arms of parse_toplevel and parse_field, parse_constraint, parse_enum_*, ...) turns the children of
one pest pair into one AST node.  The converters are *interpreted abstractly* here, over their syn syntax trees, on every
child sequence the grammar production of that pair can produce (optional parts present and absent, every alternative,
repetitions 0/1/2): children are abstract nodes that carry only their rule; `next`, `next_if`, `peek`, `map`, `collect`,
`?`, `match`/`if let` on Option/Result/Rule values are given their Rust meaning; helper functions that take the iterator
are inlined; a call that hands a child node to another converter is recorded (that converter is interpreted on its own
production) and assumed to succeed.

For every grammar-valid child sequence the converter must
  * not return Err and not reach unreachable!/panic!/unwrap-on-None  (a valid source would be rejected / crash),
  * hand every child to a converter whose own rule guard accepts it,
  * leave no child unconsumed: a child that is never taken from the iterator is source text the AST silently drops.
Conditions on data the abstraction does not carry (integer values, strings) are explored both ways.  Anything outside the
modelled idioms is reported (`unmodelled`), never skipped."""
import itertools

from .. import synq

MAXPATHS = 4000


# ------------------------------------------------------------------ values
class Node:
    def __init__(self, rule):
        self.rule, self.kids = rule, None


class Iter:
    def __init__(self, items, owner=None):
        self.items, self.pos, self.owner = items, 0, owner


class MapIter:
    def __init__(self, it, clo):
        self.it, self.clo = it, clo


class Some:
    def __init__(self, v):
        self.v = v


class Ok:
    def __init__(self, v):
        self.v = v


class _Tag:
    def __init__(self, n):
        self.n = n

    def __repr__(self):
        return self.n


NONE, ERR, OPQ, UNIT = _Tag("None"), _Tag("Err"), _Tag("opaque"), _Tag("()")


class RuleV:
    def __init__(self, r):
        self.r = r


class BoolV:
    def __init__(self, b):
        self.b = b


class TupleV:
    def __init__(self, es):
        self.es = es


class Closure:
    def __init__(self, params, body, env):
        self.params, self.body, self.env = params, body, env


class ReturnSig(Exception):
    def __init__(self, v):
        self.v = v


class PanicSig(Exception):
    def __init__(self, why):
        self.why = why


class Unmodelled(Exception):
    pass


class BreakSig(Exception):
    pass


class ContinueSig(Exception):
    pass


class Oracle:
    """replays a vector of choices; new choice points take option 0 and are recorded for backtracking"""

    def __init__(self, prefix):
        self.prefix, self.trace = list(prefix), []

    def choose(self, n, what=""):
        i = len(self.trace)
        c = self.prefix[i] if i < len(self.prefix) else 0
        self.trace.append((c, n, what))
        return c


# ------------------------------------------------------------------ grammar
def expansions(expr, cap=64):
    k = expr[0]
    if k == "str":
        return [[]]
    if k == "ref":
        if expr[1] in ("WHITESPACE", "COMMENT", "SOI"):
            return [[]]
        return [[expr[1]]]
    if k == "opt":
        return [[]] + [x for x in expansions(expr[1], cap) if x]
    if k == "rep":
        one = [x for x in expansions(expr[1], cap) if x]
        out = [[]] + one + ([one[0] + one[-1]] if one else [])     # none, one of each kind, and one pair
        return out[:cap]
    if k == "alt":
        out = []
        for a in expr[1]:
            out += expansions(a, cap)
        return out[:cap]
    if k == "seq":
        outs = [[]]
        for a in expr[1]:
            ex = expansions(a, cap)
            outs = [x + y for x in outs for y in ex][:cap * 4]
        return outs
    if k in ("not", "and", "peek"):
        return [[]]
    return [[]]


# ------------------------------------------------------------------ interpreter
class Interp:
    def __init__(self, fns, rules, oracle):
        self.fns, self.rules, self.oracle = fns, rules, oracle
        self.iters = []             # every iterator opened over a node's children
        self.handoffs = []          # (rule, converter function)
        self.bad_handoffs = []
        self.depth = 0

    # -- helpers
    def kids_of(self, node):
        if node.kids is None:
            r = self.rules.get(node.rule)
            ex = expansions(r["expr"]) if r else [[]]
            # de-duplicate
            seen, uniq = set(), []
            for e in ex:
                t = tuple(e)
                if t not in seen:
                    seen.add(t)
                    uniq.append(e)
            c = self.oracle.choose(len(uniq), f"children of {node.rule}") if len(uniq) > 1 else 0
            node.kids = [Node(x) for x in uniq[c]]
            node.choice = uniq[c]
        return node.kids

    def is_converter(self, f):
        ps = f.get("params") or []
        if not ps:
            return False
        p0 = ps[0]
        ty = (p0.get("ty") or "") if isinstance(p0, dict) else ""
        return ty.replace(" ", "").startswith("Node<")

    def guard_rule(self, f):
        """Rule::X of `if node.as_rule() != Rule::X { err } else {..}` at the head of a converter"""
        body = f.get("body") or []
        for st in body if isinstance(body, list) else []:
            e = st.get("e") if st.get("k") == "ExprStmt" else st
            if isinstance(e, dict) and e.get("k") == "If":
                c = e["cond"]
                if c.get("k") == "Binary" and c["op"] == "!=" and c["rhs"].get("k") == "Path" and c["rhs"]["path"]["s"].startswith("Rule::"):
                    return c["rhs"]["path"]["s"][6:]
        return None

    # -- patterns
    def match_pat(self, p, v, env):
        """True / False / None (undecidable)"""
        k = p.get("k")
        if k == "PWild":
            return True
        if k == "PIdent":
            if p["id"] == "None" and not p.get("mut"):
                return v is NONE if v is not OPQ else None
            env[p["id"]] = v
            return True
        if k == "PType":
            return self.match_pat(p["pat"], v, env)
        if k == "PPath":
            s = p["path"]["s"]
            if s == "None":
                return (v is NONE) if v is not OPQ else None
            if s.startswith("Rule::"):
                if isinstance(v, RuleV):
                    return v.r == s[6:]
                return None
            return None
        if k == "PTupleStruct":
            s = p["path"]["s"]
            if s == "Some":
                if isinstance(v, Some):
                    return self.match_pat(p["elems"][0], v.v, env)
                if v is NONE:
                    return False
                if v is OPQ:
                    self.match_pat(p["elems"][0], OPQ, env)
                    return None
                return False
            if s == "Ok":
                if isinstance(v, Ok):
                    return self.match_pat(p["elems"][0], v.v, env)
                if v is ERR:
                    return False
                if v is OPQ:
                    self.match_pat(p["elems"][0], OPQ, env)
                    return None
                return False
            if s == "Err":
                if v is ERR:
                    for e in p["elems"]:
                        self.match_pat(e, OPQ, env)
                    return True
                if isinstance(v, Ok):
                    return False
                return None if v is OPQ else False
            for e in p["elems"]:
                self.match_pat(e, OPQ, env)
            return None
        if k == "PTuple":
            if isinstance(v, TupleV) and len(v.es) == len(p["elems"]):
                res = True
                for e, x in zip(p["elems"], v.es):
                    r = self.match_pat(e, x, env)
                    if r is False:
                        return False
                    if r is None:
                        res = None
                return res
            for e in p["elems"]:
                self.match_pat(e, OPQ, env)
            return True if v is OPQ else None
        if k == "PStruct":
            for f in p.get("fields") or []:
                if isinstance(f, dict) and "pat" in f:
                    self.match_pat(f["pat"], OPQ, env)
            return None
        if k == "PLit":
            return None
        raise Unmodelled(f"pattern {k}")

    # -- statements / expressions
    def block(self, stmts, env):
        env = dict(env)
        val = UNIT
        for st in stmts:
            k = st.get("k")
            if k == "Let":
                init = st.get("init")
                v = self.ev(init, env) if init is not None else OPQ
                r = self.match_pat(st["pat"], v, env)
                if r is False:
                    raise Unmodelled("refutable let")
                val = UNIT
            elif k == "ExprStmt":
                v = self.ev(st["e"], env)
                val = UNIT if st.get("semi") else v
            elif k in ("Fn", "Item", "Use", "Const"):
                val = UNIT
            else:
                val = self.ev(st, env)
        self._env_out = env
        return val

    def call_closure(self, clo, args):
        if not isinstance(clo, Closure):
            return OPQ
        env = dict(clo.env)
        for p, a in zip(clo.params, args):
            self.match_pat(p, a, env)
        return self.ev(clo.body, env)

    def call_fn(self, name, f, args):
        self.depth += 1
        if self.depth > 40:
            raise Unmodelled("recursion")
        try:
            env = {}
            for p, a in zip(f.get("params") or [], args):
                pat = p.get("pat") if isinstance(p, dict) else None
                if pat is not None:
                    self.match_pat(pat, a, env)
                elif isinstance(p, dict) and p.get("name"):
                    env[p["name"]] = a
            body = f.get("body") or []
            try:
                return self.block(body if isinstance(body, list) else body.get("stmts", []), env)
            except ReturnSig as r:
                return r.v
        finally:
            self.depth -= 1

    def truth(self, v, what):
        if isinstance(v, BoolV):
            return v.b
        return self.oracle.choose(2, what) == 0

    def ev(self, e, env):
        if isinstance(e, list):
            return self.block(e, env)
        k = e.get("k")
        m = getattr(self, "e_" + k, None)
        if m is None:
            raise Unmodelled(f"expression {k}")
        return m(e, env)

    def e_Paren(self, e, env):
        return self.ev(e["e"], env)

    def e_Block(self, e, env):
        return self.block(e["stmts"], env)

    def e_ExprStmt(self, e, env):
        return self.ev(e["e"], env)

    def e_Lit(self, e, env):
        if e.get("ty") == "bool":
            return BoolV(str(e.get("v")).lower() == "true")
        return OPQ

    def e_Path(self, e, env):
        s = e["path"]["s"]
        if s in env:
            return env[s]
        if s.startswith("Rule::"):
            return RuleV(s[6:])
        if s == "None":
            return NONE
        return OPQ

    def e_Ref(self, e, env):
        return self.ev(e["e"], env)

    def e_Cast(self, e, env):
        self.ev(e["e"], env)
        return OPQ

    def e_Field(self, e, env):
        b = self.ev(e["base"], env)
        if isinstance(b, TupleV) and str(e.get("member")).isdigit() and int(e["member"]) < len(b.es):
            return b.es[int(e["member"])]
        return OPQ

    def e_Tuple(self, e, env):
        return TupleV([self.ev(x, env) for x in e["elems"]])

    def e_Range(self, e, env):
        for x in (e.get("lo"), e.get("hi")):
            if x:
                self.ev(x, env)
        return OPQ

    def e_Struct(self, e, env):
        for f in e.get("fields") or []:
            if isinstance(f, dict) and isinstance(f.get("e") or f.get("expr") or f.get("value"), dict):
                self.ev(f.get("e") or f.get("expr") or f.get("value"), env)
        return OPQ

    def e_Closure(self, e, env):
        return Closure(e.get("params") or [], e["body"], env)

    def e_Assign(self, e, env):
        self.ev(e["rhs"], env)
        return UNIT

    def e_Return(self, e, env):
        raise ReturnSig(self.ev(e["e"], env) if e.get("e") else UNIT)

    def e_Try(self, e, env):
        v = self.ev(e["e"], env)
        if isinstance(v, Ok) or isinstance(v, Some):
            return v.v
        if v is ERR or v is NONE:
            raise ReturnSig(v)
        return OPQ

    def e_Macro(self, e, env):
        nm = e["path"] if isinstance(e["path"], str) else e["path"].get("s")
        if nm in ("unreachable", "panic", "todo", "unimplemented"):
            raise PanicSig(nm + "!")
        for a in e.get("args") or []:
            if isinstance(a, dict) and a.get("k"):
                try:
                    self.ev(a, env)
                except Unmodelled:
                    pass
        return OPQ

    def e_Binary(self, e, env):
        op = e["op"]
        a = self.ev(e["lhs"], env)
        if op in ("&&", "||"):
            if isinstance(a, BoolV):
                if (op == "&&" and not a.b) or (op == "||" and a.b):
                    return a
                return self.ev(e["rhs"], env)
            b = self.ev(e["rhs"], env)
            return OPQ
        b = self.ev(e["rhs"], env)
        if op in ("==", "!=") and isinstance(a, RuleV) and isinstance(b, RuleV):
            return BoolV((a.r == b.r) == (op == "=="))
        return OPQ

    def e_If(self, e, env):
        c = e["cond"]
        if c.get("k") == "LetCond":
            v = self.ev(c["e"], env)
            env2 = dict(env)
            r = self.match_pat(c["pat"], v, env2)
            if r is None:
                r = self.oracle.choose(2, "if let") == 0
            if r:
                return self.ev(e["then"], env2)
            return self.ev(e["else"], env) if e.get("else") else UNIT
        t = self.truth(self.ev(c, env), "if")
        if t:
            return self.ev(e["then"], env)
        return self.ev(e["else"], env) if e.get("else") else UNIT

    def e_Match(self, e, env):
        v = self.ev(e["e"], env)
        undecided = []
        for arm in e["arms"]:
            env2 = dict(env)
            r = self.match_pat(arm["pat"], v, env2)
            if r is False:
                continue
            g = arm.get("guard")
            gv = True
            if g is not None:
                gval = self.ev(g, env2)
                gv = gval.b if isinstance(gval, BoolV) else None
            if r is True and gv is True:
                if not undecided:
                    return self.ev(arm["body"], env2)
                undecided.append((arm, env2))
                break
            if gv is False:
                continue
            undecided.append((arm, env2))
        if not undecided:
            raise PanicSig("no match arm applies")
        c = self.oracle.choose(len(undecided), "match") if len(undecided) > 1 else 0
        arm, env2 = undecided[c]
        return self.ev(arm["body"], env2)

    def e_For(self, e, env):
        it = self.ev(e["iter"], env)
        if isinstance(it, (Iter, MapIter)):
            while True:
                x = self.next_of(it)
                if x is NONE:
                    break
                env2 = dict(env)
                self.match_pat(e["pat"], x.v, env2)
                try:
                    self.ev(e["body"], env2)
                except BreakSig:
                    break
                except ContinueSig:
                    continue
        return UNIT

    def _loop(self, cond, body, env):
        for _round in range(64):
            if cond is not None:
                if cond.get("k") == "LetCond":
                    v = self.ev(cond["e"], env)
                    env2 = dict(env)
                    r = self.match_pat(cond["pat"], v, env2)
                    if r is None:
                        r = self.oracle.choose(2, "while let") == 0
                    if not r:
                        return UNIT
                else:
                    env2 = env
                    if not self.truth(self.ev(cond, env), "while"):
                        return UNIT
            else:
                env2 = env
            try:
                self.ev(body, env2)
            except BreakSig:
                return UNIT
            except ContinueSig:
                continue
        raise Unmodelled("loop does not terminate on an abstract input")

    def e_While(self, e, env):
        return self._loop(e["cond"], e["body"], env)

    def e_Loop(self, e, env):
        return self._loop(None, e["body"], env)

    def e_Break(self, e, env):
        if e.get("e"):
            self.ev(e["e"], env)
        raise BreakSig()

    def e_Continue(self, e, env):
        raise ContinueSig()

    def e_Unary(self, e, env):
        v = self.ev(e["e"], env)
        if e.get("op") == "!" and isinstance(v, BoolV):
            return BoolV(not v.b)
        if e.get("op") in ("*", "&"):
            return v
        return OPQ

    def e_Index(self, e, env):
        self.ev(e["base"], env)
        self.ev(e["index"], env)
        return OPQ

    def e_Unsafe(self, e, env):
        return self.block(e["stmts"], env)

    def e_Verbatim(self, e, env):
        return OPQ

    def next_of(self, it):
        if isinstance(it, MapIter):
            x = self.next_of(it.it)
            if x is NONE:
                return NONE
            return Some(self.call_closure(it.clo, [x.v]))
        if it.pos < len(it.items):
            it.pos += 1
            return Some(it.items[it.pos - 1])
        return NONE

    def e_Call(self, e, env):
        fn = e["func"]
        args = [self.ev(a, env) for a in e["args"]]
        if fn.get("k") != "Path":
            self.ev(fn, env)
            return OPQ
        s = fn["path"]["s"]
        if s in env and isinstance(env[s], Closure):
            return self.call_closure(env[s], args)
        if s == "Ok":
            return Ok(args[0] if args else UNIT)
        if s == "Some":
            return Some(args[0] if args else UNIT)
        if s == "Err":
            return ERR
        f = self.fns.get(s)
        if f is not None:
            if self.is_converter(f) and args and isinstance(args[0], Node) and self.depth > 0 or \
                    (f is not None and self.is_converter(f) and args and isinstance(args[0], Node) and s != self.entry_fn):
                node = args[0]
                g = self.guard_rule(f)
                if g is not None and g != node.rule:
                    self.bad_handoffs.append((node.rule, s, g))
                    return ERR
                self.handoffs.append((node.rule, s))
                return Ok(OPQ)
            return self.call_fn(s, f, args)
        return OPQ

    def e_MethodCall(self, e, env):
        r = self.ev(e["recv"], env)
        m = e["method"]
        argn = e["args"]

        def args():
            return [self.ev(a, env) for a in argn]
        if isinstance(r, Node):
            if m in ("children", "into_inner"):
                it = Iter(list(self.kids_of(r)), r)
                self.iters.append(it)
                return it
            if m == "as_rule":
                return RuleV(r.rule)
            if m == "clone":
                return r
            if m == "as_usize":
                return Ok(OPQ)
            args()
            return OPQ
        if isinstance(r, Iter) or isinstance(r, MapIter):
            if m == "next":
                return self.next_of(r)
            if m in ("filter", "peekable", "by_ref", "into_iter", "iter"):
                args()
                return r
            if m == "peek" and isinstance(r, Iter):
                return Some(r.items[r.pos]) if r.pos < len(r.items) else NONE
            if m == "next_if" and isinstance(r, Iter):
                a = args()
                if r.pos >= len(r.items):
                    return NONE
                t = self.truth(self.call_closure(a[0], [r.items[r.pos]]), "next_if")
                if t:
                    r.pos += 1
                    return Some(r.items[r.pos - 1])
                return NONE
            if m == "map":
                return MapIter(r, args()[0])
            if m in ("collect", "count", "last", "for_each"):
                a = args()
                res = []
                while True:
                    x = self.next_of(r)
                    if x is NONE:
                        break
                    res.append(x.v if m != "for_each" else self.call_closure(a[0], [x.v]))
                if any(x is ERR for x in res):
                    return ERR
                if res and all(isinstance(x, Ok) for x in res):
                    return Ok(OPQ)
                return OPQ
            raise Unmodelled(f"iterator method {m}")
        if isinstance(r, Some) or r is NONE:
            a = args()
            if m == "map":
                return Some(self.call_closure(a[0], [r.v])) if isinstance(r, Some) else NONE
            if m == "and_then":
                return self.call_closure(a[0], [r.v]) if isinstance(r, Some) else NONE
            if m == "map_or":
                return self.call_closure(a[1], [r.v]) if isinstance(r, Some) else a[0]
            if m == "map_or_else":
                return self.call_closure(a[1], [r.v]) if isinstance(r, Some) else self.call_closure(a[0], [])
            if m == "transpose":
                if r is NONE:
                    return Ok(NONE)
                if isinstance(r.v, Ok):
                    return Ok(Some(r.v.v))
                if r.v is ERR:
                    return ERR
                return OPQ
            if m in ("unwrap", "expect"):
                if r is NONE:
                    raise PanicSig("unwrap on None")
                return r.v
            if m in ("ok_or", "ok_or_else"):
                return Ok(r.v) if isinstance(r, Some) else ERR
            if m in ("is_some", "is_none"):
                return BoolV(isinstance(r, Some) == (m == "is_some"))
            if m in ("as_ref", "as_mut", "clone", "cloned", "copied", "take", "as_deref"):
                return r
            if m in ("unwrap_or", "unwrap_or_default", "unwrap_or_else"):
                return r.v if isinstance(r, Some) else (a[0] if a and m == "unwrap_or" else OPQ)
            raise Unmodelled(f"Option method {m}")
        if isinstance(r, Ok) or r is ERR:
            a = args()
            if m == "map":
                return Ok(self.call_closure(a[0], [r.v])) if isinstance(r, Ok) else ERR
            if m == "and_then":
                return self.call_closure(a[0], [r.v]) if isinstance(r, Ok) else ERR
            if m in ("map_err", "as_ref", "clone"):
                return r
            if m in ("unwrap", "expect"):
                if r is ERR:
                    raise PanicSig("unwrap on Err")
                return r.v
            if m == "ok":
                return Some(r.v) if isinstance(r, Ok) else NONE
            if m in ("is_ok", "is_err"):
                return BoolV(isinstance(r, Ok) == (m == "is_ok"))
            raise Unmodelled(f"Result method {m}")
        # opaque receiver: arguments are evaluated for their effects, closures are not run
        for a in argn:
            if a.get("k") != "Closure":
                self.ev(a, env)
        return OPQ


def run_entry(fns, rules, fname, rule):
    """-> (paths explored, findings [(kind, detail)], handoffs)"""
    findings, handoffs = [], set()
    stack = [[]]
    n = 0
    while stack and n < MAXPATHS:
        prefix = stack.pop()
        orc = Oracle(prefix)
        it = Interp(fns, rules, orc)
        it.entry_fn = fname
        root = Node(rule)
        f = fns[fname]
        n += 1
        out = None
        try:
            args = [root] + [OPQ] * (len(f.get("params") or []) - 1)
            it.depth = 0
            out = it.call_fn(fname, f, args)
            kind = "ok"
        except PanicSig as p:
            kind = "panic:" + p.why
        except Unmodelled as u:
            kind = "unmodelled:" + str(u)
        except RecursionError:
            kind = "unmodelled:recursion"

        def shape(node, depth=0):
            if node.kids is None:
                return node.rule
            return node.rule + "[" + " ".join(shape(k_, depth + 1) for k_ in node.kids) + "]"
        desc = shape(root)
        if any(not w.startswith("children of") for (_c, _k, w) in orc.trace) and (kind != "ok" or out is ERR or True):
            # the path depends on data the abstraction does not carry (a string, an integer): what happens on it is not
            # decided here (the panic-site inventory of C10 and the rules (a)-(e) cover those sites)
            data_dependent = True
        else:
            data_dependent = False
        if data_dependent and (kind != "ok" or out is ERR):
            undecided = True
            kind = "undecided"
        if kind == "ok" and out is ERR:
            findings.append(("rejects-valid", f"{fname} returns Err for the grammar-valid shape {desc}"))
        elif kind.startswith("panic"):
            findings.append(("panics", f"{fname} reaches {kind[6:]} on the grammar-valid shape {desc}"))
        elif kind.startswith("unmodelled"):
            findings.append(("unmodelled", f"{fname}: {kind[11:]} (shape {desc})"))
        elif kind == "ok":
            for itr in it.iters:
                if itr.pos < len(itr.items):
                    left = [x.rule for x in itr.items[itr.pos:]]
                    findings.append(("children-left|" + itr.owner.rule,
                                     f"{fname} leaves {left} of {shape(itr.owner)} unconsumed: that part of the source is "
                                     f"dropped from the AST without a diagnostic"))
            for (r_, fn_, g_) in it.bad_handoffs:
                findings.append(("wrong-converter|" + r_, f"{fname} hands a {r_} child to {fn_}, which only accepts {g_}"))
        handoffs |= set(it.handoffs)
        # backtrack
        tr = orc.trace
        for i in range(len(tr) - 1, len(prefix) - 1, -1):
            c, k, _w = tr[i]
            for alt in range(c + 1, k):
                stack.append([t[0] for t in tr[:i]] + [alt])
    return n, findings, handoffs


def analyse(tree, rules):
    """interpret parse_toplevel on `file` and then every converter a child is handed to, on that child's production"""
    fns = {k: v for k, v in synq.functions(tree).items() if not k.startswith("test::") and "::" not in k}
    todo = [("parse_toplevel", "file")]
    done, results, total = set(), [], 0
    while todo:
        fname, rule = todo.pop()
        if (fname, rule) in done or fname not in fns:
            continue
        done.add((fname, rule))
        n, findings, handoffs = run_entry(fns, rules, fname, rule)
        total += n
        results.append({"fn": fname, "rule": rule, "paths": n, "findings": findings})
        for (r_, fn_) in sorted(handoffs):
            todo.append((fn_, r_))
    return results, total


# ------------------------------------------------------------------ the integer converter, on classes of token text
class StrV:
    """the text of an integer token, known only by its class: which hex prefix it starts with ('' = none), and
    whether that prefix has been stripped"""

    def __init__(self, cls, stripped=False):
        self.cls, self.stripped = cls, stripped


class IntV:
    def __init__(self, v):
        self.v = v


class SelfV:
    pass


class ConvInterp(Interp):
    def __init__(self, fns, rules, oracle, cls):
        super().__init__(fns, rules, oracle)
        self.cls = cls
        self.conversions = []       # (StrV, radix)
        self.entry_fn = None

    def e_Lit(self, e, env):
        if e.get("ty") == "int":
            try:
                return IntV(int(e["v"]))
            except (TypeError, ValueError):
                return OPQ
        if e.get("ty") == "str":
            return ("lit", e.get("v"))
        return super().e_Lit(e, env)

    def e_Call(self, e, env):
        fn = e["func"]
        if fn.get("k") == "Path" and fn["path"]["s"].endswith("::from_str_radix"):
            a = [self.ev(x, env) for x in e["args"]]
            self.conversions.append((a[0] if a else None, a[1] if len(a) > 1 else None))
            return OPQ
        return super().e_Call(e, env)

    def e_MethodCall(self, e, env):
        m = e["method"]
        if m in ("parse",) and not e["args"]:
            r = self.ev(e["recv"], env)
            self.conversions.append((r, IntV(10)))
            return OPQ
        if m in ("or_else", "or"):
            r = self.ev(e["recv"], env)
            if isinstance(r, Some):
                return r
            if r is NONE:
                a = self.ev(e["args"][0], env)
                return self.call_closure(a, []) if m == "or_else" else a
            return OPQ
        r = self.ev(e["recv"], env)
        if isinstance(r, SelfV):
            if m in ("as_str", "as_string"):
                return StrV(self.cls)
            for a in e["args"]:
                self.ev(a, env)
            return OPQ
        if isinstance(r, StrV):
            args = [self.ev(a, env) for a in e["args"]]
            lit = args[0][1] if args and isinstance(args[0], tuple) and args[0][0] == "lit" else None
            if m in ("strip_prefix",) and lit is not None and not r.stripped:
                return Some(StrV(r.cls, True)) if (r.cls == lit and lit != "") else NONE
            if m == "starts_with" and lit is not None and not r.stripped:
                return BoolV(r.cls == lit and lit != "")
            if m == "trim_start_matches" and lit is not None and not r.stripped:
                return StrV(r.cls, True) if r.cls == lit else r
            if m in ("trim", "as_str", "to_owned", "to_string", "clone", "as_ref"):
                return r
            if m in ("to_lowercase", "to_ascii_lowercase"):
                return StrV(r.cls.lower(), r.stripped)
            raise Unmodelled(f"string method {m}")
        # fall back to the generic semantics, without evaluating the receiver twice
        saved = e["recv"]
        try:
            e = dict(e)
            e["recv"] = {"k": "__value", "v": r}
            return super().e_MethodCall(e, env)
        finally:
            pass

    def e___value(self, e, env):
        return e["v"]


def analyse_converter(tree, prefixes):
    """Helpers::as_usize on every class of integer token the grammar accepts: the digits after the hex prefix go through
    radix 16, a token without prefix goes through radix 10, and nothing else is converted.  -> [(class, problem)]"""
    fns_all = synq.functions(tree)
    f = next((v for k, v in fns_all.items() if k.endswith("::as_usize")), None)
    if f is None:
        return None
    fns = {k: v for k, v in fns_all.items() if not k.startswith("test::") and "::" not in k}
    out = []
    for cls in list(prefixes) + [""]:
        stack, n = [[]], 0
        while stack and n < 64:
            prefix = stack.pop()
            orc = Oracle(prefix)
            it = ConvInterp(fns, {}, orc, cls)
            n += 1
            try:
                body = f.get("body") or []
                it.block(body if isinstance(body, list) else body.get("stmts", []), {"self": SelfV()})
            except ReturnSig:
                pass
            except PanicSig as p_:
                out.append((cls, f"panics ({p_.why})"))
                continue
            except Unmodelled as u:
                out.append((cls, f"unmodelled: {u}"))
                continue
            conv = it.conversions
            want_radix = 16 if cls else 10
            if len(conv) != 1:
                out.append((cls, f"{len(conv)} conversions on one path"))
            else:
                s_, r_ = conv[0]
                if not isinstance(s_, StrV) or not isinstance(r_, IntV):
                    out.append((cls, "converted value or radix is not what the token text gives"))
                elif r_.v != want_radix:
                    out.append((cls, f"radix {r_.v}, expected {want_radix}"))
                elif bool(s_.stripped) != bool(cls):
                    out.append((cls, "the hex prefix is not stripped before the conversion" if cls else
                                "something is stripped from a token without prefix"))
            tr = orc.trace
            for i in range(len(tr) - 1, len(prefix) - 1, -1):
                c, k, _w = tr[i]
                for alt in range(c + 1, k):
                    stack.append([t[0] for t in tr[:i]] + [alt])
    return out
