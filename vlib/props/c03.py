"""C03 — the Rust encoder emits exactly the wire format of the language reference.

For every corpus description and every packet/struct type: the layout extracted from the
emitted encoder (bit provenance of every put_*, arrays, padding, payload, optionals,
children) is compared item by item and bit by bit with the reference model's layout
(vlib/ref.py, written from doc/reference.md).  Value independent, hence for all values."""
from . import rustcommon as rc
from .. import rslayout, sym, ref as refm
from ..rslayout import ref_chunk_bits

LEVEL = "translation_validation"


def flatten_ref(items):
    out = []
    for it in items:
        if it["k"] == "child":
            out += flatten_ref(it["items"])
        else:
            out.append(it)
    return out


def expand_child(items, partial_items):
    out = []
    for it in items:
        if it["k"] == "child":
            out += partial_items
        else:
            out.append(it)
    return out


class Cmp:
    def __init__(self, rep, prop, where, r, endian_big, ty, side="enc"):
        self.rep, self.prop, self.where, self.r, self.big, self.ty = rep, prop, where, r, endian_big, ty
        self.side = side
        self.n = 0

    def bad(self, kind, msg, detail=None):
        lang = {"ser": "python|serialize", "cxxser": "cxx|serialize", "javaser": "java|serialize"}.get(self.side, f"rust|{self.side}")
        self.rep.add(f"{self.prop}|{lang}|{kind}", msg, self.where, detail)

    def order_ok(self, n, order):
        if n == 1:
            return order in (None, "big", "little")
        return order == ("big" if self.big else "little")

    @staticmethod
    def always_zero(got_item, roles, name, j):
        """bit j of the source is provably always 0 (the source never reaches 2^j)"""
        for (role, nm), hi in (got_item.get("his") or {}).items():
            if nm == name and role in roles and hi != sym.INF and hi < (1 << j):
                return True
        return False

    def size_bit_ok(self, want, got, child_poly):
        """want = ('size', target, mod, j); got = classification + (j,)"""
        _, target, mod, j = want
        self.size_reason = "bit-position"
        if got[-1] != j:
            return False
        g = got[:-1]
        if target in ("_payload_", "_body_") and getattr(self, "len_semantics", False):
            # the size is taken from the actual payload bytes at run time: only the modifier matters
            self.size_reason = "payload-modifier"
            if g[0] == "size" and g[1] == "_payload_":
                return g[2] == mod
            if g[0] == "len" and g[1] == "payload":
                return g[3] == mod
            return False
        if target in ("_payload_", "_body_"):
            if child_poly is None:
                return False
            # the value written must be (bytes written in the payload region) + modifier
            if g[0] == "len":
                p = sym.p_add({(f"len(self.{g[1]})",): g[2]}, sym.p_const(g[3]))
            elif g[0] == "size":
                p = sym.p_add({("len(self.payload)",): g[3]}, sym.p_const(g[2]))
            elif g[0] == "sumlen":
                p = sym.p_add({(f"sum_encoded_len(self.{g[1]})",): 1}, sym.p_const(g[2]))
            elif g[0] == "sizeexpr":
                p = g[2]
            else:
                return False
            self.size_reason = "payload-region"
            d_ = sym.p_add(sym.p_add(p, sym.p_const(mod), -1), child_poly, -1)
            if mod and d_ == sym.p_const(-mod):
                # exactly the bytes of the payload region, without the declared modifier
                self.size_reason = "payload-modifier-dropped"
            return not d_
        # array target
        arr = self.array_item(target)
        eb = arr.get("elem_bytes") if arr else None
        self.size_reason = "other"
        if g[0] == "len" and g[1] == target:
            if eb is None or g[2] != eb:
                self.size_reason = "element-octets"
                return False
            if g[3] != mod:
                self.size_reason = "array-size-modifier"
                return False
            return True
        if g[0] == "sumlen" and g[1] == target:
            if g[2] != mod:
                self.size_reason = "array-size-modifier"
                return False
            return True
        self.size_reason = "wrong-source"
        return False

    def array_item(self, name):
        for n_ in [self.ty] + self.r.parent_chain(self.ty):
            for it in self.r.layout(n_):
                if it["k"] == "array" and it["name"] == name:
                    return it
        return None

    def chunk(self, want_it, got, child_poly, const_bits=None):
        self.n += 1
        if got["k"] != "chunk":
            self.bad("item-kind", f"reference has a {want_it['n']}-byte bit-field group where the encoder emits {got['k']}")
            return
        if got["n"] != want_it["n"]:
            self.bad("chunk-size", f"bit-field group of {want_it['n']} byte(s) is written as {got['n']} byte(s)")
            return
        if not got.get("fill") and not self.order_ok(got["n"], got["order"]):
            self.bad("byte-order", f"{got['n']}-byte group written in {got['order']} order in a "
                     f"{'big' if self.big else 'little'}-endian file")
        want = ref_chunk_bits(want_it, "enc")
        for pos, (w, g) in enumerate(zip(want, got["bits"])):
            self.n += 1
            if w in (0, 1):
                if g != w:
                    what = next((bf["k"] for bf in want_it["fields"] if bf["shift"] <= pos < bf["shift"] + bf["width"]), "?")
                    self.bad(f"bit|{what}", f"bit {pos} of the group must be constant {w} ({what}) but carries {g}")
                    return
            elif w[0] == "f":
                if g == 0 and self.always_zero(got, ("f",), w[1], w[2]):
                    continue
                if not (isinstance(g, tuple) and g[0] == "f" and g[1] == w[1] and g[-1] == w[2]):
                    # a constrained parent field written as constant by a child is fine when handled by full_layout
                    self.bad("bit|field", f"bit {pos} must carry bit {w[2]} of field `{w[1]}` but carries {g}")
                    return
            elif w[0] == "size":
                if g in (0, 1) and w[1] in ("_payload_", "_body_"):
                    # constant size: the payload region has a static size
                    if child_poly is not None and list(child_poly.keys()) in ([()], []):
                        kconst = int(child_poly.get((), 0)) + w[2]
                        if ((kconst >> w[3]) & 1) == g:
                            continue
                        # a constant is written and it is not the static size of the region plus the modifier
                        written = 0
                        for w2, g2 in zip(want, got["bits"]):
                            if isinstance(w2, tuple) and w2[0] == "size" and w2[1] == w[1] and g2 in (0, 1):
                                written |= g2 << w2[3]
                        self.size_reason = "payload-modifier-dropped" if (w[2] and written == kconst - w[2]) else \
                            "payload-region"
                        self.bad("bit|size|" + self.size_reason, f"the size of `{w[1]}` is written as the constant {written}; the "
                                 f"region holds {kconst - w[2]} octet(s) and the modifier is +{w[2]}")
                        return
                if g == 0 and (self.always_zero(got, ("len", "sumlen", "size", "sizeexpr"), w[1], w[3]) or
                               (w[1] in ("_payload_", "_body_") and any(
                                   role in ("len", "size", "sumlen", "sizeexpr") and hi != sym.INF and hi < (1 << w[3])
                                   for (role, _nm), hi in (got.get("his") or {}).items()))):
                    continue
                if not (isinstance(g, tuple) and self.size_bit_ok(w, g, child_poly)):
                    gs = g if not (isinstance(g, tuple) and g[0] == "sizeexpr") else ("sizeexpr", g[1], g[-1])
                    self.bad("bit|size|" + getattr(self, "size_reason", "other"), f"bit {pos} must carry bit {w[3]} of the octet size of `{w[1]}` (+{w[2]}) but carries {gs}")
                    return
            elif w[0] == "count":
                if g == 0 and self.always_zero(got, ("len",), w[1], w[2]):
                    continue
                ok = isinstance(g, tuple) and g[0] == "len" and g[1] == w[1] and g[2] == 1 and g[3] == 0 and g[-1] == w[2]
                if not ok:
                    self.bad("bit|count", f"bit {pos} must carry bit {w[2]} of the element count of `{w[1]}` but carries {g}")
                    return
            elif w[0] == "elemsize":
                if g == 0 and self.always_zero(got, ("elemsize",), w[1], w[2]):
                    continue
                if not (isinstance(g, tuple) and g[0] == "elemsize" and g[1] == w[1] and g[-1] == w[2]):
                    self.bad("bit|elemsize", f"bit {pos} must carry bit {w[2]} of the element size of `{w[1]}` but carries {g}")
                    return
            elif w[0] == "flag":
                ok = isinstance(g, tuple) and g[0] == "flag" and (g[1], g[2]) in w[2]
                if not ok:
                    self.bad("bit|flag", f"bit {pos} must be the presence flag of {w[2]} but carries {g}")
                    return

    def elem(self, want, got_elem, name):
        ek = want["k"]
        if ek in ("scalar", "enum"):
            w = want["w"]
            if got_elem.get("k") != "chunk" or got_elem["n"] * 8 != w:
                self.bad("array-elem-width", f"array `{name}`: element of {w} bits written as {got_elem.get('n')} byte(s)")
                return
            if not self.order_ok(got_elem["n"], got_elem["order"]):
                self.bad("byte-order", f"array `{name}`: element written in {got_elem['order']} order")
            for j, g in enumerate(got_elem["bits"]):
                if g == 0 and self.always_zero(got_elem, ("elem", "optval", "f"), name, j):
                    continue
                if not (isinstance(g, tuple) and g[0] in ("elem", "optval", "f") and g[1] == name and g[-1] == j):
                    self.bad("array-elem-bits", f"array `{name}`: element bit {j} carries {g}")
                    return
        else:
            if got_elem.get("k") != "nested" or (got_elem.get("type") not in (want["type"], None)):
                self.bad("array-elem-kind", f"array `{name}`: element type {want.get('type')} written as {got_elem}")

    def run(self, want_items, got_items, env):
        """want_items: nested reference layout (child items kept nested); got_items: flat encoder items"""
        self.G = got_items
        self.env = env
        gi, _ = self.level(want_items, 0)
        if gi is not None and gi < len(self.G):
            extra = self.G[gi]
            self.bad("extra-item", f"the encoder writes an extra {extra['k']} item after the last reference item")

    def level(self, W, gi):
        """returns (next gi | None on structural mismatch, bytes poly written by this level)"""
        G = self.G
        total = {}
        pending = []      # chunks whose payload-size bits wait for the region's byte count
        region = None
        for w in W:
            k = w["k"]
            if k == "checksum_start":
                continue
            g = G[gi] if gi < len(G) else None
            if k == "child":
                gi, sub = self.level(w["items"], gi)
                if gi is None:
                    return None, total
                region = sub
                total = sym.p_add(total, sub)
                continue
            if g is None:
                self.bad("missing-item", f"the encoder stops before writing the {k} item {w.get('name', '')}")
                return None, total
            if k == "chunk":
                pending.append((w, g))
                total = sym.p_add(total, rslayout.item_bytes(g, self.env))
                gi += 1
            elif k == "child":
                gi, sub = self.level(w["items"], gi)
                if gi is None:
                    return None, total
                region = sub
                total = sym.p_add(total, sub)
            elif k == "array":
                self.n += 1
                if g["k"] != "array" or g.get("src") != "self." + w["name"]:
                    self.bad("item-kind", f"array `{w['name']}` expected, encoder emits {g['k']} {g.get('src', '')}")
                    return None, total
                self.elem(w["elem"], g.get("elem", {}), w["name"])
                total = sym.p_add(total, rslayout.item_bytes(g, self.env))
                gi += 1
                if w["pad"] is not None:
                    f = G[gi] if gi < len(G) else None
                    size = rslayout.item_bytes(g, self.env)
                    want_fill = sym.p_add(sym.p_const(w["pad"]), size, -1)
                    if f is None or f["k"] not in ("fill", "chunk"):
                        self.bad("padding-missing", f"array `{w['name']}` is not padded to {w['pad']} octets")
                    elif f["k"] == "fill":
                        if f["value"] != 0 or f["count"] != want_fill:
                            self.bad("padding", f"array `{w['name']}`: padding is {sym.p_str(f['count'] or {})} bytes of "
                                     f"{f['value']}, expected {sym.p_str(want_fill)} zero bytes")
                        total = sym.p_add(total, f["count"] or {})
                        gi += 1
                    else:
                        cw = want_fill.get((), 0) if list(want_fill.keys()) in ([()], []) else None
                        if cw is None or f["n"] != int(cw) or any(b != 0 for b in f["bits"]):
                            self.bad("padding", f"array `{w['name']}`: constant padding of {f['n']} byte(s), expected "
                                     f"{sym.p_str(want_fill)}")
                        total = sym.p_add(total, sym.p_const(f["n"]))
                        gi += 1
            elif k == "payload":
                self.n += 1
                if g["k"] != "bytes" or g.get("src") != "self.payload":
                    self.bad("item-kind", f"payload expected, encoder emits {g['k']}")
                    return None, total
                region = rslayout.item_bytes(g, self.env)
                total = sym.p_add(total, region)
                gi += 1
            elif k == "typedef":
                self.n += 1
                if w["tk"] == "struct":
                    if g["k"] != "nested" or g.get("src") != "self." + w["name"]:
                        self.bad("item-kind", f"struct field `{w['name']}` expected, encoder emits {g['k']} {g.get('src', '')}")
                        return None, total
                elif w["tk"] == "custom" and w["w"] is not None:
                    fake = {"n": w["w"] // 8, "fields": [{"k": "scalar", "name": w["name"], "shift": 0, "width": w["w"]}]}
                    self.chunk(fake, g, None)
                else:
                    if g["k"] != "nested":
                        self.bad("item-kind", f"custom field `{w['name']}` expected, encoder emits {g['k']}")
                        return None, total
                total = sym.p_add(total, rslayout.item_bytes(g, self.env))
                gi += 1
            elif k == "optional":
                self.n += 1
                if g["k"] != "optional" or g.get("src") != "self." + w["name"]:
                    self.bad("item-kind", f"optional field `{w['name']}` expected, encoder emits {g['k']} {g.get('src', '')}")
                    return None, total
                inner = g["items"]
                if len(inner) != 1:
                    self.bad("optional-body", f"optional `{w['name']}` writes {len(inner)} items")
                else:
                    self.elem(w["inner"], inner[0], w["name"])
                total = sym.p_add(total, rslayout.item_bytes(g, self.env))
                gi += 1
        for (w, g) in pending:
            self.chunk(w, g, region)
        return gi, total


def check_type(rep, name, m, r, ty, stats, prop="C03"):
    where = f"{name}:{ty}"
    big = r.big
    try:
        want = r.full_layout(ty)
    except refm.RefError as e:
        rep.notes.append(f"reference model cannot lay out {name}:{ty}: {e}")
        return
    ev = m.eval_encode(ty, "encode")
    got = rslayout.encoder_items(ev)
    if m.fn(ty, "encode_partial") is not None:
        pev = m.eval_encode(ty, "encode_partial")
        pitems = rslayout.encoder_items(pev)
        got = expand_child(got, pitems)
    c = Cmp(rep, prop, where, r, big, ty)
    c.run(want, got, ev.env)
    stats["items"] += c.n
    stats["types"] += 1
    return want, got


def run(rep, tier, seed):
    g = rc.gen(tier, seed)
    stats = {"items": 0, "types": 0}
    samples = []
    for name, m in rc.rust_subjects(g):
        r = rc.model_ref(g, name)
        if r is None:
            continue
        for ty in m.type_names():
            if ty not in r.decls or r.decls[ty].kind not in ("packet", "struct"):
                continue
            res = check_type(rep, name, m, r, ty, stats)
            if res and len(samples) < 3:
                want, got = res
                samples.append({"description": name, "type": ty,
                                "reference_items": [w["k"] for w in want][:8],
                                "encoder_items": [x["k"] for x in got][:8]})
    rep.coverage.update({
        "programs": stats["types"], "disagreements_checked": stats["items"], "samples": samples,
        "explanation": "encoder layout (bit provenance of every write, arrays, padding, payload, optionals, child "
                       "regions) == reference layout, per type and per endianness",
    })
    rep.assumptions += ["reference model vlib/ref.py transcribes doc/reference.md",
                        "bit provenance is exact for the operators the generator emits (|, <<, &, casts, ite)"]
    if stats["types"] < 300:
        rep.add("C03|coverage-floor", f"only {stats['types']} types compared (floor 300)", "corpus")
