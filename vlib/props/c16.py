"""C16 — static size annotations are sound (decided through their consumers and their
defining predicates; the Schema itself is an intermediate of the compiler).

Generated code (consumers of Schema):
 (a) size class: a declaration's emitted size (Rust encoded_len / Python size) is a constant
     exactly when the reference says its encoding has a static size, and then the constant is
     the reference's (paddings counted at their declared size); C05/C13 tie that constant to
     every encoding;
 (b) guard constants are tight: each constant length guard of an emitted decoder demands
     exactly the bytes consumed before the next guard (no valid packet refused, none
     under-guarded - the latter is also C01);
 (c) delimitation classes: what the reference classifies as delimited by a size / count /
     flag / static count vs open-ended is decoded that way (C04's shape comparison, counted here).
Source (definitions):
 (d) the Size lattice: `impl Add/Mul for Size`, read as ordered constructor patterns and
     resolved by first match over the 3x3 pairs, yields Unknown if either side is Unknown, else
     Dynamic if either is Dynamic, else Static;
 (e) sibling delimitation predicates agree on the variants and sentinels they test:
     Schema::annotate_field, Decl::payload_size / array_size / element_size, analyzer::array_size;
 (f) annotate_decl computes paddings over the reversed field list before sizes are summed and
     counts a padded array at its padded size."""
import itertools
import re

from . import rustcommon as rc
from .c13 import py_subjects
from .. import stages, synq, rslayout, sym, ref as refm
from ..rslayout import DecoderLayout, walk, _err_variant

LEVEL = "translation_validation"
AN = "pdl-compiler/src/analyzer.rs"


def ref_static_bytes(r, ty):
    """static octet size of a complete encoding of ty per the reference, else None"""
    try:
        b = r.total_static_bits(ty)
    except Exception:
        return None
    return b // 8 if b is not None else None


def tight_guards(rep, name, ty, fn, ev, stats, events=None):
    """constant LengthError guards demand exactly what is consumed before the next guard"""
    evs = [e for e in (ev.events if events is None else events)]
    for e_ in evs:
        # guards inside the region of an optional field, a loop body or a conditional are held to the same rule
        b_ = getattr(e_, "body", None)
        if b_ and e_.kind in ("opt_region", "cond_region"):
            tight_guards(rep, name, ty, fn, ev, stats, b_)
    i = 0
    n = len(evs)
    while i < n:
        e = evs[i]
        if e.kind == "check" and e.ret is not None and _err_variant(e.ret) == "LengthError" and e.cond.op == "lt":
            a, b = e.cond.args
            if isinstance(b, sym.E) and b.is_const() and isinstance(a, sym.E) and any(
                    a.key() == sp.rem.key() or True for sp in ev.spans.values()):
                want = b.cval()
                consumed = 0
                j = i + 1
                stop = False
                while j < n and not stop:
                    x = evs[j]
                    if x.kind == "read":
                        consumed += x.nbytes
                    elif x.kind == "skip" and x.n.is_const() and x.out == x.span:
                        consumed += x.n.cval()
                    elif x.kind == "split" and x.n.is_const():
                        consumed += x.n.cval()
                        stop = True
                    elif x.kind == "loop" and x.count.is_const() and getattr(x, "per_iter", None) is not None:
                        consumed += x.count.cval() * x.per_iter
                    elif x.kind in ("check",) and x.ret is not None and _err_variant(x.ret) == "LengthError":
                        stop = True
                        break
                    elif x.kind in ("nested", "loop", "while_nonempty", "opt_region", "cond_region", "chunks", "slice_to",
                                    "to_vec"):
                        stop = True
                        break
                    j += 1
                # guards on something else than the running span (e.g. `size < modifier`) are not length guards of reads
                if any(a.key() == r_.key() for r_ in [sp.rem for sp in ev.spans.values()]) or "len#" in a.key() or "len(" in a.key():
                    stats["guards"] += 1
                    if consumed and want != consumed and not (want > consumed and stop and j < n and evs[j].kind in (
                            "slice_to", "to_vec")):
                        kind = "over" if want > consumed else "under"
                        rep.add(f"C16|rust|guard-constant|{kind}", f"{ty}::{fn}: a length guard demands {want} byte(s) but "
                                f"{consumed} are consumed before the next guard", f"{name}.rs:{e.line}")
        i += 1


def run(rep, tier, seed):
    g = rc.gen(tier, seed)
    stats = {"types": 0, "guards": 0, "sizes": 0, "rules": 0}
    samples = []
    for name, m in rc.rust_subjects(g):
        r = rc.model_ref(g, name)
        if r is None:
            continue
        for ty in m.type_names():
            if ty not in r.decls or r.decls[ty].kind not in ("packet", "struct"):
                continue
            where = f"{name}:{ty}"
            stats["types"] += 1
            want = ref_static_bytes(r, ty)
            got = m.summ.packets.get(ty, {}).get("static_size")
            stats["sizes"] += 1
            if want != got:
                if want is None:
                    rep.add("C16|rust|size-class|static-but-dynamic", f"{ty}: emitted encoded_len() is the constant {got} but the "
                            f"reference says the size is not static", where)
                elif got is None:
                    rep.add("C16|rust|size-class|dynamic-but-static", f"{ty}: the reference size is the constant {want} but "
                            f"emitted encoded_len() is not constant", where)
                else:
                    rep.add("C16|rust|size-constant", f"{ty}: emitted encoded_len() = {got}, reference static size = {want}", where)
            for fn in ("decode", "decode_partial"):
                if m.fn(ty, fn) is None or (fn == "decode" and m.fn(ty, "decode_partial") is not None):
                    continue
                ev = m.eval_decode(ty) if fn == "decode" else m.eval_decode_partial(ty)
                tight_guards(rep, name, ty, fn, ev, stats)
            if len(samples) < 3:
                samples.append({"description": name, "type": ty, "reference_static_bytes": want, "emitted_static_bytes": got})
    # Python size property class
    import ast
    for name, pm in py_subjects(g):
        r = rc.model_ref(g, name)
        if r is None:
            continue
        for ty in pm.packet_classes():
            if ty not in r.decls or r.decls[ty].parent:
                continue
            fn = pm.method(ty, "size")
            if fn is None or not (len(fn.body) == 1 and isinstance(fn.body[0], ast.Return)):
                continue
            v = fn.body[0].value
            got = v.value if isinstance(v, ast.Constant) and isinstance(v.value, int) else None
            want = ref_static_bytes(r, ty)
            stats["sizes"] += 1
            if want is not None and got is not None and want != got:
                rep.add("C16|python|size-constant", f"{ty}.size = {got}, reference static size = {want}", f"{name}:{ty}")
            elif want is None and got is not None and not static_by_counts(r, ty):
                rep.add("C16|python|size-class|static-but-dynamic", f"{ty}.size is the constant {got} but the reference size is "
                        f"not static", f"{name}:{ty}")
    source_rules(rep, stats, samples)
    rep.coverage.update({
        "programs": stats["types"], "disagreements_checked": stats["sizes"] + stats["guards"] + stats["rules"],
        "size_classes_compared": stats["sizes"], "guards_checked": stats["guards"], "source_rule_instances": stats["rules"],
        "samples": samples,
        "explanation": "static sizes baked into emitted code vs reference static sizes; tightness of constant length guards; "
                       "Size lattice by first-match evaluation over constructor pairs; sibling delimitation predicates",
    })
    rep.assumptions += ["Schema entries no backend consumes are not decided"]
    if stats["types"] < 300:
        rep.add("C16|coverage-floor", f"only {stats['types']} types (floor 300)", "corpus")


def static_by_counts(r, ty):
    return False


# ------------------------------------------------------------------------------------ source rules
def size_of_pat(p):
    k = p.get("k")
    if k == "PWild" or (k == "PIdent" and p["id"][:1].islower()):
        return "*"
    if k in ("PPath", "PTupleStruct"):
        s = p["path"]["s"]
        if s.startswith("Size::"):
            return s.split("::")[1]
    if k == "PIdent":
        return p["id"]
    return "?"


def eval_lattice(fn):
    """first-match evaluation of `match (self, rhs) { (pat, pat) | .. => Size::X .. }` over the 3x3 constructor pairs"""
    ms = synq.match_arms(fn)
    if not ms:
        return None
    m = ms[0]
    table = {}
    for a, b in itertools.product(("Static", "Dynamic", "Unknown"), repeat=2):
        res = None
        for arm in m["arms"]:
            pats = arm["pat"]["cases"] if arm["pat"].get("k") == "POr" else [arm["pat"]]
            hit = False
            for p in pats:
                if p.get("k") == "PTuple" and len(p["elems"]) == 2:
                    x, y = size_of_pat(p["elems"][0]), size_of_pat(p["elems"][1])
                    if x in ("*", a) and y in ("*", b):
                        hit = True
                elif p.get("k") != "PTuple":
                    x = size_of_pat(p)
                    if x in ("*", a):
                        hit = True
            if hit:
                body = arm["body"]
                paths = synq.paths_in(body)
                res = next((pp.split("::")[1] for pp in paths if pp.startswith("Size::")), "?")
                break
        table[(a, b)] = res
    return table


def expected_lattice(a, b):
    if "Unknown" in (a, b):
        return "Unknown"
    if "Dynamic" in (a, b):
        return "Dynamic"
    return "Static"


def source_rules(rep, stats, samples):
    tree = stages.repo_syn(AN)
    if tree is None:
        rep.add("C16|anchor-missing|analyzer.rs", "analyzer.rs unparsable", AN)
        return
    fns = synq.functions(tree)
    # (d) lattice
    for nm in ("<std::ops::Add for Size>::add", "<std::ops::Mul for Size>::mul"):
        f = fns.get(nm)
        if f is None:
            rep.add(f"C16|anchor-missing|{nm}", f"{nm} not found", AN)
            continue
        t = eval_lattice(f)
        if t is None or any(v in (None, "?") for v in t.values()):
            rep.undecided.append(f"{nm}: not a constructor match")
            continue
        for (a, b), v in t.items():
            stats["rules"] += 1
            if v != expected_lattice(a, b):
                rep.add(f"C16|lattice|{nm.split('::')[-1]}", f"Size::{a} {nm.split('::')[-1]} Size::{b} yields Size::{v}, expected "
                        f"Size::{expected_lattice(a, b)}", AN)
        samples.append({"rule": nm, "table": {f"{a},{b}": v for (a, b), v in t.items()}})
    # (e) sibling delimitation predicates
    af = fns.get("Schema::new::annotate_field")
    ast_tree = stages.repo_syn("pdl-compiler/src/ast.rs")
    afns = synq.functions(ast_tree) if ast_tree else {}

    def sentinels(f):
        return sorted(set(s for s in synq.str_lits(f) if s.startswith("_") and s.endswith("_")))

    def variants(f, prefix="FieldDesc::"):
        return sorted(set(p.split("::")[1] for p in synq.paths_in(f) if p.startswith(prefix)))
    if af is None:
        rep.add("C16|anchor-missing|annotate_field", "Schema::new::annotate_field not found", AN)
    else:
        # payload delimitation: the closure over decl.fields() that looks for a Size field naming the payload/body
        pay = afns.get("Decl::payload_size")
        stats["rules"] += 1
        s_af = [s for s in sentinels(af)]
        if pay is None:
            rep.add("C16|anchor-missing|Decl::payload_size", "Decl::payload_size not found", "ast.rs")
        else:
            if sorted(s_af) != sentinels(pay) or sentinels(pay) != ["_body_", "_payload_"]:
                rep.add("C16|siblings|payload-sentinels", f"annotate_field tests {s_af}, Decl::payload_size tests {sentinels(pay)}: "
                        f"the payload delimitation predicates disagree", AN)
        # array delimitation: Size | Count with field_id == id
        arr = afns.get("Decl::array_size")
        asz = fns.get("array_size")
        stats["rules"] += 1
        for nm, f in (("Decl::array_size", arr), ("analyzer::array_size", asz)):
            if f is None:
                rep.add(f"C16|anchor-missing|{nm}", f"{nm} not found", AN)
                continue
            v = variants(f)
            if not {"Size", "Count"} <= set(v):
                rep.add(f"C16|siblings|array-delimiters|{nm}", f"{nm} tests {v}: an array is delimited by a Size or a Count field", AN)
        # the array arm of annotate_field
        arms = []
        for mm in synq.match_arms(af):
            for a in mm["arms"]:
                if "FieldDesc::Array" in synq.pat_paths(a["pat"]):
                    arms.append(a)
        stats["rules"] += 1
        found = False
        for a in arms:
            v = variants(a["body"])
            if v:
                found = True
                if set(v) != {"Size", "Count"}:
                    rep.add("C16|siblings|array-delimiters|annotate_field", f"annotate_field's unsized-array arm tests {v}: an array "
                            f"is dynamic iff a Size or a Count field designates it (exactly these two; analyzer::array_size and "
                            f"Decl::array_size are the sibling predicates)", AN)
        if not found:
            rep.undecided.append("annotate_field: unsized array arm not recognised")
        # optional fields are Dynamic (first arm guard)
        stats["rules"] += 1
        first = None
        for mm in synq.match_arms(af):
            if mm["arms"] and mm["arms"][0].get("guard") is not None:
                first = mm["arms"][0]
                break
        if first is None or "cond" not in synq.expr_skel(first["guard"]) or "Size::Dynamic" not in synq.paths_in(first["body"]):
            rep.add("C16|classification|optional-fields", "annotate_field does not classify conditional (optional) fields as Dynamic "
                    "before looking at their kind", AN)
    # (e') scan domain of the delimiter searches: "dynamic iff SOME Size/Count field of the declaration designates it" —
    # the search closure (the one that tests FieldDesc::Size / FieldDesc::Count) must range over all fields of the
    # declaration: no position-based narrowing adaptor between `fields()` and the searching call.  Followed into the
    # local helper fns of Schema::new, and applied to the sibling predicates of ast.rs too.
    NARROW = {"take_while", "skip_while", "take", "skip", "step_by", "map_while"}
    scans = 0
    cands = [(nm, f, AN) for nm, f in fns.items() if nm.startswith("Schema::new::") or nm == "array_size"]
    cands += [(nm, f, "pdl-compiler/src/ast.rs") for nm, f in afns.items() if nm in ("Decl::payload_size", "Decl::array_size")]
    for nm, f, where in cands:
        for mc in synq.method_calls(f):
            tests = [a for a in mc.get("args", []) if a.get("k") == "Closure"
                     and {"FieldDesc::Size", "FieldDesc::Count"} & set(synq.paths_in(a))]
            if not tests:
                continue
            chain, r = [], mc.get("recv")
            while isinstance(r, dict) and r.get("k") == "MethodCall":
                chain.append(r["method"])
                r = r.get("recv")
            if "fields" not in chain:
                continue
            scans += 1
            stats["rules"] += 1
            bad = [m for m in chain[:chain.index("fields")] if m in NARROW]
            if bad:
                rep.add(f"C16|siblings|delimiter-scan-narrowed|{nm.split('::')[-1]}",
                        f"{nm}: the search for the size/count field that delimits a payload or array runs over "
                        f"`fields().{'.'.join(reversed(chain[:chain.index('fields')]))}` — narrowed by position ({', '.join(bad)}): a "
                        f"delimiting field declared on the other side is not seen, so a delimited part is classified Unknown "
                        f"(Decl::payload_size / Decl::array_size / analyzer::array_size scan the whole declaration)", where)
    samples.append({"rule": "delimiter-scan-domain", "scans": scans})
    if scans < 4:
        rep.undecided.append(f"delimiter scans: only {scans} recognised (4 on the confirmed tree)")
    # (f) padding lookahead over the reversed field list, padded arrays counted at their padded size
    ad = fns.get("Schema::new::annotate_decl")
    if ad is None:
        rep.add("C16|anchor-missing|annotate_decl", "Schema::new::annotate_decl not found", AN)
    else:
        stats["rules"] += 2
        loops = synq.find_all(ad, lambda x: x.get("k") == "For")
        rev = [l for l in loops if ".rev()" in synq.expr_skel(l["iter"]) and "padded_size" in synq.block_skel(l["body"])]
        if not rev:
            rep.add("C16|padding|reversed-scan", "annotate_decl no longer computes paddings over the reversed field list", AN)
        else:
            # the padding variable is set from `8 * size` of a Padding field
            sk = synq.block_skel(rev[0]["body"])
            if "FieldDesc::Padding" not in sk or not re.search(r"\('8' \* _\)|\(_ \* '8'\)", sk):
                rep.add("C16|padding|octets-to-bits", f"annotate_decl: padding is not recorded as 8 * size bits ({sk[:120]})", AN)
        sk_all = synq.block_skel(ad["body"])
        if "Size::Static(_)" not in sk_all or "padded_size" not in sk_all:
            rep.undecided.append("annotate_decl: padded size accounting not recognised")
    # total_size = decl + parent + payload
    ts = fns.get("Schema::total_size")
    stats["rules"] += 1
    if ts is None:
        rep.add("C16|anchor-missing|Schema::total_size", "Schema::total_size not found", AN)
    else:
        sk = synq.block_skel(ts["body"])
        for part in ("decl_size", "parent_size", "payload_size"):
            if part not in sk:
                rep.add("C16|total-size|missing-part", f"Schema::total_size does not add {part}", AN)
