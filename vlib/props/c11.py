"""C11 — compilation is a deterministic pure function of the source, on every front-end.

Rules over rustc's MIR of pdl-compiler (lib), pdlc and pdl-derive:
 (a) flow-to-sink: every hash-ordered iteration must end in an order-erasing consumer;
 (b) who-may-call: no ambient inputs (env, clock, randomness, threads, directory listings);
 (c) pipeline: pdlc and both derive macros hand the value flowing out of analyze()'s Ok
     to the same generator entry points; filter_declarations runs before analyze."""
import json
import re

from .. import stages, mirfacts as mf

LEVEL = "other"

HASH_ITER = re.compile(
    r"(Hash(Map|Set)::<.*>::(iter|iter_mut|keys|values|values_mut|into_keys|into_values|drain|union|intersection|"
    r"difference|symmetric_difference|retain|extract_if)$)|(<&?(mut )?(std::collections::)?Hash(Map|Set)<.*> as IntoIterator>::into_iter$)|"
    r"(<(std::collections::)?Hash(Map|Set)<.*> as (std::fmt::)?Debug>::fmt$)")

ADAPTORS = ("map", "filter", "filter_map", "flat_map", "flatten", "cloned", "copied", "chain", "zip", "enumerate",
            "peekable", "skip", "take", "inspect", "by_ref", "into_iter", "map_while", "skip_while", "take_while",
            "step_by", "fuse", "rev")
ERASING = ("all", "any", "count", "sum", "product", "min", "max", "len", "is_empty")
ORDER_FREE_COLLECTIONS = ("BTreeSet", "BTreeMap", "HashSet", "HashMap", "BinaryHeap")

AMBIENT = re.compile(
    r"(^|[ <:])(std::env::|env::(var|vars|args|current_dir|temp_dir)|SystemTime::now|Instant::now|std::process::id|"
    r"thread::spawn|thread::current|std::thread::|fs::read_dir|read_dir|RandomState::new|rand::|getrandom|"
    r"<\*(const|mut) .* as (std::fmt::)?Pointer>::fmt|hostname|std::time::)")
FILE_IO = re.compile(r"(std::fs::|fs::(read|write|read_to_string|create_dir|remove)|File::(open|create))")


def method_name(callee):
    # `<X as Iterator>::flat_map::<A, B>`  ->  flat_map
    c = re.sub(r"::<.*>$", "", callee)
    return c.rsplit("::", 1)[-1]


def call_marker(bi, t):
    return f"call<{t.callee}>@bb{bi}("


def closure_span(body):
    """`{closure@file:l:c: l:c}` from the type of the closure body's first parameter"""
    m = re.search(r"\{closure@[^}]*\}", body.sig)
    return m.group(0) if m else None


def trace(rep, bodies_by_name, body, bi, t, site, path, depth=0):
    """Follow the value produced by call t (in body, block bi) to its consumers."""
    if depth > 12:
        rep.add("C11|hash-order|flow-too-deep", f"{site}: flow not resolved", site)
        return
    org = mf.origins(body)
    res = org["__resolve"]
    marker = call_marker(bi, t)
    consumers = []
    for bj, u in mf.calls(body):
        if u is t or body.blocks[bj].cleanup:
            continue
        if any(marker in res(a) for a in u.args):
            consumers.append((bj, u))
    # only the *first* consumers matter: drop those that consume a later stage
    firsts = []
    for bj, u in consumers:
        argo = [res(a) for a in u.args if marker in res(a)]
        # skip if the value reaches u only through another consumer's result
        through_other = all(any(call_marker(bk, v) in o for bk, v in consumers if v is not u) for o in argo)
        if not through_other:
            firsts.append((bj, u))
    returned = False
    if t.dest == "_0":
        returned = True
    else:
        for blk in body.blocks.values():
            for lhs, rhs, raw in blk.stmts:
                if lhs == "_0" and marker in res(rhs):
                    returned = True
    if returned:
        # value escapes the body: closures -> find the adaptor call in the parent that takes this closure
        sp = closure_span(body)
        parent_name = re.sub(r"::\{closure#\d+\}$", "", body.name)
        parent = bodies_by_name.get(parent_name)
        if sp and parent is not None and parent is not body:
            found = False
            for bj, u in mf.calls(parent):
                if sp in u.callee or any(sp in a for a in u.args):
                    found = True
                    classify(rep, bodies_by_name, parent, bj, u, site, path + [f"returned from {body.name}"], depth + 1)
            if not found:
                rep.add("C11|hash-order|escapes", f"{site}: hash-ordered iterator returned from {body.name}, consumer not found",
                        site)
        else:
            rep.add("C11|hash-order|escapes", f"{site}: hash-ordered iterator escapes {body.name}", site)
    if not firsts and not returned:
        # unused iterator: harmless
        return
    for bj, u in firsts:
        classify(rep, bodies_by_name, body, bj, u, site, path, depth + 1)


def classify(rep, bodies_by_name, body, bj, u, site, path, depth):
    name = method_name(u.callee)
    path = path + [name]
    if name in ERASING:
        return
    if name == "collect" or name == "from_iter":
        if any(c in u.callee.split("collect::<")[-1][:60] for c in ORDER_FREE_COLLECTIONS):
            return
        # collected into an ordered container: acceptable only if it is sorted afterwards
        org = mf.origins(body)
        res = org["__resolve"]
        marker = call_marker(bj, u)
        for bk, v in mf.calls(body):
            if method_name(v.callee).startswith("sort") and any(marker in res(a) for a in v.args):
                return
        rep.add("C11|hash-order|ordered-collect", f"{site}: hash-ordered iteration collected into an ordered container "
                f"without a sort ({' -> '.join(path)})", site)
        return
    if name == "extend":
        if any(c in u.callee for c in ORDER_FREE_COLLECTIONS):
            return
        rep.add("C11|hash-order|ordered-extend", f"{site}: hash-ordered iteration extends an ordered container", site)
        return
    if name in ADAPTORS:
        trace(rep, bodies_by_name, body, bj, u, site, path, depth)
        return
    if name in ("next", "for_each", "fold", "try_fold", "find", "find_map", "position", "last", "nth", "reduce",
                "try_for_each", "unzip", "partition"):
        rep.add("C11|hash-order|ordered-consumer", f"{site}: hash-ordered iteration is consumed in iteration order "
                f"({' -> '.join(path)})", site)
        return
    rep.add("C11|hash-order|unrecognised-consumer", f"{site}: hash-ordered iteration flows to {u.callee[:80]}", site)


def site_of(which, body, t):
    return f"{which}:{body.name}:{method_name(t.callee)}"


def check_hash_order(rep, which, bodies, n, exceptions=()):
    by = {b.name: b for b in bodies}
    for b in bodies:
        for bi, t in mf.calls(b):
            if b.blocks[bi].cleanup:
                continue
            if HASH_ITER.search(t.callee):
                n["hash_sites"] += 1
                site = site_of(which, b, t)
                if site in exceptions:
                    n["hash_exceptions"] += 1
                    continue
                n["samples"].append({"site": site, "callee": t.callee[:100]})
                trace(rep, by, b, bi, t, site, [method_name(t.callee)])


def check_ambient(rep, which, bodies, n, allow):
    for b in bodies:
        if re.search(r"(^|::)tests?(::|$)", b.name):
            continue
        for bi, t in mf.calls(b):
            n["calls"] += 1
            if AMBIENT.search(t.callee) or FILE_IO.search(t.callee):
                key = f"{which}:{b.name}:{method_name(t.callee)}"
                ok = False
                for (pat_body, pat_callee, argpat) in allow:
                    if re.search(pat_body, b.name) and re.search(pat_callee, t.callee):
                        if argpat is None or any(argpat in a for a in t.args) or argpat in mf.origins(b)["__resolve"](t.args[0] if t.args else ""):
                            ok = True
                n["ambient_sites"] += 1
                if not ok:
                    rep.add("C11|ambient-input", f"{key}: call to {t.callee[:80]}", key)


def origin_of_arg(body, t, idx):
    return mf.origins(body)["__resolve"](t.args[idx]) if idx < len(t.args) else ""


def check_pipeline_pdlc(rep, bodies, n):
    by = {b.name: b for b in bodies}
    b = by.get("generate_backend")
    if b is None:
        rep.add("C11|anchor-missing|pdlc::generate_backend", "generate_backend not found in pdlc's MIR", "pdl-compiler/src/main.rs")
        return
    gens = []
    for bi, t in mf.calls(b):
        m = re.search(r"backends::(\w+)::(generate\w*)$", t.callee)
        if m:
            gens.append((m.group(1), bi, t))
    if not gens:
        rep.add("C11|anchor-missing|pdlc-backends", "no backend generate call found in generate_backend", "main.rs")
    for backend, bi, t in gens:
        n["pipeline_sites"] += 1
        argos = [origin_of_arg(b, t, i) for i in range(len(t.args))]
        file_args = [o for o in argos if "call<analyze>" in o or "call<filter_declarations>" in o or "call<parse_file>" in o]
        if backend == "json":
            # documented exception: json prints the parsed (not analysed) file
            if not any("call<filter_declarations>" in o for o in argos):
                rep.undecided.append("json::generate does not receive the filtered file")
            continue
        good = [o for o in file_args if re.search(r"call<analyze>@bb\d+\(.*\) as Ok\.0", o)]
        if not good:
            rep.add("C11|pipeline|pdlc-gate", f"backends::{backend}::generate does not receive the file returned by "
                    f"analyze()'s Ok (args: {[o[:60] for o in argos]})", f"main.rs:generate_backend:{backend}")
    # filter before analysis
    for bi, t in mf.calls(b):
        if t.callee.endswith("analyze") and "::" not in t.callee.replace("analyzer::analyze", "analyze"):
            n["pipeline_sites"] += 1
            o = origin_of_arg(b, t, 0)
            if "call<filter_declarations>" not in o:
                rep.add("C11|pipeline|filter-before-analyze", "analyze() is not applied to the output of filter_declarations",
                        "main.rs:generate_backend")
            if not re.search(r"call<parse_file>@bb\d+\(.*\) as Ok\.0", o):
                rep.add("C11|pipeline|analyze-input", "analyze() input does not come from parse_file's Ok", "main.rs:generate_backend")


def check_pipeline_derive(rep, bodies, n):
    by = {b.name: b for b in bodies}
    for fn, parser in (("pdl_proc_macro", "parse_file"), ("pdl_inline_proc_macro", "parse_inline")):
        b = by.get(fn)
        if b is None:
            rep.add(f"C11|anchor-missing|derive::{fn}", f"{fn} not found in pdl-derive's MIR", "pdl-derive/src/lib.rs")
            continue
        gens = [(bi, t) for bi, t in mf.calls(b) if re.search(r"backends::rust::generate\w*$|(^|::)generate_tokens$", t.callee)]
        if not gens:
            rep.add(f"C11|pipeline|derive-no-generate|{fn}", f"{fn} never calls the Rust generator", f"pdl-derive:{fn}")
        for bi, t in gens:
            n["pipeline_sites"] += 1
            if not t.callee.endswith("generate_tokens"):
                rep.add(f"C11|pipeline|derive-entry|{fn}", f"{fn} calls {t.callee} instead of rust::generate_tokens", f"pdl-derive:{fn}")
            argos = [origin_of_arg(b, t, i) for i in range(len(t.args))]
            if not any(re.search(r"call<(\w+::)*analyze>@bb\d+\(.*\) as Ok\.0", o) for o in argos):
                rep.add("C11|pipeline|derive-gate", f"{fn}: generate_tokens does not receive the file returned by analyze()'s Ok",
                        f"pdl-derive:{fn}")
        for bi, t in mf.calls(b):
            if re.search(r"(^|::)analyze$", t.callee):
                n["pipeline_sites"] += 1
                o = origin_of_arg(b, t, 0)
                if not re.search(rf"call<(\w+::)*{parser}>@bb\d+\(.*\) as Ok\.0", o):
                    rep.add("C11|pipeline|derive-analyze-input", f"{fn}: analyze() input does not come from {parser}'s Ok",
                            f"pdl-derive:{fn}")


def check_rust_generate(rep, bodies, n):
    by = {b.name: b for b in bodies}
    cands = [b for b in bodies if b.name in ("backends::rust::generate", "generate") or b.name.endswith("rust::generate")]
    b = None
    for c in bodies:
        if c.name.endswith("generate") and any(method_name(t.callee) == "unparse" for _, t in mf.calls(c)):
            b = c
    if b is None:
        rep.add("C11|anchor-missing|rust::generate", "rust::generate (prettyplease::unparse caller) not found", "backends/rust/mod.rs")
        return
    n["pipeline_sites"] += 1
    names = [method_name(t.callee) for _, t in mf.calls(b) if not b.blocks[_].cleanup]
    org = mf.origins(b)
    ret = None
    for bi, t in mf.calls(b):
        if t.dest == "_0":
            ret = (bi, t)
    if ret is None or method_name(ret[1].callee) != "unparse":
        rep.add("C11|pipeline|rust-generate-shape", "rust::generate does not return prettyplease::unparse(..)", "backends/rust/mod.rs")
        return
    o = org["__resolve"](ret[1].args[0])
    if not ("parse2" in o and "generate_tokens" in o):
        rep.add("C11|pipeline|rust-generate-shape", f"rust::generate output is not unparse(parse2(generate_tokens(..))) ({o[:120]})",
                "backends/rust/mod.rs")
    extra = [x for x in names if x not in ("generate_tokens", "parse2", "expect", "unparse", "unwrap")]
    if extra:
        rep.undecided.append(f"rust::generate makes further calls: {extra}")


HYGIENE = re.compile(r"\b(mixed_site|def_site|resolved_at|located_at)\b")


def check_ident_hygiene(rep, n):
    """(d') pdlc prints the generated tokens as text, the derive macros hand the same tokens to rustc: the only thing tokens
    carry beyond their text is span hygiene.  An identifier template (`"{}_count"`) that is built with call-site hygiene
    at one site (format_ident!) and with another hygiene at a different site (a helper calling Span::mixed_site / def_site /
    resolved_at) names two different variables under the derive macros and one under pdlc."""
    from .. import synq
    call_site, other = {}, {}
    helpers = set()
    files = []
    for root in ("pdl-compiler/src/backends/rust", "pdl-compiler/src/backends/rust/mod.rs"):
        pass
    import glob, os
    from ..core import REPO
    for pth in sorted(glob.glob(os.path.join(REPO, "pdl-compiler/src/backends/rust/*.rs"))):
        files.append(os.path.relpath(pth, REPO))
    norm = lambda t: re.sub(r"\{[^}]*\}", "{}", t)
    parsed = {}
    for rel in files:
        try:
            js = stages.repo_syn(rel)
        except Exception:
            continue
        parsed[rel] = js
        for name, f in synq.functions(js).items():
            toks = json.dumps(f)
            if HYGIENE.search(toks):
                helpers.add(name.split("::")[-1])
    n["hygiene_helpers"] = len(helpers)
    for rel, js in parsed.items():
        for m in synq.macros(js, "format_ident"):
            n["ident_sites"] = n.get("ident_sites", 0) + 1
            lits = synq.str_lits(m)
            if lits:
                call_site.setdefault(norm(lits[0]), []).append(f"{rel}:{m.get('l')}")
        if helpers:
            for c in synq.find_all(js, lambda x: x.get("k") == "Call" and x.get("func", {}).get("k") == "Path"
                                   and x["func"]["path"]["s"].split("::")[-1] in helpers):
                lits = synq.str_lits(c)
                for mm in synq.macros(c, "format"):
                    lits += synq.str_lits(mm)
                if lits:
                    other.setdefault(norm(lits[0]), []).append(f"{rel}:{c.get('l')}")
    n["rules_hygiene"] = len(call_site)
    for t in sorted(set(call_site) & set(other)):
        rep.add("C11|derive-vs-pdlc|mixed-hygiene-identifier", f"identifier template `{t}` is built with call-site hygiene at "
                f"{call_site[t][0]} and through a hygiene helper ({', '.join(sorted(helpers))}) at {other[t][0]}: expanded by "
                f"#[pdl]/#[pdl_inline] the two do not name the same variable, while pdlc prints identical text for both",
                call_site[t][0])
    if n.get("ident_sites", 0) < 10:
        rep.add("C11|floor|ident-sites", f"only {n.get('ident_sites', 0)} format_ident! sites found in the Rust backend (floor 10)",
                "pdl-compiler/src/backends/rust")


APPEND = {"push_str", "push", "extend", "append", "write_str", "write_fmt", "extend_from_slice"}
# `Lazy<T>`/`LazyLock<T>` with a plain T is a constant computed once by a closure that has no inputs (java/mod.rs keeps its
# four `java::Import` constants that way): not state.  A Lazy around a Mutex/RefCell/.. still matches through its argument.
SHARED_STATE_TY = re.compile(r"\b(Cell|RefCell|Mutex|RwLock|Atomic\w+|OnceCell|OnceLock|UnsafeCell)\b")
SHARED_STATE_MACRO = ("thread_local", "lazy_static")


def _decl_loops(fn):
    """(kind, line, body nodes) of every iteration over `<x>.declarations` in fn: `for d in &file.declarations {..}` and
    `file.declarations.iter()...map/for_each/filter_map/flat_map(|d| ..)`."""
    from .. import synq
    mentions = lambda e: bool(synq.find_all(e, lambda x: x.get("k") == "Field" and x.get("member") == "declarations"))
    out = []
    for f in synq.find_all(fn.get("body"), lambda x: x.get("k") == "For"):
        if mentions(f["iter"]):
            out.append(("for", f.get("l"), f["body"]))
    for c in synq.find_all(fn.get("body"), lambda x: x.get("k") == "MethodCall" and x.get("method") in
                           ("map", "for_each", "filter_map", "flat_map", "fold", "filter", "try_for_each")):
        if mentions(c["recv"]) and not synq.find_all(c["recv"], lambda x: x.get("k") == "Closure"):
            for a in c["args"]:
                if a.get("k") == "Closure":
                    out.append(("closure", c.get("l"), a))
    return out


def _uses(body, name):
    """Every use of local `name` inside body as (how, line): 'append' when it is only the receiver of an append-only
    method or the sink of write!/writeln!, 'other' otherwise (read, passed on, borrowed)."""
    from .. import synq
    uses = []
    appended = set()
    for c in synq.find_all(body, lambda x: x.get("k") == "MethodCall" and x.get("method") in APPEND):
        r = c["recv"]
        if r.get("k") == "Path" and r["path"]["s"] == name:
            appended.add(id(r))
            uses.append(("append", c.get("l")))
    # plain and compound assignment write the local without reading it for anything that reaches the output
    for a in synq.find_all(body, lambda x: (x.get("k") == "Assign" or (x.get("k") == "Binary" and
                                            re.fullmatch(r"(\+|-|\*|/|%|\||&|\^|<<|>>)=", x.get("op", "").strip())))):
        l_ = a["lhs"]
        if l_.get("k") == "Path" and l_["path"]["s"] == name:
            appended.add(id(l_))
            uses.append(("append", a.get("l")))
    for pth in synq.find_all(body, lambda x: x.get("k") == "Path" and x.get("path", {}).get("s") == name):
        if id(pth) not in appended:
            uses.append(("other", pth.get("l")))
    for m in synq.find_all(body, lambda x: x.get("k") == "Macro" and x.get("tokens")):
        toks = m["tokens"]
        if not re.search(r"(?<![\w.])%s(?!\w)" % re.escape(name), toks):
            continue
        if m.get("path") in ("write", "writeln") and re.match(r"\s*(&\s*mut\s+)?%s\s*," % re.escape(name), toks) \
                and len(re.findall(r"(?<![\w.])%s(?!\w)" % re.escape(name), toks)) == 1:
            uses.append(("append", m.get("l")))
        else:
            uses.append(("other", m.get("l")))
    return uses


def _isolation_file(rep, n, rel, js):
    from .. import synq
    for k_ in ("isolation_files", "isolation_items", "isolation_loops", "isolation_locals", "exclude_loops"):
        n.setdefault(k_, 0)
    n["isolation_files"] += 1
    is_test = re.search(r"(^|/)test(s|_utils)?\.rs$", rel) is not None
    # e1 -----------------------------------------------------------------------------------------------------------
    def e1(x, parent):
        k = x.get("k")
        if k in ("Static", "Const", "ItemMacro", "Macro"):
            n["isolation_items"] += 1
        if k == "Static" and (x.get("mut") or SHARED_STATE_TY.search(x.get("ty", ""))):
            rep.add(f"C11|exclusion|shared-mutable-state|{rel}|{x['name']}",
                    f"{rel}:{x.get('l')}: `static {x['name']}: {x.get('ty')}` is mutable state that outlives the generation of "
                    f"one declaration: text emitted for a declaration can depend on which declarations were generated before it "
                    f"(and on earlier compilations in the same process)", f"{rel}:{x.get('l')}")
        if k in ("ItemMacro", "Macro") and str(x.get("path", "")).split("::")[-1].strip() in SHARED_STATE_MACRO:
            rep.add(f"C11|exclusion|shared-mutable-state|{rel}|{x.get('path')}",
                    f"{rel}:{x.get('l')}: `{x.get('path')}!` declares state shared by all declarations (and all compilations of "
                    f"this thread/process) inside a generator module", f"{rel}:{x.get('l')}")
    if not is_test:
        synq.walk(js, e1)
    # e2, e3 -------------------------------------------------------------------------------------------------------
    for name, fn in synq.functions(js).items():
        if is_test or re.search(r"(^|::)tests?::", name) or "java/" in rel:
            continue   # java: generate_classes looks parents and referenced classes up by id in its class map (related decls)
        loops = _decl_loops(fn)
        if not loops:
            continue
        outer = {}
        for st in fn.get("body") or []:
            if isinstance(st, dict) and st.get("k") == "Let":
                for pi in synq.find_all(st["pat"], lambda x: x.get("k") == "PIdent" and x.get("mut")):
                    outer[pi["id"]] = st.get("l")
        takes_exclude = any(isinstance(p_, dict) and p_.get("pat", {}).get("id") == "exclude_declarations"
                            for p_ in (fn.get("params") or []))
        for kind, line, body in loops:
            n["isolation_loops"] += 1
            for v in sorted(outer):
                us = _uses(body, v)
                if us:
                    n["isolation_locals"] += 1
                bad = [l for how, l in us if how == "other"]
                if bad:
                    rep.add(f"C11|exclusion|state-carried-across-declarations|{rel}|{name}|{v}",
                            f"{rel}:{bad[0]}: `{v}` (declared mutable outside the walk over file.declarations at line {line} of "
                            f"{name}) is read or handed on inside the walk: what is generated for one declaration depends on the "
                            f"declarations visited before it, so excluding an unrelated declaration can change it",
                            f"{rel}:{bad[0]}")
            if takes_exclude:
                n["exclude_loops"] += 1
                tests = synq.find_all(body, lambda x: x.get("k") == "MethodCall" and x.get("method") == "contains" and
                                      x["recv"].get("k") == "Path" and x["recv"]["path"]["s"] == "exclude_declarations")
                if not tests:
                    rep.add(f"C11|exclusion|walk-ignores-exclude|{rel}|{name}",
                            f"{rel}:{line}: {name} receives exclude_declarations, but this walk over file.declarations never "
                            f"tests it, unlike its sibling walks: output is produced for (or from) an excluded declaration",
                            f"{rel}:{line}")


def check_decl_isolation(rep, n, extra_files=()):
    """(e) excluding a declaration changes nothing in the code of unrelated declarations.  Necessary conditions visible in
    the shape of the generators (decided here; equality of two outputs is not):
     e1  no process-wide or thread-wide mutable state in the generator modules (a cache keyed by width or type name makes
         the text emitted for one declaration depend on which declarations were generated before it);
     e2  in every entry point that walks `file.declarations`, a mutable local declared outside the walk is only ever
         appended to inside it (output accumulation) - it is never read, passed to a per-declaration generator or borrowed,
         so no information flows from one declaration's iteration into another's;
     e3  in an entry point that receives `exclude_declarations`, every walk over the declarations tests it (siblings agree)."""
    import glob, os
    from .. import synq
    from ..core import REPO
    files = []
    for pat in ("pdl-compiler/src/backends/*.rs", "pdl-compiler/src/backends/*/*.rs", "pdl-compiler/src/backends/*/*/*.rs"):
        files += [os.path.relpath(p, REPO) for p in glob.glob(os.path.join(REPO, pat))]
    files = sorted(set(files)) + list(extra_files)
    n["isolation_files"] = n["isolation_items"] = n["isolation_loops"] = n["isolation_locals"] = n["exclude_loops"] = 0
    for rel in files:
        js = stages.repo_syn(rel)
        if not js:
            continue
        _isolation_file(rep, n, rel, js)
    if n["isolation_loops"] < 6:
        rep.add("C11|floor|declaration-walks", f"only {n['isolation_loops']} walks over file.declarations found in the backends' "
                f"entry points (floor 6: python 3, cxx 2, rust 1)", "pdl-compiler/src/backends")
    if n["exclude_loops"] < 5:
        rep.add("C11|floor|exclude-walks", f"only {n['exclude_loops']} walks in entry points taking exclude_declarations (floor 5)",
                "pdl-compiler/src/backends")
    if n["isolation_locals"] < 4:
        rep.add("C11|floor|accumulators", f"only {n['isolation_locals']} (walk, accumulator) pairs seen (floor 4: `code` in five "
                f"walks, `custom_types`)", "pdl-compiler/src/backends")


FILTER_FIELDS = {"exclude_declaration", "include_declaration"}


def _parents(root):
    """[(node, [ancestors, innermost last])] for every dict node under root"""
    out = []

    def go(x, stack):
        if isinstance(x, dict):
            out.append((x, stack))
            for v in x.values():
                if isinstance(v, (dict, list)):
                    go(v, stack + [x])
        elif isinstance(x, list):
            for v in x:
                go(v, stack)
    go(root, [])
    return out


def _is_exact_any(call, name):
    """`<name>.iter().any(|e| e == x)` (either side, through & * and no-op methods)"""
    from .. import synq
    if call.get("method") != "any" or len(call.get("args", [])) != 1 or call["args"][0].get("k") != "Closure":
        return False
    r = call["recv"]
    if not (r.get("k") == "MethodCall" and r.get("method") in ("iter", "into_iter") and r["recv"].get("k") == "Path"
            and r["recv"]["path"]["s"] == name):
        return False
    clo = call["args"][0]
    body = clo.get("body")
    while isinstance(body, dict) and body.get("k") in ("Paren", "Block") and (body.get("e") or (len(body.get("stmts", [])) == 1)):
        body = body.get("e") or body["stmts"][0].get("e") or body["stmts"][0]
    return isinstance(body, dict) and body.get("k") == "Binary" and body.get("op", "").strip() == "=="


def check_exact_selection(rep, n):
    """(e4) a declaration is excluded / included by its exact name: the filter lists given on the command line may only be
    consumed by exact membership (`contains`, `is_empty`, `len`, `iter().any(|e| e == id)`) or handed to another function of
    the tool, whose parameter is then under the same rule.  A prefix, glob or case-folding match removes (or keeps) declarations
    the user did not name - code of unrelated declarations disappears."""
    from .. import synq
    files = ["pdl-compiler/src/main.rs", "pdl-compiler/src/backends/python.rs", "pdl-compiler/src/backends/cxx.rs"]
    fns = {}
    for rel in files:
        js = stages.repo_syn(rel)
        if js:
            for name, f in synq.functions(js).items():
                fns.setdefault(name.split("::")[-1], []).append((rel, name, f))
    n["selection_uses"] = n["selection_params"] = 0
    visited = set()

    def param_names(f):
        return [p_.get("pat", {}).get("id") if isinstance(p_, dict) else None for p_ in (f.get("params") or [])]

    def follow_call(callnode, argi, rel, where):
        fn_ = callnode.get("func", {})
        last = fn_.get("path", {}).get("s", "").split("::")[-1] if fn_.get("k") == "Path" else None
        cands = fns.get(last, [])
        if len(cands) != 1:
            # python::generate / cxx::generate share a last segment: pick by the module named in the path
            full = fn_.get("path", {}).get("s", "") if fn_.get("k") == "Path" else ""
            cands = [c for c in cands if c[0].rsplit("/", 1)[-1][:-3] in full.split("::")]
        if len(cands) != 1:
            rep.add(f"C11|exclusion|filter-list-escapes|{rel}|{where}", f"{rel}:{callnode.get('l')}: the declaration filter list is "
                    f"handed to `{fn_.get('path', {}).get('s', '?')}`, which is not a function of the tool this rule can read: how "
                    f"the list selects declarations is not visible", f"{rel}:{callnode.get('l')}")
            return
        crel, cname, cf = cands[0]
        pn = param_names(cf)
        if argi < len(pn) and pn[argi]:
            check_param(crel, cname, cf, pn[argi])

    def check_param(rel, fname, f, pname):
        if (rel, fname, pname) in visited:
            return
        visited.add((rel, fname, pname))
        n["selection_params"] += 1
        for node, stack in _parents(f.get("body")):
            if not (node.get("k") == "Path" and node.get("path", {}).get("s") == pname):
                continue
            n["selection_uses"] += 1
            anc = list(reversed(stack))
            i = 0
            cur = node
            while i < len(anc) and anc[i].get("k") in ("Ref", "Paren") :
                cur = anc[i]; i += 1
            par = anc[i] if i < len(anc) else {}
            ok = False
            if par.get("k") == "MethodCall" and par.get("recv") is cur:
                if par["method"] in ("contains", "is_empty", "len"):
                    ok = True
                elif par["method"] in ("iter", "into_iter") and i + 1 < len(anc) and _is_exact_any(anc[i + 1], pname):
                    ok = True
            elif par.get("k") == "Call" and any(a is cur for a in par.get("args", [])):
                follow_call(par, [a is cur for a in par["args"]].index(True), rel, fname)
                ok = True
            if not ok:
                rep.add(f"C11|exclusion|inexact-selection|{rel}|{fname}|{pname}",
                        f"{rel}:{node.get('l')}: in {fname} the declaration filter list `{pname}` is consumed by something other "
                        f"than exact membership (contains / is_empty / iter().any(|e| e == id)): a declaration the user did not name "
                        f"can be excluded or kept, so code of unrelated declarations changes", f"{rel}:{node.get('l')}")

    for last, lst in sorted(fns.items()):
        for rel, name, f in lst:
            if re.search(r"(^|::)tests?::", name):
                continue
            for pn in param_names(f):
                if pn and pn.endswith("_declarations"):
                    check_param(rel, name, f, pn)
            # opt.exclude_declaration / opt.include_declaration handed on from main.rs
            for node, stack in _parents(f.get("body")):
                if node.get("k") == "Field" and node.get("member") in FILTER_FIELDS:
                    n["selection_uses"] += 1
                    anc = list(reversed(stack))
                    i, cur = 0, node
                    while i < len(anc) and anc[i].get("k") in ("Ref", "Paren"):
                        cur = anc[i]; i += 1
                    par = anc[i] if i < len(anc) else {}
                    if par.get("k") == "Call" and any(a is cur for a in par.get("args", [])):
                        follow_call(par, [a is cur for a in par["args"]].index(True), rel, name)
                    elif par.get("k") == "MethodCall" and par.get("recv") is cur and par["method"] in ("contains", "is_empty", "len"):
                        pass
                    else:
                        rep.add(f"C11|exclusion|inexact-selection|{rel}|{name}|{node['member']}",
                                f"{rel}:{node.get('l')}: in {name} the option `{node['member']}` is consumed by something other than "
                                f"exact membership or a call of a function of the tool", f"{rel}:{node.get('l')}")
    if n["selection_params"] < 4 or n["selection_uses"] < 10:
        rep.add("C11|floor|selection-sites", f"only {n['selection_params']} filter-list parameters / {n['selection_uses']} uses seen "
                f"(floor 4 / 10: filter_declarations x2, python::generate, cxx::generate)", "pdl-compiler/src/main.rs")


def check_isolation_fixture(rep, n):
    """The rule's expected count on the tree is zero: a fixture with one instance of each construct must match on every run."""
    import os, tempfile
    from ..core import VERIF, Report
    from ..stages import TOOLBIN, build_tools, sh
    build_tools()
    src = os.path.join(VERIF, "spec", "c11_isolation_fixture.rs")
    with tempfile.TemporaryDirectory() as td:
        out = os.path.join(td, "fixture.json")
        p = sh([os.path.join(TOOLBIN, "syn2json"), src, out], check=False)
        probe = Report("C11", LEVEL, "quick", 0)
        pn = {}
        if p.returncode == 0:
            _isolation_file(probe, pn, "spec/c11_isolation_fixture.rs", json.load(open(out)))
    got = sorted({":".join(f.key.split("|")[2:3]) for f in probe.findings})
    keys = {f.key for f in probe.findings}
    want = {"C11|exclusion|shared-mutable-state|spec/c11_isolation_fixture.rs|HELPERS_EMITTED",
            "C11|exclusion|shared-mutable-state|spec/c11_isolation_fixture.rs|SEEN",
            "C11|exclusion|shared-mutable-state|spec/c11_isolation_fixture.rs|thread_local",
            "C11|exclusion|state-carried-across-declarations|spec/c11_isolation_fixture.rs|generate|emitted_widths",
            "C11|exclusion|walk-ignores-exclude|spec/c11_isolation_fixture.rs|generate"}
    n["isolation_fixture_hits"] = len(want & keys)
    if not want <= keys or len(keys) != len(want):
        rep.add("C11|floor|isolation-fixture", f"the isolation rule reported {sorted(keys)} on its fixture, expected exactly "
                f"{sorted(want)}: the rule no longer recognises its own positive examples", "spec/c11_isolation_fixture.rs")


def run(rep, tier, seed):
    n = {"hash_sites": 0, "hash_exceptions": 0, "ambient_sites": 0, "calls": 0, "pipeline_sites": 0, "samples": []}
    comp = stages.mir_bodies("compiler")
    pdlc = stages.mir_bodies("pdlc")
    derive = stages.mir_bodies("derive")
    check_hash_order(rep, "pdl-compiler", comp, n)
    check_hash_order(rep, "pdlc", pdlc, n)
    check_hash_order(rep, "pdl-derive", derive, n)
    check_ambient(rep, "pdl-compiler", comp, n, allow=[(r"parse_file$", r"read_to_string", None),
                                                      (r"test_utils|::tests?::", r".*", None),
                                                      (r"generate_(unit_)?tests", r"(File::open|read_to_string|fs::)", None)])
    check_ambient(rep, "pdlc", pdlc, n, allow=[])
    check_ambient(rep, "pdl-derive", derive, n, allow=[(r"pdl_proc_macro", r"env::var", "CARGO_MANIFEST_DIR")])
    check_pipeline_pdlc(rep, pdlc, n)
    check_pipeline_derive(rep, derive, n)
    check_rust_generate(rep, comp, n)
    check_ident_hygiene(rep, n)
    check_decl_isolation(rep, n)
    check_isolation_fixture(rep, n)
    check_exact_selection(rep, n)
    java = None
    if tier == "thorough":
        try:
            java = stages.mir_bodies("compiler_java")
            # the java backend writes one file per class: file names, not contents, follow the loop (sited exception)
            check_hash_order(rep, "pdl-compiler+java", [b for b in java if "java" in b.name], n,
                             exceptions=("pdl-compiler+java:backends::java::generate:into_iter",))
        except Exception as e:   # the java feature may not build offline
            rep.notes.append(f"java feature MIR not available: {str(e)[:100]}")
    rep.coverage.update({
        "explanation": "MIR of pdl-compiler (lib), pdlc and pdl-derive: every hash-ordered iteration call is followed "
                       "through iterator adaptors (and out of closures) to its consumer, which must be order-erasing; no "
                       "ambient-input callee may be reachable; generator entry points must receive analyze()'s Ok value.",
        "bodies": len(comp) + len(pdlc) + len(derive) + (len(java) if java else 0),
        "call_sites_scanned": n["calls"], "hash_iteration_sites": n["hash_sites"],
        "ambient_sites": n["ambient_sites"], "pipeline_sites": n["pipeline_sites"],
        "isolation": {"rule": "no shared mutable state in generator modules; mutable locals outside a walk over "
                              "file.declarations are append-only inside it; every walk in an entry point taking "
                              "exclude_declarations tests it",
                      "files": n.get("isolation_files"), "items_scanned": n.get("isolation_items"),
                      "declaration_walks": n.get("isolation_loops"), "walk_accumulator_pairs": n.get("isolation_locals"),
                      "walks_testing_exclude": n.get("exclude_loops"),
                      "filter_list_params": n.get("selection_params"), "filter_list_uses": n.get("selection_uses"), "fixture_hits": n.get("isolation_fixture_hits")},
        "samples": n["samples"][:6] or [{"note": "no hash-ordered iteration site"}],
        "evaluations": n["calls"], "distinct_nontrivial": n["hash_sites"] + n["ambient_sites"] + n["pipeline_sites"],
    })
    rep.assumptions += ["trimmed callee paths of rustc's MIR dump identify std HashMap/HashSet iteration",
                        "exclusion clause: only the structural necessary conditions (e1-e3) are decided, not equality of outputs; "
                        "the Java backend's class map (looked up by parent / referenced id) is outside e2",
                        "quote!/format! expansion order is source order"]
    if n["hash_sites"] < 1:
        rep.add("C11|floor|hash-sites", "no hash iteration site found: the rule matched nothing (expected >= 1: "
                "generate_specialize_impl constraints.keys())", "pdl-compiler")
    if n["ambient_sites"] < 2:
        rep.add("C11|floor|ambient-sites", f"only {n['ambient_sites']} ambient-input call sites matched (floor 2: the file read of "
                f"parse_file and CARGO_MANIFEST_DIR in pdl-derive are the positive witnesses of the rule)", "pdl-compiler")
    if n["pipeline_sites"] < 8:
        rep.add("C11|floor|pipeline-sites", f"only {n['pipeline_sites']} pipeline sites (floor 8)", "pdlc/pdl-derive")
