"""C11 — compilation is a deterministic pure function of the source, on every front-end.

Rules over rustc's MIR of pdl-compiler (lib), pdlc and pdl-derive:
 (a) flow-to-sink: every hash-ordered iteration must end in an order-erasing consumer;
 (b) who-may-call: no ambient inputs (env, clock, randomness, threads, directory listings);
 (c) pipeline: pdlc and both derive macros hand the value flowing out of analyze()'s Ok
     to the same generator entry points; filter_declarations runs before analyze."""
import json
import re

from .. import stages, mirfacts as mf

LEVEL = "other"

HASH_ITER = re.compile(
    r"(Hash(Map|Set)::<.*>::(iter|iter_mut|keys|values|values_mut|into_keys|into_values|drain|union|intersection|"
    r"difference|symmetric_difference|retain|extract_if)$)|(<&?(mut )?(std::collections::)?Hash(Map|Set)<.*> as IntoIterator>::into_iter$)|"
    r"(<(std::collections::)?Hash(Map|Set)<.*> as (std::fmt::)?Debug>::fmt$)")

ADAPTORS = ("map", "filter", "filter_map", "flat_map", "flatten", "cloned", "copied", "chain", "zip", "enumerate",
            "peekable", "skip", "take", "inspect", "by_ref", "into_iter", "map_while", "skip_while", "take_while",
            "step_by", "fuse", "rev")
ERASING = ("all", "any", "count", "sum", "product", "min", "max", "len", "is_empty")
ORDER_FREE_COLLECTIONS = ("BTreeSet", "BTreeMap", "HashSet", "HashMap", "BinaryHeap")

AMBIENT = re.compile(
    r"(^|[ <:])(std::env::|env::(var|vars|args|current_dir|temp_dir)|SystemTime::now|Instant::now|std::process::id|"
    r"thread::spawn|thread::current|std::thread::|fs::read_dir|read_dir|RandomState::new|rand::|getrandom|"
    r"<\*(const|mut) .* as (std::fmt::)?Pointer>::fmt|hostname|std::time::)")
FILE_IO = re.compile(r"(std::fs::|fs::(read|write|read_to_string|create_dir|remove)|File::(open|create))")


def method_name(callee):
    # `<X as Iterator>::flat_map::<A, B>`  ->  flat_map
    c = re.sub(r"::<.*>$", "", callee)
    return c.rsplit("::", 1)[-1]


def call_marker(bi, t):
    return f"call<{t.callee}>@bb{bi}("


def closure_span(body):
    """`{closure@file:l:c: l:c}` from the type of the closure body's first parameter"""
    m = re.search(r"\{closure@[^}]*\}", body.sig)
    return m.group(0) if m else None


def trace(rep, bodies_by_name, body, bi, t, site, path, depth=0):
    """Follow the value produced by call t (in body, block bi) to its consumers."""
    if depth > 12:
        rep.add("C11|hash-order|flow-too-deep", f"{site}: flow not resolved", site)
        return
    org = mf.origins(body)
    res = org["__resolve"]
    marker = call_marker(bi, t)
    consumers = []
    for bj, u in mf.calls(body):
        if u is t or body.blocks[bj].cleanup:
            continue
        if any(marker in res(a) for a in u.args):
            consumers.append((bj, u))
    # only the *first* consumers matter: drop those that consume a later stage
    firsts = []
    for bj, u in consumers:
        argo = [res(a) for a in u.args if marker in res(a)]
        # skip if the value reaches u only through another consumer's result
        through_other = all(any(call_marker(bk, v) in o for bk, v in consumers if v is not u) for o in argo)
        if not through_other:
            firsts.append((bj, u))
    returned = False
    if t.dest == "_0":
        returned = True
    else:
        for blk in body.blocks.values():
            for lhs, rhs, raw in blk.stmts:
                if lhs == "_0" and marker in res(rhs):
                    returned = True
    if returned:
        # value escapes the body: closures -> find the adaptor call in the parent that takes this closure
        sp = closure_span(body)
        parent_name = re.sub(r"::\{closure#\d+\}$", "", body.name)
        parent = bodies_by_name.get(parent_name)
        if sp and parent is not None and parent is not body:
            found = False
            for bj, u in mf.calls(parent):
                if sp in u.callee or any(sp in a for a in u.args):
                    found = True
                    classify(rep, bodies_by_name, parent, bj, u, site, path + [f"returned from {body.name}"], depth + 1)
            if not found:
                rep.add("C11|hash-order|escapes", f"{site}: hash-ordered iterator returned from {body.name}, consumer not found",
                        site)
        else:
            rep.add("C11|hash-order|escapes", f"{site}: hash-ordered iterator escapes {body.name}", site)
    if not firsts and not returned:
        # unused iterator: harmless
        return
    for bj, u in firsts:
        classify(rep, bodies_by_name, body, bj, u, site, path, depth + 1)


def classify(rep, bodies_by_name, body, bj, u, site, path, depth):
    name = method_name(u.callee)
    path = path + [name]
    if name in ERASING:
        return
    if name == "collect" or name == "from_iter":
        if any(c in u.callee.split("collect::<")[-1][:60] for c in ORDER_FREE_COLLECTIONS):
            return
        # collected into an ordered container: acceptable only if it is sorted afterwards
        org = mf.origins(body)
        res = org["__resolve"]
        marker = call_marker(bj, u)
        for bk, v in mf.calls(body):
            if method_name(v.callee).startswith("sort") and any(marker in res(a) for a in v.args):
                return
        rep.add("C11|hash-order|ordered-collect", f"{site}: hash-ordered iteration collected into an ordered container "
                f"without a sort ({' -> '.join(path)})", site)
        return
    if name == "extend":
        if any(c in u.callee for c in ORDER_FREE_COLLECTIONS):
            return
        rep.add("C11|hash-order|ordered-extend", f"{site}: hash-ordered iteration extends an ordered container", site)
        return
    if name in ADAPTORS:
        trace(rep, bodies_by_name, body, bj, u, site, path, depth)
        return
    if name in ("next", "for_each", "fold", "try_fold", "find", "find_map", "position", "last", "nth", "reduce",
                "try_for_each", "unzip", "partition"):
        rep.add("C11|hash-order|ordered-consumer", f"{site}: hash-ordered iteration is consumed in iteration order "
                f"({' -> '.join(path)})", site)
        return
    rep.add("C11|hash-order|unrecognised-consumer", f"{site}: hash-ordered iteration flows to {u.callee[:80]}", site)


def site_of(which, body, t):
    return f"{which}:{body.name}:{method_name(t.callee)}"


def check_hash_order(rep, which, bodies, n, exceptions=()):
    by = {b.name: b for b in bodies}
    for b in bodies:
        for bi, t in mf.calls(b):
            if b.blocks[bi].cleanup:
                continue
            if HASH_ITER.search(t.callee):
                n["hash_sites"] += 1
                site = site_of(which, b, t)
                if site in exceptions:
                    n["hash_exceptions"] += 1
                    continue
                n["samples"].append({"site": site, "callee": t.callee[:100]})
                trace(rep, by, b, bi, t, site, [method_name(t.callee)])


def check_ambient(rep, which, bodies, n, allow):
    for b in bodies:
        if re.search(r"(^|::)tests?(::|$)", b.name):
            continue
        for bi, t in mf.calls(b):
            n["calls"] += 1
            if AMBIENT.search(t.callee) or FILE_IO.search(t.callee):
                key = f"{which}:{b.name}:{method_name(t.callee)}"
                ok = False
                for (pat_body, pat_callee, argpat) in allow:
                    if re.search(pat_body, b.name) and re.search(pat_callee, t.callee):
                        if argpat is None or any(argpat in a for a in t.args) or argpat in mf.origins(b)["__resolve"](t.args[0] if t.args else ""):
                            ok = True
                n["ambient_sites"] += 1
                if not ok:
                    rep.add("C11|ambient-input", f"{key}: call to {t.callee[:80]}", key)


def origin_of_arg(body, t, idx):
    return mf.origins(body)["__resolve"](t.args[idx]) if idx < len(t.args) else ""


def check_pipeline_pdlc(rep, bodies, n):
    by = {b.name: b for b in bodies}
    b = by.get("generate_backend")
    if b is None:
        rep.add("C11|anchor-missing|pdlc::generate_backend", "generate_backend not found in pdlc's MIR", "pdl-compiler/src/main.rs")
        return
    gens = []
    for bi, t in mf.calls(b):
        m = re.search(r"backends::(\w+)::(generate\w*)$", t.callee)
        if m:
            gens.append((m.group(1), bi, t))
    if not gens:
        rep.add("C11|anchor-missing|pdlc-backends", "no backend generate call found in generate_backend", "main.rs")
    for backend, bi, t in gens:
        n["pipeline_sites"] += 1
        argos = [origin_of_arg(b, t, i) for i in range(len(t.args))]
        file_args = [o for o in argos if "call<analyze>" in o or "call<filter_declarations>" in o or "call<parse_file>" in o]
        if backend == "json":
            # documented exception: json prints the parsed (not analysed) file
            if not any("call<filter_declarations>" in o for o in argos):
                rep.undecided.append("json::generate does not receive the filtered file")
            continue
        good = [o for o in file_args if re.search(r"call<analyze>@bb\d+\(.*\) as Ok\.0", o)]
        if not good:
            rep.add("C11|pipeline|pdlc-gate", f"backends::{backend}::generate does not receive the file returned by "
                    f"analyze()'s Ok (args: {[o[:60] for o in argos]})", f"main.rs:generate_backend:{backend}")
    # filter before analysis
    for bi, t in mf.calls(b):
        if t.callee.endswith("analyze") and "::" not in t.callee.replace("analyzer::analyze", "analyze"):
            n["pipeline_sites"] += 1
            o = origin_of_arg(b, t, 0)
            if "call<filter_declarations>" not in o:
                rep.add("C11|pipeline|filter-before-analyze", "analyze() is not applied to the output of filter_declarations",
                        "main.rs:generate_backend")
            if not re.search(r"call<parse_file>@bb\d+\(.*\) as Ok\.0", o):
                rep.add("C11|pipeline|analyze-input", "analyze() input does not come from parse_file's Ok", "main.rs:generate_backend")


def check_pipeline_derive(rep, bodies, n):
    by = {b.name: b for b in bodies}
    for fn, parser in (("pdl_proc_macro", "parse_file"), ("pdl_inline_proc_macro", "parse_inline")):
        b = by.get(fn)
        if b is None:
            rep.add(f"C11|anchor-missing|derive::{fn}", f"{fn} not found in pdl-derive's MIR", "pdl-derive/src/lib.rs")
            continue
        gens = [(bi, t) for bi, t in mf.calls(b) if re.search(r"backends::rust::generate\w*$|(^|::)generate_tokens$", t.callee)]
        if not gens:
            rep.add(f"C11|pipeline|derive-no-generate|{fn}", f"{fn} never calls the Rust generator", f"pdl-derive:{fn}")
        for bi, t in gens:
            n["pipeline_sites"] += 1
            if not t.callee.endswith("generate_tokens"):
                rep.add(f"C11|pipeline|derive-entry|{fn}", f"{fn} calls {t.callee} instead of rust::generate_tokens", f"pdl-derive:{fn}")
            argos = [origin_of_arg(b, t, i) for i in range(len(t.args))]
            if not any(re.search(r"call<(\w+::)*analyze>@bb\d+\(.*\) as Ok\.0", o) for o in argos):
                rep.add("C11|pipeline|derive-gate", f"{fn}: generate_tokens does not receive the file returned by analyze()'s Ok",
                        f"pdl-derive:{fn}")
        for bi, t in mf.calls(b):
            if re.search(r"(^|::)analyze$", t.callee):
                n["pipeline_sites"] += 1
                o = origin_of_arg(b, t, 0)
                if not re.search(rf"call<(\w+::)*{parser}>@bb\d+\(.*\) as Ok\.0", o):
                    rep.add("C11|pipeline|derive-analyze-input", f"{fn}: analyze() input does not come from {parser}'s Ok",
                            f"pdl-derive:{fn}")


def check_rust_generate(rep, bodies, n):
    by = {b.name: b for b in bodies}
    cands = [b for b in bodies if b.name in ("backends::rust::generate", "generate") or b.name.endswith("rust::generate")]
    b = None
    for c in bodies:
        if c.name.endswith("generate") and any(method_name(t.callee) == "unparse" for _, t in mf.calls(c)):
            b = c
    if b is None:
        rep.add("C11|anchor-missing|rust::generate", "rust::generate (prettyplease::unparse caller) not found", "backends/rust/mod.rs")
        return
    n["pipeline_sites"] += 1
    names = [method_name(t.callee) for _, t in mf.calls(b) if not b.blocks[_].cleanup]
    org = mf.origins(b)
    ret = None
    for bi, t in mf.calls(b):
        if t.dest == "_0":
            ret = (bi, t)
    if ret is None or method_name(ret[1].callee) != "unparse":
        rep.add("C11|pipeline|rust-generate-shape", "rust::generate does not return prettyplease::unparse(..)", "backends/rust/mod.rs")
        return
    o = org["__resolve"](ret[1].args[0])
    if not ("parse2" in o and "generate_tokens" in o):
        rep.add("C11|pipeline|rust-generate-shape", f"rust::generate output is not unparse(parse2(generate_tokens(..))) ({o[:120]})",
                "backends/rust/mod.rs")
    extra = [x for x in names if x not in ("generate_tokens", "parse2", "expect", "unparse", "unwrap")]
    if extra:
        rep.undecided.append(f"rust::generate makes further calls: {extra}")


HYGIENE = re.compile(r"\b(mixed_site|def_site|resolved_at|located_at)\b")


def check_ident_hygiene(rep, n):
    """(d') pdlc prints the generated tokens as text, the derive macros hand the same tokens to rustc: the only thing tokens
    carry beyond their text is span hygiene.  An identifier template (`"{}_count"`) that is built with call-site hygiene
    at one site (format_ident!) and with another hygiene at a different site (a helper calling Span::mixed_site / def_site /
    resolved_at) names two different variables under the derive macros and one under pdlc."""
    from .. import synq
    call_site, other = {}, {}
    helpers = set()
    files = []
    for root in ("pdl-compiler/src/backends/rust", "pdl-compiler/src/backends/rust/mod.rs"):
        pass
    import glob, os
    from ..core import REPO
    for pth in sorted(glob.glob(os.path.join(REPO, "pdl-compiler/src/backends/rust/*.rs"))):
        files.append(os.path.relpath(pth, REPO))
    norm = lambda t: re.sub(r"\{[^}]*\}", "{}", t)
    parsed = {}
    for rel in files:
        try:
            js = stages.repo_syn(rel)
        except Exception:
            continue
        parsed[rel] = js
        for name, f in synq.functions(js).items():
            toks = json.dumps(f)
            if HYGIENE.search(toks):
                helpers.add(name.split("::")[-1])
    n["hygiene_helpers"] = len(helpers)
    for rel, js in parsed.items():
        for m in synq.macros(js, "format_ident"):
            n["ident_sites"] = n.get("ident_sites", 0) + 1
            lits = synq.str_lits(m)
            if lits:
                call_site.setdefault(norm(lits[0]), []).append(f"{rel}:{m.get('l')}")
        if helpers:
            for c in synq.find_all(js, lambda x: x.get("k") == "Call" and x.get("func", {}).get("k") == "Path"
                                   and x["func"]["path"]["s"].split("::")[-1] in helpers):
                lits = synq.str_lits(c)
                for mm in synq.macros(c, "format"):
                    lits += synq.str_lits(mm)
                if lits:
                    other.setdefault(norm(lits[0]), []).append(f"{rel}:{c.get('l')}")
    n["rules_hygiene"] = len(call_site)
    for t in sorted(set(call_site) & set(other)):
        rep.add("C11|derive-vs-pdlc|mixed-hygiene-identifier", f"identifier template `{t}` is built with call-site hygiene at "
                f"{call_site[t][0]} and through a hygiene helper ({', '.join(sorted(helpers))}) at {other[t][0]}: expanded by "
                f"#[pdl]/#[pdl_inline] the two do not name the same variable, while pdlc prints identical text for both",
                call_site[t][0])
    if n.get("ident_sites", 0) < 10:
        rep.add("C11|floor|ident-sites", f"only {n.get('ident_sites', 0)} format_ident! sites found in the Rust backend (floor 10)",
                "pdl-compiler/src/backends/rust")


def run(rep, tier, seed):
    n = {"hash_sites": 0, "hash_exceptions": 0, "ambient_sites": 0, "calls": 0, "pipeline_sites": 0, "samples": []}
    comp = stages.mir_bodies("compiler")
    pdlc = stages.mir_bodies("pdlc")
    derive = stages.mir_bodies("derive")
    check_hash_order(rep, "pdl-compiler", comp, n)
    check_hash_order(rep, "pdlc", pdlc, n)
    check_hash_order(rep, "pdl-derive", derive, n)
    check_ambient(rep, "pdl-compiler", comp, n, allow=[(r"parse_file$", r"read_to_string", None),
                                                      (r"test_utils|::tests?::", r".*", None),
                                                      (r"generate_(unit_)?tests", r"(File::open|read_to_string|fs::)", None)])
    check_ambient(rep, "pdlc", pdlc, n, allow=[])
    check_ambient(rep, "pdl-derive", derive, n, allow=[(r"pdl_proc_macro", r"env::var", "CARGO_MANIFEST_DIR")])
    check_pipeline_pdlc(rep, pdlc, n)
    check_pipeline_derive(rep, derive, n)
    check_rust_generate(rep, comp, n)
    check_ident_hygiene(rep, n)
    java = None
    if tier == "thorough":
        try:
            java = stages.mir_bodies("compiler_java")
            # the java backend writes one file per class: file names, not contents, follow the loop (sited exception)
            check_hash_order(rep, "pdl-compiler+java", [b for b in java if "java" in b.name], n,
                             exceptions=("pdl-compiler+java:backends::java::generate:into_iter",))
        except Exception as e:   # the java feature may not build offline
            rep.notes.append(f"java feature MIR not available: {str(e)[:100]}")
    rep.coverage.update({
        "explanation": "MIR of pdl-compiler (lib), pdlc and pdl-derive: every hash-ordered iteration call is followed "
                       "through iterator adaptors (and out of closures) to its consumer, which must be order-erasing; no "
                       "ambient-input callee may be reachable; generator entry points must receive analyze()'s Ok value.",
        "bodies": len(comp) + len(pdlc) + len(derive) + (len(java) if java else 0),
        "call_sites_scanned": n["calls"], "hash_iteration_sites": n["hash_sites"],
        "ambient_sites": n["ambient_sites"], "pipeline_sites": n["pipeline_sites"],
        "samples": n["samples"][:6] or [{"note": "no hash-ordered iteration site"}],
        "evaluations": n["calls"], "distinct_nontrivial": n["hash_sites"] + n["ambient_sites"] + n["pipeline_sites"],
    })
    rep.assumptions += ["trimmed callee paths of rustc's MIR dump identify std HashMap/HashSet iteration",
                        "excluding a leaf declaration leaving other output unchanged is not decided",
                        "quote!/format! expansion order is source order"]
    if n["hash_sites"] < 1:
        rep.add("C11|floor|hash-sites", "no hash iteration site found: the rule matched nothing (expected >= 1: "
                "generate_specialize_impl constraints.keys())", "pdl-compiler")
    if n["ambient_sites"] < 2:
        rep.add("C11|floor|ambient-sites", f"only {n['ambient_sites']} ambient-input call sites matched (floor 2: the file read of "
                f"parse_file and CARGO_MANIFEST_DIR in pdl-derive are the positive witnesses of the rule)", "pdl-compiler")
    if n["pipeline_sites"] < 8:
        rep.add("C11|floor|pipeline-sites", f"only {n['pipeline_sites']} pipeline sites (floor 8)", "pdlc/pdl-derive")
