"""C10 — the compiler never crashes and whatever it accepts becomes compilable code.

Decided part (see DESIGN.md for the not-applicable core clause):
 * compile witnesses (static type-checking, never execution): for every corpus description
   the emitted Rust type-checks against pdl-runtime/bytes under #![forbid(unsafe_code)] with
   rustc's deny-by-default lints; the emitted Python parses and binds every name it uses;
   the emitted C++ passes clang -fsyntax-only against packet_runtime.h.  A generator panic
   while producing the subject is reported (labelled as an observation of the build step).
 * source rules on the stages that handle arbitrary input: parse_* helpers propagate their
   Err(String) to parse_inline; the panic-capable sites of parser.rs / analyzer.rs / ast.rs
   are exactly the confirmed inventory (spec/panic_sites.json)."""
import ast as pyast
import builtins
import json
import os
import re
import subprocess
from concurrent.futures import ThreadPoolExecutor

from .. import core, stages, synq
from . import rustcommon as rc

LEVEL = "other"


def panic_class(msg):
    m = msg.lower()
    if "cannot be disambiguated" in m:
        return "ambiguous-children"
    if "could not parse code" in m:
        return "rust-tokens-unparsable"
    if "cannot construct integer" in m:
        return "integer-width>64"
    if "not yet implemented" in m:
        return "todo!"
    if "overflow" in m:
        return "arithmetic-overflow"
    if "no entry found for key" in m:
        return "missing-map-key"
    if "unreachable" in m:
        return "unreachable!"
    if "unwrap" in m and "none" in m:
        return "unwrap-none"
    if "multiple unknown size fields" in m:
        return "multiple-unknown-size-fields"
    if "is not a dyn field of" in m:
        return "payload-not-a-dyn-field"
    return re.sub(r"[^a-z]+", "-", m)[:40]


GENERIC_PANICS = ("unwrap-none", "unreachable!", "todo!", "missing-map-key", "arithmetic-overflow")
_FN_AT = {}


def panic_fn(at):
    """'<file relative to /repo>::<enclosing function>' of a panic location 'file:line' (line numbers never enter a key)"""
    if not at or ":" not in at:
        return "?"
    path, line = at.rsplit(":", 1)
    rel = os.path.relpath(path, core.REPO) if path.startswith(core.REPO) else path
    if rel.startswith("..") or not line.isdigit():
        return os.path.basename(path)
    if rel not in _FN_AT:
        t = stages.repo_syn(rel)
        _FN_AT[rel] = sorted(((f.get("l") or 0, f.get("el") or 0, q) for q, f in synq.functions(t).items()),
                             key=lambda x: (x[0], -x[1])) if t else []
    best = None
    for l, el, q in _FN_AT[rel]:
        if l <= int(line) <= el:
            best = q        # innermost enclosing function: later start wins
    short = rel.replace("pdl-compiler/src/", "")
    return f"{short}::{best or '?'}"


def py_undefined_names(src):
    """names loaded in a module that no scope binds (flake-style, conservative)"""
    tree = pyast.parse(src)
    builtin = set(dir(builtins))
    module_bound = set()

    for node in pyast.walk(tree):
        if isinstance(node, (pyast.FunctionDef, pyast.ClassDef, pyast.AsyncFunctionDef)):
            module_bound.add(node.name)
        elif isinstance(node, pyast.Import):
            for a in node.names:
                module_bound.add((a.asname or a.name).split(".")[0])
        elif isinstance(node, pyast.ImportFrom):
            for a in node.names:
                module_bound.add(a.asname or a.name)
        elif isinstance(node, pyast.Name) and isinstance(node.ctx, (pyast.Store, pyast.Del)):
            module_bound.add(node.id)
        elif isinstance(node, pyast.arg):
            module_bound.add(node.arg)
        elif isinstance(node, pyast.ExceptHandler) and node.name:
            module_bound.add(node.name)
    missing = []
    for node in pyast.walk(tree):
        if isinstance(node, pyast.Name) and isinstance(node.ctx, pyast.Load):
            if node.id not in module_bound and node.id not in builtin:
                missing.append((node.id, node.lineno))
    return missing


def clang_check(path):
    p = subprocess.run(["clang++", "-std=c++17", "-fsyntax-only", "-Wno-everything", "-ferror-limit=0",
                        "-I", os.path.join(core.REPO, "pdl-compiler/scripts"), "-x", "c++", path],
                       capture_output=True, text=True, timeout=300)
    errs = [l for l in p.stderr.splitlines() if " error: " in l]
    return p.returncode, errs


def bkey(g, name, backend, kind, default):
    """Descriptions of the borderline group are ill-formed by the reference, one defect each: when /repo accepts one and
    the emitted code fails a witness, the root cause is that accepted defect, so the key names the entry."""
    if g.entry(name)["group"] == "borderline":
        return f"C10|accepted-ill-formed|{name[2:]}|{backend}|{kind}"
    return default


def run(rep, tier, seed):
    g = rc.gen(tier, seed)
    n = {"descriptions": 0, "rust_modules": 0, "python_modules": 0, "cxx_modules": 0, "rules": 0}
    samples = []
    # 1. generator behaviour while producing the subject
    for name in g.names():
        st = g.status.get(name, {})
        n["descriptions"] += 1
        grp = g.entry(name)["group"]
        for stage in ("parse", "analyze", "json", "rust", "python", "cxx", "java"):
            v = st.get(stage)
            if isinstance(v, dict) and "panic" in v:
                cls = panic_class(v["panic"])
                if cls in GENERIC_PANICS:
                    # one message, many sites: the function the panic was raised in tells the root causes apart
                    cls += "|" + panic_fn(v.get("at"))
                rep.add(bkey(g, name, stage, "panic", f"C10|{stage}|panic|{cls}"),
                        f"{stage} panicked on {name}: {v['panic'][:160]} (at {v.get('at')})",
                        f"{name}.pdl", {"description": g.text(name)[:600]})
        if grp == "fixed":
            # a generator that panics emits nothing for the whole description: every check of that backend silently
            # loses the file.  Panicking shapes live in files of their own (opts `expect_panic`); anywhere else the
            # loss of coverage is itself reported
            expected = set((g.entry(name).get("opts") or {}).get("expect_panic") or [])
            for stage in ("rust", "python", "cxx", "java"):
                v = st.get(stage)
                if isinstance(v, dict) and "panic" in v and stage not in expected:
                    rep.add(f"C10|corpus|coverage-lost|{stage}", f"the {stage} generator panics on {name}, which is not a file "
                            f"set aside for that panic: nothing is emitted for it and the {stage} checks lose every shape in it "
                            f"(isolate the panicking declaration)", f"{name}.pdl")
        if grp in ("fixed", "generated") and isinstance(st.get("analyze"), dict) and "errors" in st["analyze"]:
            codes = [e.get("code") for e in st["analyze"]["errors"]]
            rep.add("C10|corpus|rejected", f"corpus description {name} is rejected by the analyzer ({codes}): the corpus "
                    f"model and the analyzer disagree on well-formedness", f"{name}.pdl")
        if grp in ("fixed", "generated") and isinstance(st.get("parse"), dict):
            rep.add("C10|corpus|unparsable", f"corpus description {name} does not parse: {st['parse']}", f"{name}.pdl")
    # 2. Rust compile witness
    h = stages.stage_harness(tier, seed)
    n["rust_modules"] = len(h["modules"])
    by_mod = {}
    for e in h["errors"]:
        mod = os.path.basename(e["file"] or "?")[:-3] if e.get("file") else "?"
        by_mod.setdefault(mod, []).append(e)
    for mod, errs in by_mod.items():
        for e in errs:
            role = rust_role(g, mod, e["line"])
            rep.add(bkey(g, mod, "rust", "compile", f"C10|rust|compile|{e['code']}|{role}") if mod in g.status else
                    f"C10|rust|compile|{e['code']}|{role}", f"emitted Rust does not compile: {e['code']} {e['message'][:140]}",
                    f"{mod}.rs:{e['line']}")
    if h["rc"] != 0 and not h["errors"]:
        rep.add("C10|rust|harness-failed", "the harness crate failed to build: " + h["stderr"][-300:], "harness")
    samples.append({"witness": "rustc type-check", "modules": len(h["modules"]), "errors": len(h["errors"])})
    # 3. Python
    for name in g.names():
        if not g.ok(name, "python"):
            continue
        n["python_modules"] += 1
        src = open(g.path(name, "py")).read()
        try:
            missing = py_undefined_names(src)
        except SyntaxError as e:
            rep.add(bkey(g, name, "python", "syntax", "C10|python|syntax"), f"emitted Python does not parse: {e.msg}",
                    f"{name}.py:{e.lineno}")
            continue
        customs = user_types(g, name)
        for nm, line in missing[:5]:
            if nm in customs:
                continue        # user-supplied custom_field / checksum type (imported when a location is given)
            rep.add(bkey(g, name, "python", "undefined-name", f"C10|python|undefined-name|{nm}"),
                    f"emitted Python uses unbound name {nm}", f"{name}.py:{line}")
    samples.append({"witness": "python ast.parse + name binding", "modules": n["python_modules"]})
    # 4. C++
    cxx = [name for name in g.names() if g.ok(name, "cxx")]
    n["cxx_modules"] = len(cxx)
    with ThreadPoolExecutor(max_workers=12) as ex:
        results = list(ex.map(lambda nm: (nm, clang_check(g.path(nm, "h"))), cxx))
    for nm, (rc_, errs) in results:
        names = model_names(g, nm)
        customs = user_types(g, nm)
        seen = set()
        for e in errs:
            msg = e.split(" error: ", 1)[1]
            idents = re.findall(r"'([^']*)'", msg)
            if any(i.split("::")[-1] in customs for i in idents):
                continue        # user-supplied custom_field / checksum type: not part of the emitted code
            norm = re.sub(r"'([^']*)'", lambda m: "'_'" if any(part in names for part in re.split(r"\W+", m.group(1))) else m.group(0), msg)
            key = re.sub(r"[^a-z_']+", "-", norm.lower())[:60]
            if key in seen:
                continue
            seen.add(key)
            rep.add(bkey(g, nm, "cxx", "compile", f"C10|cxx|compile|{key}"), f"emitted C++ does not compile: {msg[:140]}",
                    f"{nm}.h")
        if rc_ != 0 and not errs:
            rep.add("C10|cxx|clang-failed", "clang failed without an error line", f"{nm}.h")
    samples.append({"witness": "clang++ -fsyntax-only", "modules": len(cxx)})
    # 4b. Java: javac (parse + attribute, no class files) over every emitted package
    jd, jidx = stages.stage_java(tier, seed)
    n["java_modules"] = len(jidx)
    for nm, info in sorted(jidx.items()):
        seen = set()
        for e in info["errors"]:
            msg = e["msg"].splitlines()[0]
            names = {re.sub(r"[^a-z0-9]", "", x.lower()) for x in model_names(g, nm)}
            norm = " ".join("_" if re.sub(r"[^a-z0-9]", "", w.lower().split(".")[-1]) in names else w
                            for w in re.split(r"[\s(),:]+", msg))
            key = re.sub(r"[^a-z_]+", "-", norm.lower())[:50]
            if key in seen:
                continue
            seen.add(key)
            rep.add(bkey(g, nm, "java", "compile", f"C10|java|compile|{key}"), f"emitted Java does not compile: {msg[:140]}",
                    f"{nm} {e['file']}")
        if info["rc"] != 0:
            rep.add("C10|java|javac-failed", "the javac tree dumper failed: " + info["stderr"][-200:], nm)
    samples.append({"witness": "javac (attribution only)", "modules": len(jidx)})
    # 5. source rules
    source_rules(rep, n, samples)
    rep.coverage.update({
        "explanation": "compile witnesses (type-check only) for all emitted Rust/Python/C++ of the corpus; generator panics "
                       "while producing the subject are reported; Err propagation in parser.rs; panic-site inventory of the "
                       "stages that handle arbitrary input.",
        **n, "samples": samples,
        "evaluations": n["rust_modules"] + n["python_modules"] + n["cxx_modules"] + n["rules"],
        "distinct_nontrivial": n["rust_modules"] + n["python_modules"] + n["cxx_modules"],
    })
    rep.assumptions += ["'no stage panics on any input' for analyzer and backends is NOT decided (needs cross-pass value "
                        "invariants; see DESIGN.md C10): only the listed witnesses and source rules are",
                        "stack depth and termination are not decided"]
    if n["rust_modules"] < 100 or n["python_modules"] < 20 or n["cxx_modules"] < 20:
        rep.add("C10|floor|modules", f"too few witnesses: {n}", "corpus")


def model_names(g, name):
    out = set()
    try:
        m = g.model(name)
    except Exception:
        return out
    for d in m.decls:
        out.add(d.name)
        for t in getattr(d, "tags", []) or []:
            out.add(t.name)
            for st in t.subtags:
                out.add(st.name)
        for f in getattr(d, "fields", []) or []:
            if f.name:
                out.add(f.name)
    return out


def user_types(g, name):
    try:
        m = g.model(name)
    except Exception:
        return set()
    return {d.name for d in m.decls if getattr(d, "kind", "") in ("custom", "checksum")}


def rust_role(g, mod, line):
    """name of the generated function enclosing the error line (role, not position)"""
    m = g.rust_module(mod)
    if m is None or m.error:
        return "?"
    best = "?"
    for (tr, st, it) in m.trait_impls:
        if it["l"] <= line <= it.get("el", it["l"]):
            for f in it["items"]:
                if f.get("k") == "Fn" and f["l"] <= line <= f.get("el", f["l"]):
                    tr_s = re.sub(r"<.*>", "", tr) if tr else "inherent"
                    return f"{tr_s}::{f['name']}"
            best = (tr or "inherent")
    return re.sub(r"<.*>", "", best)


def source_rules(rep, n, samples):
    PARSER = "pdl-compiler/src/parser.rs"
    tree = stages.repo_syn(PARSER)
    if tree is None:
        rep.add("C10|anchor-missing|parser.rs", "parser.rs unparsable", PARSER)
        return
    fns = {k: v for k, v in synq.functions(tree).items() if not k.startswith("test::") and not k.startswith("<")}
    # public entry points return Result
    for nm in ("parse_inline", "parse_file"):
        n["rules"] += 1
        f = fns.get(nm)
        if f is None:
            rep.add(f"C10|anchor-missing|{nm}", f"{nm} not found", PARSER)
        elif not (f.get("ret") or "").startswith("Result<"):
            rep.add(f"C10|errors-are-values|{nm}", f"{nm} does not return a Result", PARSER)
    # every call of a Result<_, String> helper is propagated
    fallible = {k for k, f in fns.items() if (f.get("ret") or "").replace(" ", "").startswith("Result<") and "String>" in (f.get("ret") or "")}
    for k, f in fns.items():
        if k not in fallible and k != "parse_inline":
            continue

        def visit(node, parent, role):
            if isinstance(node, dict):
                if node.get("k") == "Call" and node["func"].get("k") == "Path" and node["func"]["path"]["s"] in fallible:
                    n["rules"] += 1
                    ok = parent is not None and (
                        parent.get("k") in ("Try", "Return") or
                        (parent.get("k") == "MethodCall" and parent["method"] in ("map", "and_then", "map_err", "map_or", "transpose")) or
                        (parent.get("k") == "ExprStmt" and not parent.get("semi")) or
                        parent.get("k") in ("Closure", "Arm", "Call", "If", "Match", "Block"))
                    if parent is not None and parent.get("k") == "ExprStmt" and parent.get("semi"):
                        ok = False
                    if parent is not None and parent.get("k") == "MethodCall" and parent["method"] in ("unwrap", "expect", "ok", "unwrap_or_default"):
                        ok = False
                    if not ok:
                        rep.add("C10|errors-are-values|result-dropped", f"{k}: the result of {node['func']['path']['s']} is not "
                                f"propagated", PARSER + ":" + k)
                for key, v in node.items():
                    if isinstance(v, (dict, list)):
                        visit(v, node, key)
            elif isinstance(node, list):
                for v in node:
                    visit(v, parent, role)
        visit(f["body"], None, None)
    samples.append({"rule": "parser Err propagation", "fallible_helpers": len(fallible)})
    # panic-site inventory
    spec_p = os.path.join(core.VERIF, "spec", "panic_sites.json")
    cur = panic_sites()
    spec = json.load(open(spec_p))["sites"] if os.path.exists(spec_p) else []
    from collections import Counter
    # counted per (file, kind, expression skeleton): a site that moves into a helper function of the same file is the
    # same site; a new one raises the count of its skeleton
    cs = Counter((x[0], x[2], x[3]) for x in spec)
    cc = Counter((x[0], x[2], x[3]) for x in cur)
    where_ = {}
    for x in cur:
        where_.setdefault((x[0], x[2], x[3]), x[1])
    for site, cnt in cc.items():
        n["rules"] += 1
        if cnt > cs.get(site, 0):
            rep.add(f"C10|panic-site|new|{site[0]}|{site[1]}", f"new panic-capable site in a stage that handles "
                    f"arbitrary input: {where_[site]}: {site[1]} on `{site[2]}` ({cnt} now, {cs.get(site, 0)} in the confirmed "
                    f"inventory)", f"{site[0]}:{where_[site]}")
    samples.append({"rule": "panic-site inventory", "sites": len(cur)})


def panic_sites():
    out = []
    for rel in ("pdl-compiler/src/parser.rs", "pdl-compiler/src/analyzer.rs", "pdl-compiler/src/ast.rs"):
        t = stages.repo_syn(rel)
        if t is None:
            continue
        fns = {k: v for k, v in synq.functions(t).items() if not k.startswith("test") and not k.startswith("<")
               and not k.startswith("tests::")}
        for name, f in fns.items():
            def visit(x):
                if isinstance(x, list):
                    for y in x:
                        visit(y)
                    return
                if not isinstance(x, dict):
                    return
                if x.get("k") == "Fn":
                    return
                if x.get("k") == "MethodCall" and x["method"] in ("unwrap", "expect"):
                    out.append([os.path.basename(rel), name, x["method"], synq.expr_skel(x["recv"])[:120]])
                elif x.get("k") == "Macro" and x["path"] in ("unreachable", "todo", "panic", "assert", "assert_eq",
                                                              "unimplemented", "assert_ne"):
                    out.append([os.path.basename(rel), name, x["path"] + "!", ""])
                elif x.get("k") == "Index":
                    out.append([os.path.basename(rel), name, "index", synq.expr_skel(x)[:120]])
                for v in x.values():
                    if isinstance(v, (dict, list)):
                        visit(v)
            visit(f.get("body"))
    return out


if __name__ == "__main__":
    sites = panic_sites()
    json.dump({"comment": "Panic-capable sites (unwrap/expect/index/unreachable!/...) of parser.rs, analyzer.rs, ast.rs, "
               "each confirmed by reading: guarded by the grammar (parser), by an earlier pass of analyze() or by "
               "construction (Schema maps are total over the file's keys).", "sites": sites},
              open(os.path.join(core.VERIF, "spec", "panic_sites.json"), "w"), indent=0)
    print(len(sites))
