"""C06 — inheritance is coherent: constraints, specialization, parent/child conversion.

(a) specialize(): the generated `match` is evaluated abstractly, with first-match semantics,
    on every cell of the finite partition its discriminants induce (the literals mentioned by
    the arms and by the reference, plus "other"; payload length likewise) and compared with
    the reference specialisation function computed from the description alone;
(b) decode_partial carries one ConstraintValueError check per local constraint, on the right
    parent field with the right value, before any parsing;
(c) TryFrom<&Child> for Parent initialises every constrained parent field with the constraint
    value (all ancestors'), every other with the child's field, the payload with encode_partial;
(d) source rule: the analyzer looks constrained fields up in the inherited scope and checks
    duplicates against all ancestors' constraints."""
import itertools
import re

from . import rustcommon as rc
from .. import stages, synq
from ..rsmod import camel

LEVEL = "translation_validation"
OTHER = "<other>"


# ------------------------------------------------------------------ reference specialisation
def subtree(r, name):
    out = []
    for c in r.children(name):
        out.append(c)
        out += subtree(r, c)
    return out


def path_constraints(r, parent, d):
    """constraints accumulated on the inheritance path parent -> d (excluding parent's own)"""
    cs = {}
    chain = [d] + r.parent_chain(d)
    if parent not in chain:
        return None
    chain = chain[:chain.index(parent)]
    for n in reversed(chain):
        cs.update(r.decls[n].constraints)
    return cs


def data_fields(r, name):
    """fields (own + inherited, minus constrained-away ones) that the generated struct of `name` exposes"""
    out = {}
    for n in reversed([name] + r.parent_chain(name)):
        for f in r.inlined(n):
            if f.kind in ("scalar", "typedef", "array") and f.name:
                out[f.name] = f
    return out


def own_size(r, d):
    """static octet size of the part of d that lives in its parent's payload (own fields + payload), else None"""
    bits = r.own_static_bits(d, with_payload=True)
    return bits // 8 if bits is not None else None


def size_class(r, d):
    """'static n' | 'dynamic' | 'unknown' for d's own part, as a delimitation class"""
    s = own_size(r, d)
    if s is not None:
        return ("static", s)
    # dynamic iff every variable part is delimited by a size / count field or optional flag
    fs = r.inlined(d)
    unknown = False
    for i, f in enumerate(fs):
        if f.kind in ("payload", "body"):
            tgt = "_payload_" if f.kind == "payload" else "_body_"
            if not any(g.kind == "size" and g.target == tgt for g in fs):
                unknown = True
        if f.kind == "array" and f.count is None:
            if not any(g.kind in ("size", "count") and g.target == f.name for g in fs):
                if not (i + 1 < len(fs) and fs[i + 1].kind == "padding"):
                    unknown = True
        if f.kind == "typedef" and f.cond is None and f.type in r.decls and r.decls[f.type].kind == "struct":
            if r.total_static_bits(f.type) is None and struct_unknown(r, f.type):
                unknown = True
        if f.kind == "typedef" and f.type in r.decls and r.decls[f.type].kind == "custom" and r.decls[f.type].width is None:
            pass
    return ("unknown",) if unknown else ("dynamic",)


def struct_unknown(r, name, depth=0):
    if depth > 6:
        return False
    for n in [name] + r.parent_chain(name):
        if size_class(r, n)[0] == "unknown":
            return True
    return False


def ref_cases(r, parent):
    """[(direct child X, descendant D, {field: value}, size class)]"""
    fields = data_fields(r, parent)
    out = []
    for x in r.children(parent):
        for d in [x] + subtree(r, x):
            cs = path_constraints(r, parent, d) or {}
            cs = {k: v for k, v in cs.items() if k in fields and fields[k].kind != "array"}
            out.append((x, d, cs, size_class(r, d)))
    return out


def ref_expected(cases, assign, length, uses_len=False):
    """(strong candidates, weak candidates) for one cell"""
    def cons_ok(cs):
        return all(assign.get(k, OTHER) == v for k, v in cs.items())
    cand = [(x, d, cs, sz) for (x, d, cs, sz) in cases if cons_ok(cs)]
    if not uses_len:
        # sizes are not discriminants of this parent: an unconstrained case tells nothing
        cand = [(x, d, cs, sz if cs else ("unknown",)) for (x, d, cs, sz) in cand]
    strong = {x for (x, d, cs, sz) in cand if cs or sz[0] != "unknown"}
    weak = {x for (x, d, cs, sz) in cand if not cs and sz[0] == "unknown"}
    # children with identical constraint sets are told apart by the payload length where static
    groups = {}
    for (x, d, cs, sz) in cand:
        if cs or sz[0] != "unknown":
            groups.setdefault(frozenset(cs.items()), []).append((x, sz))
    refined = set()
    for key, members in groups.items():
        if len({x for x, sz in members}) > 1:
            for x, sz in members:
                if sz[0] != "static" or sz[1] == length:
                    refined.add(x)
        else:
            refined |= {x for x, sz in members}
    strong = refined
    if uses_len:
        # the payload length is a discriminant of this parent: a child whose own part has a static size is
        # selected only for that length (pinned by the repository's own specialize tests)
        strong = {x for (x, d, cs, sz) in cand if x in refined and (cs or sz[0] != "unknown")
                  and (sz[0] != "static" or sz[1] == length)}
    return strong, weak


# ------------------------------------------------------------------ generated match
def lit_of(p, r, enum_of_field, fname):
    k = p.get("k")
    if k == "PWild":
        return None
    if k == "PLit":
        return int(p["lit"]["v"]) if p["lit"].get("ty") == "int" else p["lit"].get("v")
    if k in ("PPath",) or (k == "PIdent"):
        s = p["path"]["s"] if k == "PPath" else p["id"]
        return ("tag", s.split("::")[-1])
    return ("?", k)


def parse_specialize(fn):
    """-> (discriminant names, [(patterns tuple list, variant)]) or None"""
    ms = synq.match_arms(fn)
    if not ms:
        return None
    m = ms[0]
    scrut = m["e"]
    while scrut.get("k") == "Paren":
        scrut = scrut["e"]
    elems = scrut["elems"] if scrut.get("k") == "Tuple" else [scrut]
    names = []
    for e in elems:
        while e.get("k") in ("Paren", "Ref"):
            e = e["e"]
        if e.get("k") == "Field":
            names.append(e["member"].replace("r#", ""))
        elif e.get("k") == "MethodCall" and e["method"] == "len":
            names.append("<len>")
        else:
            names.append("?")
    arms = []
    for a in m["arms"]:
        pats = a["pat"]["cases"] if a["pat"].get("k") == "POr" else [a["pat"]]
        rows = []
        for p in pats:
            if p.get("k") == "PWild":
                rows.append([{"k": "PWild"}] * len(names))
            elif p.get("k") == "PTuple":
                rows.append(p["elems"])
            else:
                rows.append([p])
        body = a["body"]
        while body.get("k") == "Block" and len(body["stmts"]) == 1 and body["stmts"][0].get("k") == "ExprStmt":
            body = body["stmts"][0]["e"]
        variant = None
        if body.get("k") == "Call" and body["func"].get("k") == "Path":
            variant = body["func"]["path"]["s"].split("::")[-1]
        elif body.get("k") == "Path":
            variant = body["path"]["s"].split("::")[-1]
        arms.append((rows, variant, a.get("guard") is not None))
    return names, arms


def eval_match(names, arms, cell, tagnorm):
    for rows, variant, guarded in arms:
        for row in rows:
            ok = True
            for nm, p in zip(names, row):
                v = lit_of(p, None, None, nm)
                if v is None:
                    continue
                have = cell.get(nm, OTHER)
                if isinstance(v, tuple) and v[0] == "tag":
                    if not (isinstance(have, str) and tagnorm(have) == v[1]):
                        ok = False
                elif have != v:
                    ok = False
            if ok:
                return variant
    return None


def check_specialize(rep, name, m, r, ty, stats):
    where = f"{name}:{ty}"
    kids = r.children(ty)
    fn = m.fn(ty, "specialize")
    if not kids:
        return
    if fn is None:
        rep.add("C06|rust|specialize|missing", f"{ty} has children but no specialize()", where)
        return
    parsed = parse_specialize(fn)
    if parsed is None:
        rep.add("C06|rust|specialize|shape", "specialize() is not a single match", where)
        return
    names, arms = parsed
    cases = ref_cases(r, ty)
    # value domains
    dom = {}
    for nm in names:
        if nm == "<len>":
            continue
        dom[nm] = {OTHER}
    for (x, d, cs, sz) in cases:
        for k, v in cs.items():
            dom.setdefault(k, {OTHER}).add(v)
    lens = {OTHER}
    for (x, d, cs, sz) in cases:
        if sz[0] == "static":
            lens.add(sz[1])
    for rows, variant, g in arms:
        for row in rows:
            for nm, p in zip(names, row):
                v = lit_of(p, None, None, nm)
                if v is None:
                    continue
                if nm == "<len>":
                    lens.add(v)
                elif isinstance(v, tuple) and v[0] == "tag":
                    dom.setdefault(nm, {OTHER}).add(v[1])     # already in generated (camel) spelling
                else:
                    dom.setdefault(nm, {OTHER}).add(v)
    needs_len = any(x1 != x2 and cs1 == cs2 for (x1, _d1, cs1, _s1) in cases for (x2, _d2, cs2, _s2) in cases)
    keys = sorted(dom)
    total = 1
    for k in keys:
        total *= len(dom[k])
    total *= len(lens)
    if total > 20000:
        rep.notes.append(f"{where}: specialise partition too large ({total} cells), sampled")
    n_cells = 0
    tagnorm = camel
    for combo in itertools.islice(itertools.product(*[sorted(dom[k], key=str) for k in keys]), 4000):
        assign = dict(zip(keys, combo))
        for L in sorted(lens, key=str):
            n_cells += 1
            # normalise tags: reference uses declared spelling, generated code camel case
            ref_assign = {}
            for k, v in assign.items():
                ref_assign[k] = v
            cell = dict(assign)
            cell["<len>"] = L
            got = eval_match(names, arms, cell, tagnorm)

            def same(a, b):
                return a == b or (isinstance(a, str) and isinstance(b, str) and camel(a) == camel(b))
            # reference: compare values through the camel normalisation
            cases_n = [(x, d, {k: (camel(v) if isinstance(v, str) else v) for k, v in cs.items()}, sz) for (x, d, cs, sz) in cases]
            assign_n = {k: (camel(v) if isinstance(v, str) and v != OTHER else v) for k, v in ref_assign.items()}
            # whether the payload length is a discriminant is the reference's decision, not the generated code's:
            # it is one exactly when two different children carry the same constraint set
            strong, weak = ref_expected(cases_n, assign_n, L, needs_len)
            if got in (None, "None"):
                got_x = None
            else:
                got_x = got
            ok = (got_x in strong) if strong else (got_x is None or got_x in weak)
            if not ok:
                rep.add("C06|rust|specialize|wrong-child" + ("|none-for-matching" if got_x is None else ""),
                        f"specialize() of {ty} yields {got_x} for {cell}; the reference selects {sorted(strong) or 'None'}",
                        where, {"cell": {k: str(v) for k, v in cell.items()}, "generated": got_x, "reference": sorted(strong)})
                stats["cells"] += n_cells
                return
    stats["cells"] += n_cells
    stats["parents"] += 1
    # arm bodies: every child arm goes through self.try_into()? (decode_partial)
    for rows, variant, g in arms:
        if variant not in (None, "None") and variant not in kids:
            rep.add("C06|rust|specialize|unknown-variant", f"specialize() of {ty} yields {variant}, not a direct child", where)


def check_constraint_checks(rep, name, m, r, ty, stats):
    """(b) one ConstraintValueError check per local constraint, on the right field/value"""
    if m.fn(ty, "decode_partial") is None:
        return
    where = f"{name}:{ty}"
    from ..rslayout import DecoderLayout, _err_variant
    from ..rseval import ErrV, StrV, ResV
    ev = m.eval_decode_partial(ty)
    found = {}
    first_read = None
    idx = 0
    from ..rslayout import walk
    for e in walk(ev.events):
        idx += 1
        if e.kind == "read" and first_read is None:
            first_read = idx
        if e.kind == "check" and e.ret is not None and _err_variant(e.ret) == "ConstraintValueError":
            err = e.ret.err.get("value") if isinstance(e.ret, ResV) else None
            if isinstance(err, ErrV):
                fld = err.attrs.get("field")
                exp = err.attrs.get("expected")
                f_ = fld.s if isinstance(fld, StrV) else None
                x_ = exp.s if isinstance(exp, StrV) else None
                found[f_] = (x_, idx, e.cond)
    want = r.decls[ty].constraints
    stats["constraints"] += len(want)
    for f_, v in want.items():
        if f_ not in found:
            rep.add("C06|rust|decode_partial|constraint-not-checked", f"{ty}: constraint {f_} = {v} is not checked by "
                    f"decode_partial", where)
            continue
        x_, at, cond = found[f_]
        ok = False
        if isinstance(v, int):
            ok = x_ is not None and (x_ == str(v) or x_.lower() == hex(v))
            # also compare the comparison itself when it is numeric
            if cond.op == "ne":
                consts = [a.cval() for a in cond.args if hasattr(a, "is_const") and a.is_const()]
                if consts and consts[0] != v:
                    ok = False
        else:
            ok = x_ is not None and camel(x_.split("::")[-1]) == camel(v)
        if not ok:
            rep.add("C06|rust|decode_partial|constraint-value", f"{ty}: constraint {f_} = {v} is checked against {x_}", where)
        if first_read is not None and at > first_read:
            rep.add("C06|rust|decode_partial|constraint-after-parse", f"{ty}: constraint {f_} is checked after parsing began", where)
    for f_ in found:
        if f_ not in want:
            rep.add("C06|rust|decode_partial|extra-constraint", f"{ty}: decode_partial checks a constraint on {f_} that the "
                    f"declaration does not state", where)


def check_into_parent(rep, name, m, r, ty, stats):
    """(c) TryFrom<&Child> for Parent / From<&Child> for Parent"""
    parent = r.decls[ty].parent
    if not parent:
        return
    where = f"{name}:{ty}"
    impl = None
    for (tr, st, it) in m.trait_impls:
        if st == parent and tr in (f"TryFrom<&{ty}>", f"From<&{ty}>"):
            impl = it
    if impl is None:
        rep.add("C06|rust|into-parent|missing", f"no conversion from &{ty} to {parent}", where)
        return
    lits = synq.find_all(impl, lambda x: x.get("k") == "Struct" and x["path"]["s"] == parent)
    if not lits:
        rep.add("C06|rust|into-parent|shape", f"conversion {ty} -> {parent} does not build a {parent} literal", where)
        return
    lit = lits[0]
    cs = r.all_constraints(ty)
    pf = data_fields(r, parent)
    # parent's visible fields: own + inherited that are not constrained away above the parent
    above = r.all_constraints(parent)
    stats["conversions"] += 1
    for f in lit["fields"]:
        nm = f["name"].replace("r#", "")
        e = f["e"]
        sk = synq.expr_skel(e)
        if nm == "payload":
            if not (e.get("k") == "Path" and e["path"]["s"] == "payload"):
                rep.add("C06|rust|into-parent|payload", f"{ty} -> {parent}: payload is {sk}", where)
            continue
        if nm in cs and nm not in above:
            v = cs[nm]
            if isinstance(v, int):
                ok = e.get("k") == "Lit" and e.get("ty") == "int" and int(e["v"]) == v
            else:
                ok = e.get("k") == "Path" and camel(e["path"]["s"].split("::")[-1]) == camel(v)
            if not ok:
                rep.add("C06|rust|into-parent|constraint-value", f"{ty} -> {parent}: constrained field {nm} = {v} is "
                        f"initialised with {sk}", where)
        else:
            base = e
            if base.get("k") == "MethodCall" and base["method"] == "clone" and not base["args"]:
                base = base["recv"]
            ok = base.get("k") == "Field" and base["member"].replace("r#", "") == nm and synq.expr_skel(base["base"]) == "_"
            if not ok:
                rep.add("C06|rust|into-parent|field-copy", f"{ty} -> {parent}: field {nm} is initialised with {sk}", where)
    # payload comes from encode_partial
    if r.has_payload(parent):
        if not synq.method_calls(impl, "encode_partial"):
            rep.add("C06|rust|into-parent|payload-source", f"{ty} -> {parent}: payload is not produced by encode_partial", where)
    want_fields = {n for n in pf if n not in above}
    have = {f["name"].replace("r#", "") for f in lit["fields"]} - {"payload"}
    if want_fields != have:
        rep.add("C06|rust|into-parent|field-set", f"{ty} -> {parent}: initialises {sorted(have)}, parent has {sorted(want_fields)}", where)


def check_constant_accessors(rep, name, m, r, ty, stats):
    """(c') a derived type reads its constrained fields through generated accessors `fn f(&self) -> T { value }` (its
    own encode() writes them): each returns the value of the constraint nearest to the type on its inheritance path"""
    cs = r.all_constraints(ty)
    where = f"{name}:{ty}"
    for f_, v in cs.items():
        fn = m.fn(ty, f_) or m.fn(ty, "r#" + f_)
        if fn is None:
            continue
        stats["accessors"] = stats.get("accessors", 0) + 1
        body = fn.get("body") or []
        stmts = body if isinstance(body, list) else body.get("stmts", [])
        e = stmts[-1].get("e") if len(stmts) == 1 and stmts[-1].get("k") == "ExprStmt" else None
        while e is not None and e.get("k") in ("Paren", "Cast"):
            e = e["e"]
        if e is None:
            rep.add("C06|rust|accessor|shape", f"{ty}::{f_}() is not a single constant expression", where)
            continue
        if isinstance(v, int):
            ok = e.get("k") == "Lit" and e.get("ty") == "int" and int(e["v"]) == v
        else:
            ok = e.get("k") == "Path" and camel(e["path"]["s"].split("::")[-1]) == camel(v)
        if not ok:
            rep.add("C06|rust|accessor|constraint-value", f"{ty}::{f_}() returns {synq.expr_skel(e)}; the constraint on its path "
                    f"is {f_} = {v}", where)


def run(rep, tier, seed):
    g = rc.gen(tier, seed)
    stats = {"parents": 0, "cells": 0, "constraints": 0, "conversions": 0}
    samples = []
    for name, m in rc.rust_subjects(g):
        r = rc.model_ref(g, name)
        if r is None:
            continue
        for ty in m.type_names():
            if ty not in r.decls or r.decls[ty].kind not in ("packet", "struct"):
                continue
            try:
                check_specialize(rep, name, m, r, ty, stats)
                check_constraint_checks(rep, name, m, r, ty, stats)
                check_into_parent(rep, name, m, r, ty, stats)
                check_constant_accessors(rep, name, m, r, ty, stats)
            except Exception as e:      # reference model limits are not violations of pdl
                import traceback
                rep.notes.append(f"{name}:{ty}: {type(e).__name__}: {e}")
            if r.children(ty) and len(samples) < 3 and m.fn(ty, "specialize") is not None:
                p = parse_specialize(m.fn(ty, "specialize"))
                if p:
                    samples.append({"description": name, "parent": ty, "discriminants": p[0],
                                    "arms": [(len(rows), v) for rows, v, _ in p[1]],
                                    "reference_cases": [(x, d, {k: str(v) for k, v in cs.items()}, list(sz))
                                                        for x, d, cs, sz in ref_cases(r, ty)][:6]})
    # (d) source rules
    tree = stages.repo_syn("pdl-compiler/src/analyzer.rs")
    if tree is not None:
        fns = synq.functions(tree)
        cf = fns.get("check_constraint")
        if cf is None or "iter_fields(" not in synq.block_skel(cf["body"]):
            rep.add("C06|analyzer|constraint-scope", "check_constraint does not resolve the field in the inherited scope", "analyzer.rs")
        dc = fns.get("check_decl_constraints")
        if dc is not None:
            ccl = [c for c in synq.calls(dc) if c["func"]["path"]["s"].endswith("check_constraints_list")]
            arg = synq.sources_of_arg(dc, ccl[0]["args"][3]) if ccl and len(ccl[0]["args"]) > 3 else ""
            if not re.search(r"iter_parents\(|iter_parents_and_self\(|iter_constraints\(", arg):
                rep.add("C06|analyzer|duplicate-constraints-ancestors", "duplicate constraints are not checked against all "
                        "ancestors", "analyzer.rs:check_decl_constraints")
    rep.coverage.update({
        "programs": stats["parents"] + stats["conversions"],
        "disagreements_checked": stats["cells"] + stats["constraints"] + stats["conversions"],
        "specialize_parents": stats["parents"], "partition_cells": stats["cells"],
        "constraints_checked": stats["constraints"], "conversions_checked": stats["conversions"], "accessors_checked": stats.get("accessors", 0), "samples": samples,
        "explanation": "specialize() evaluated on every cell of the partition induced by its literals and compared with the "
                       "reference specialisation; constraint checks of decode_partial; child->parent conversions",
    })
    rep.assumptions += ["overlapping sibling constraints are treated as ambiguous cells (any matching child accepted)"]
    if stats["parents"] < 25:
        rep.add("C06|coverage-floor", f"only {stats['parents']} parents with children analysed (floor 25)", "corpus")
