"""Shared driver: evaluate generated Rust functions of every corpus module."""
import re

from .. import stages, ref as refm, pdl
from ..rseval import ResV, TupV, SpanV, ObjV


_GEN = {}


def gen(tier, seed):
    k = (tier, seed)
    if k not in _GEN:
        _GEN[k] = stages.Gen(tier, seed)
    return _GEN[k]


def rust_subjects(g, rep=None, borderline=False):
    """(name, module) for every corpus description whose Rust code was generated.  Descriptions of the `borderline`
    group (ill-formed by the reference, subjects only if the analyzer accepts them) have no reference semantics: they
    are included only for the checks that do not compare with the reference (C01, C10)."""
    out = []
    groups = {e["name"]: e["group"] for e in g.index}
    for name in g.names():
        if groups.get(name) == "borderline" and not borderline:
            continue
        st = g.status.get(name, {})
        if st.get("rust") != "ok":
            continue
        m = g.rust_module(name)
        if m is None or m.error:
            continue
        out.append((name, m))
    return out


def model_ref(g, name):
    try:
        return refm.Ref(g.model(name))
    except Exception:
        return None


def field_facts(r, ty, ident):
    """Describe a generated local like `x_count` / `x_size` / `x_element_size` /
    `payload_size` through the PDL model: returns e.g. 'count:8'."""
    if r is None or ty not in r.decls:
        return None
    m = re.match(r"^(.*?)_(element_size|count|size)$", ident)
    if not m:
        return None
    tgt, kind = m.group(1), m.group(2)
    kind = {"element_size": "elementsize"}.get(kind, kind)
    names = [ty] + r.parent_chain(ty)
    for n in names:
        try:
            fs = r.inlined(n)
        except Exception:
            continue
        for f in fs:
            if f.kind == kind and (f.target == tgt or f.target.strip("_") == tgt):
                return f"{kind}:{f.width}"
    return None


def ident_facts(r, ty, idents):
    out = []
    for i in idents:
        ff = field_facts(r, ty, i)
        if ff:
            out.append(ff)
    return sorted(set(out))


def sample_of(ev, limit=3):
    return [repr(o) for o in ev.obls[:limit]]
