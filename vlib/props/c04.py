"""C04 — the Rust decoder accepts exactly the reference language (structural clauses).

(a) decoder layout == reference layout: what every emitted decode / decode_partial reads
    (chunks bit by bit, byte order, arrays with their delimitation, padding, payload
    delimitation, optionals, nested structs) equals the reference layout of the declaration;
(b) rejection inventory: every rejection cause the reference lists has its reject point with
    the right DecodeError variant (fixed value, enum value, array size multiple, constraint,
    trailing bytes, trailing bytes in sized elements); missing length guards are C01's;
(c) reserved bits are ignored on read (no use) and written as zero (C03)."""
from . import rustcommon as rc
from .. import rslayout, sym, ref as refm
from ..rslayout import ref_chunk_bits, DecoderLayout

LEVEL = "translation_validation"


class DCmp:
    def __init__(self, rep, where, r, ty, dl, prop="C04"):
        self.rep, self.where, self.r, self.ty, self.dl, self.prop = rep, where, r, ty, dl, prop
        self.n = 0
        self.big = r.big

    def bad(self, kind, msg):
        side = getattr(self, "side", None)
        lang = {"py": "python|parse", "cxx": "cxx|parse", "java": "java|parse"}.get(side, "rust|dec")
        self.rep.add(f"{self.prop}|{lang}|{kind}", msg, self.where)

    def order_ok(self, nbytes, order):
        if nbytes <= 1:
            return True
        return order == ("big" if self.big else "little")

    def chunk(self, w, g):
        self.n += 1
        if g["k"] != "chunk":
            self.bad("item-kind", f"a {w['n']}-byte bit-field group is expected where the decoder reads {g['k']} "
                     f"{g.get('name', '')}")
            return False
        if g["n"] != w["n"]:
            self.bad("chunk-size", f"bit-field group of {w['n']} byte(s) is read as {g['n']} byte(s)")
            return False
        if not g.get("skipped") and not self.order_ok(g["n"], g["order"]):
            self.bad("byte-order", f"{g['n']}-byte group read in {g['order']} order in a {'big' if self.big else 'little'}"
                     f"-endian file")
        want = ref_chunk_bits(w, "dec")
        for pos, (a, b) in enumerate(zip(want, g.get("bits", []))):
            self.n += 1
            if a in (0, 1):
                if not (b[0] == "fixed" and b[1] == a):
                    self.bad("bit|fixed", f"bit {pos} must be compared with the fixed value bit {a} but is {b}")
                    return True
            elif a == ("ignored",):
                if b != ("ignored",):
                    self.bad("bit|reserved", f"reserved bit {pos} is used by the decoder as {b}")
                    return True
            elif a[0] == "f":
                if not (b[0] == "f" and b[1] == a[1] and b[2] == a[2]):
                    self.bad("bit|field", f"bit {pos} must be bit {a[2]} of field `{a[1]}` but is read as {b}")
                    return True
            elif a[0] == "size":
                _, target, mod, j = a
                tgt = "_payload_" if target in ("_payload_", "_body_") else target
                ok = False
                reason = "not-used-as-size"
                if b[0] == "size" and b[1] == tgt and b[-1] == j:
                    if b[2] == mod:
                        ok = True
                    else:
                        reason = "modifier" if tgt == "_payload_" else "array-size-modifier"
                elif b[0] == "count|size1" and b[1] == tgt and b[-1] == j:
                    arr = self.array_ref(tgt)
                    if arr is not None and arr.get("elem_bytes") == 1:
                        ok = mod == 0
                        reason = "array-size-modifier"
                    else:
                        reason = "size-used-as-count"
                if not ok:
                    if reason == "not-used-as-size":
                        arr = self.array_ref(tgt) if tgt != "_payload_" else None
                        reason += "|payload" if tgt == "_payload_" else ("|array-padded" if arr and arr.get("pad") else "|array")
                    self.bad(f"bit|size|{reason}", f"bit {pos} must be bit {j} of the octet size of `{target}` (+{mod}) but is "
                             f"read as {b}")
                    return True
            elif a[0] == "count":
                if not (b[0] in ("count", "count|size1") and b[1] == a[1] and b[-1] == a[2]):
                    self.bad("bit|count", f"bit {pos} must be bit {a[2]} of the element count of `{a[1]}` but is read as {b}")
                    return True
            elif a[0] == "elemsize":
                if not (b[0] == "elemsize" and b[1] == a[1] and b[-1] == a[2]):
                    self.bad("bit|elemsize", f"bit {pos} must be bit {a[2]} of the element size of `{a[1]}` but is read as {b}")
                    return True
            elif a[0] == "flag":
                if not (b[0] == "flag" and (b[1], b[2]) in a[2]):
                    self.bad("bit|flag", f"bit {pos} must be the presence flag of {a[2]} but is read as {b}")
                    return True
        return True

    def array_ref(self, name):
        for it in self.r.layout(self.ty):
            if it["k"] == "array" and it["name"] == name:
                return it
        return None

    def elem(self, w, g, what):
        if w["k"] in ("scalar", "enum"):
            if g.get("k") != w["k"] or g.get("w") != w["w"]:
                self.bad("elem", f"{what}: element {w} is read as {g}")
                return
            if w["k"] == "enum" and g.get("type") != w["type"]:
                self.bad("elem-type", f"{what}: enum {w['type']} converted as {g.get('type')}")
            if not self.order_ok(w["w"] // 8, g.get("order")):
                self.bad("byte-order", f"{what}: element read in {g.get('order')} order")
        else:
            if g.get("k") != "struct" or g.get("type") != w["type"]:
                self.bad("elem", f"{what}: element {w} is read as {g}")

    def array(self, w, g):
        self.n += 1
        if g["k"] != "array" or g.get("name") != w["name"]:
            self.bad("item-kind", f"array `{w['name']}` expected, decoder reads {g['k']} {g.get('name', '')}")
            return False
        self.elem(w["elem"], g["elem"], f"array `{w['name']}`")
        ws, gs = w["shape"], g["shape"]
        eb = w.get("elem_bytes")
        if ws["k"] == "static":
            if gs["k"] != "static" or gs["n"] != ws["n"]:
                self.bad("array-shape", f"array `{w['name']}`: {ws['n']} elements expected, decoder reads {gs}")
        elif ws["k"] == "count":
            if gs["k"] != "count":
                self.bad("array-shape", f"array `{w['name']}` is delimited by a count field, decoder uses {gs['k']}")
        elif ws["k"] == "size":
            if gs["k"] == "size":
                if eb is not None and gs.get("elem_bytes") not in (None, eb):
                    self.bad("array-shape|element-octets", f"array `{w['name']}`: size divided by {gs.get('elem_bytes')} instead of {eb}")
                if eb is not None and eb > 1 and not w.get("elemsize"):
                    # size must be a multiple of the element size
                    if not any(v == "ArraySizeError" for v, c, e in self.dl.checks):
                        self.bad("reject|array-size", f"array `{w['name']}`: no ArraySizeError when the size is not a "
                                 f"multiple of {eb}")
            elif gs["k"] == "count" and eb == 1:
                pass
            else:
                self.bad(f"array-shape|size->{gs['k']}" + ("|padded" if w["pad"] else ""),
                         f"array `{w['name']}` is delimited by a size field, decoder uses {gs['k']}")
        elif ws["k"] == "rest":
            if gs["k"] == "static" and w["pad"] is not None and eb and gs["n"] == w["pad"] // eb:
                pass        # rest of a padded region of constant size
            elif gs["k"] != "rest":
                self.bad(f"array-shape|rest->{gs['k']}", f"array `{w['name']}` extends to the end of its scope, decoder uses {gs['k']}")
            elif eb is not None and gs.get("elem_bytes") not in (None, eb):
                self.bad("array-shape|element-octets", f"array `{w['name']}`: remaining length divided by "
                         f"{gs.get('elem_bytes')} instead of {eb}")
            elif eb is not None and eb > 1 and not w.get("elemsize") and gs.get("elem_bytes") == eb:
                if not any(v == "ArraySizeError" for v, c, e in self.dl.checks):
                    self.bad("reject|array-size", f"array `{w['name']}`: no ArraySizeError when the remaining length is not a "
                             f"multiple of {eb}")
        if (w["pad"] or None) != (g.get("pad") or None):
            self.bad("padding", f"array `{w['name']}`: padded to {w['pad']} octets in the reference, {g.get('pad')} in the decoder")
        if w.get("elemsize"):
            if not g.get("elemsize"):
                self.bad("elemsize", f"array `{w['name']}` has an element-size field the decoder does not use")
            elif not g.get("trailing_check"):
                self.bad("reject|trailing-bytes-in-array", f"array `{w['name']}`: no TrailingBytesInArray check for sized elements")
        return True

    def run(self, W):
        G = [x for x in self.dl.items]
        gi = 0
        for w in W:
            k = w["k"]
            if k == "checksum_start":
                continue
            g = G[gi] if gi < len(G) else None
            if g is None:
                self.bad("missing-item", f"the decoder stops before reading the {k} item {w.get('name', '')}")
                return
            if k == "chunk":
                if g.get("k") == "chunk" and g.get("skipped") and g["n"] != w["n"]:
                    # a run of reserved-only groups skipped at once
                    all_res = all(bf["k"] == "reserved" for bf in w["fields"])
                    left = self.__dict__.setdefault("_skip_left", {}).get(id(g), g["n"])
                    if all_res and left >= w["n"]:
                        left -= w["n"]
                        self._skip_left[id(g)] = left
                        self.n += 1
                        if left > 0:
                            continue        # stay on the same skipped item
                        gi += 1
                        continue
                if not self.chunk(w, g):
                    return
            elif k == "array":
                if not self.array(w, g):
                    return
            elif k == "payload":
                self.n += 1
                if g["k"] != "payload":
                    self.bad("item-kind", f"payload expected, decoder reads {g['k']} {g.get('name', '')}")
                    return
                ws, gs = w["shape"], g["shape"]
                if ws["k"] == "size":
                    if gs["k"] != "size":
                        self.bad("payload-delimitation", "the payload is delimited by a size field in the reference but the "
                                 "decoder takes the rest of the input")
                    elif gs["mod"] != ws["mod"]:
                        self.bad("payload-modifier", f"payload size modifier {ws['mod']} in the reference, {gs['mod']} in the decoder")
                elif ws["k"] == "rest":
                    if gs["k"] != "rest":
                        self.bad("payload-delimitation", "the payload extends to the end (minus static trailing fields) in the "
                                 "reference but the decoder delimits it by a field")
                    elif gs.get("tail") != ws["tail"]:
                        later = W[W.index(w) + 1:]
                        cause = "|padded-array" if any(x["k"] == "array" and x.get("pad") for x in later) else ""
                        self.bad("payload-tail" + cause, f"the payload must leave {ws['tail']} trailing octet(s), the decoder leaves "
                                 f"{gs.get('tail')}")
            elif k == "typedef":
                self.n += 1
                if w["tk"] == "struct":
                    if g["k"] != "typedef" or g.get("type") != w["type"]:
                        self.bad("item-kind", f"struct field `{w['name']}`: {w['type']} expected, decoder reads {g['k']} "
                                 f"{g.get('type', '')}")
                        return
                    if g.get("name") not in (w["name"], None):
                        self.bad("typedef-name", f"struct field `{w['name']}` is bound as `{g.get('name')}`")
                elif w["tk"] == "custom" and w["w"] is not None:
                    fake = {"n": w["w"] // 8, "fields": [{"k": "scalar", "name": w["name"], "shift": 0, "width": w["w"]}]}
                    if not self.chunk(fake, g):
                        return
                else:
                    if g["k"] != "typedef":
                        self.bad("item-kind", f"custom field `{w['name']}` expected, decoder reads {g['k']}")
                        return
            elif k == "optional":
                self.n += 1
                if g["k"] != "optional" or g.get("name") != w["name"]:
                    self.bad("item-kind", f"optional field `{w['name']}` expected, decoder reads {g['k']} {g.get('name', '')}")
                    return
                if g["flag"] is None or g["flag"][1] != w["value"]:
                    self.bad("optional-condition", f"optional `{w['name']}` must be present iff {w['flag']} == {w['value']}, "
                             f"decoder tests {g['flag'][1] if g['flag'] else None}")
                else:
                    fv = self.dl.var.get(w["flag"])
                    if fv is not None and fv.key() != g["flag"][0].key():
                        self.bad("optional-flag", f"optional `{w['name']}` is conditioned on another value than flag `{w['flag']}`")
                self.elem(w["inner"], g["inner"], f"optional `{w['name']}`")
            gi += 1
        if gi < len(G):
            self.bad("extra-item", f"the decoder reads an extra {G[gi]['k']} item {G[gi].get('name', '')} after the last "
                     f"reference item")


def enum_conversions_checked(rep, dl, where, stats):
    """every enum conversion's error is mapped to EnumValueError and propagated"""
    ev = dl.ev
    for e in rslayout.walk(ev.events):
        if e.kind == "enum_conv":
            stats["rejects"] += 1


def check_type(rep, name, m, r, ty, stats):
    where = f"{name}:{ty}"
    try:
        want = r.layout(ty)
    except refm.RefError as e:
        rep.notes.append(f"reference model cannot lay out {name}:{ty}: {e}")
        return None
    is_child = m.fn(ty, "decode_partial") is not None
    ev = m.eval_decode_partial(ty) if is_child else m.eval_decode(ty)
    dl = DecoderLayout(ev)
    if dl.always_fails is not None:
        rep.add(f"C04|rust|dec|always-rejects|{dl.always_fails[0]}", f"the decoder of {ty} returns {dl.always_fails[0]} for "
                f"every input: a check that is always true precedes the remaining fields (fields after an open-ended array)",
                where)
        stats["types"] += 1
        return None
    c = DCmp(rep, where, r, ty, dl)
    c.run(want)
    stats["items"] += c.n
    stats["types"] += 1
    # a constant length guard that demands more than the reads it protects rejects valid encodings (the rule is C16's,
    # the consequence is this property's)
    from .c16 import tight_guards

    class _Over:
        notes = rep.notes

        @staticmethod
        def add(key, what, where_, detail=None):
            if key.endswith("|over"):
                rep.add(key.replace("C16|", "C04|", 1), what, where_, detail)
    tight_guards(_Over, name, ty, "decode_partial" if is_child else "decode", ev, {"guards": 0})
    # rejection inventory
    variants = [v for v, cnd, e in dl.checks]
    if is_child:
        stats["rejects"] += 1
        # trailing bytes after the child's fields must be rejected
        tb = "TrailingBytesError" in dl.return_errors
        last = [w for w in want if w["k"] != "checksum_start"]
        open_ended = bool(last) and ((last[-1]["k"] == "array" and last[-1]["shape"]["k"] == "rest") or
                                     (last[-1]["k"] == "payload" and last[-1]["shape"]["k"] == "rest"))
        parent = r.decls[ty].parent
        no_payload = parent is not None and not r.has_payload(parent)
        if not tb and not open_ended and not no_payload:
            rep.add("C04|rust|dec|reject|trailing-bytes", "decode_partial does not reject bytes left over in the parent's payload",
                    where)
        # one ConstraintValueError per local constraint
        cons = r.decls[ty].constraints
        n_cons = sum(1 for v in variants if v == "ConstraintValueError")
        stats["rejects"] += len(cons)
        if n_cons != len(cons):
            rep.add("C04|rust|dec|reject|constraints", f"{len(cons)} local constraint(s) in the reference, {n_cons} "
                    f"ConstraintValueError check(s) in decode_partial", where)
    # enum conversions: mapped to EnumValueError and propagated by `?`
    for e in rslayout.walk(ev.events):
        if e.kind == "enum_conv":
            stats["rejects"] += 1
    trys = [e for e in rslayout.walk(ev.events) if e.kind == "try"]
    for t in trys:
        err = t.err or {}
        if err.get("kind") == "enum":
            mv = err.get("mapped")
            if getattr(mv, "variant", None) != "EnumValueError":
                rep.add("C04|rust|dec|reject|enum-error-variant", f"an undeclared enum value is reported as "
                        f"{getattr(mv, 'variant', None)} instead of EnumValueError", where)
    return want, dl


def nested_extent(rep, name, r, dls, stats):
    """A struct used as a field that is not last, or as an array element, must be decoded from exactly its own
    octets.  The decoder of a derived struct runs its root ancestor's decoder on the span it is given: when that
    ancestor's payload is open ended the nested decode swallows the rest of the enclosing packet, although the
    reference extent of the derived struct is its own (static or self-delimited) size."""
    memo_d, memo_r = {}, {}

    def root(ty):
        ch = r.parent_chain(ty)
        return ch[-1] if ch else ty

    def dec_open(ty):
        if ty in memo_d:
            return memo_d[ty]
        memo_d[ty] = False
        dl = dls.get(root(ty))
        res = False
        for it in (dl.items if dl is not None else []):
            if it["k"] == "payload" and it["shape"].get("k") == "rest":
                res = True
            elif it["k"] == "array" and it["shape"].get("k") == "rest" and it.get("pad") is None:
                res = True
            elif it["k"] == "typedef" and it.get("tk") == "struct" and dec_open(it["type"]):
                res = True
        memo_d[ty] = res
        return res

    def ref_open(ty):
        if ty in memo_r:
            return memo_r[ty]
        memo_r[ty] = False

        def walk(items):
            for it in items:
                if it["k"] == "payload" and it["shape"]["k"] in ("rest", "unknown"):
                    return True
                if it["k"] == "array" and it["shape"]["k"] == "rest" and it.get("pad") is None:
                    return True
                if it["k"] == "child" and it["shape"]["k"] != "size" and walk(it["items"]):
                    return True
                if it["k"] == "typedef" and it.get("tk") == "struct" and it["type"] in r.decls and ref_open(it["type"]):
                    return True
            return False
        try:
            res = walk(r.full_layout(ty))
        except refm.RefError:
            res = True
        memo_r[ty] = res
        return res

    for ty, dl in dls.items():
        uses = []
        for i, it in enumerate(dl.items):
            if it["k"] == "typedef" and it.get("tk") == "struct" and i + 1 < len(dl.items):
                uses.append((it["type"], f"field `{it.get('name')}`", "field"))
            elif it["k"] == "array" and it["elem"].get("k") == "struct":
                uses.append((it["elem"]["type"], f"array `{it.get('name')}`", "array-element"))
        for t, what, kind in uses:
            if t not in r.decls or r.decls[t].kind != "struct":
                continue
            stats["items"] += 1
            if dec_open(t) and not ref_open(t):
                rep.add(f"C04|rust|dec|nested-extent|consumes-rest|{kind}", f"{what} of type {t}: {t}::decode runs "
                        f"{root(t)}::decode on the enclosing span, whose open-ended payload takes every remaining octet; the "
                        f"reference extent of {t} is its own size, so valid encodings with anything after the first {t} are "
                        f"rejected", f"{name}:{ty}")


def run(rep, tier, seed):
    g = rc.gen(tier, seed)
    stats = {"items": 0, "types": 0, "rejects": 0}
    samples = []
    for name, m in rc.rust_subjects(g):
        r = rc.model_ref(g, name)
        if r is None:
            continue
        dls = {}
        for ty in m.type_names():
            if ty not in r.decls or r.decls[ty].kind not in ("packet", "struct"):
                continue
            res = check_type(rep, name, m, r, ty, stats)
            if res:
                dls[ty] = res[1]
            if res and len(samples) < 3:
                want, dl = res
                samples.append({"description": name, "type": ty, "reference_items": [w["k"] for w in want][:8],
                                "decoder_items": [x["k"] for x in dl.items][:8]})
        nested_extent(rep, name, r, dls, stats)
    rep.coverage.update({
        "programs": stats["types"], "disagreements_checked": stats["items"] + stats["rejects"], "samples": samples,
        "items_compared": stats["items"], "reject_points_checked": stats["rejects"],
        "explanation": "decoder layout (chunks bit by bit, arrays and their delimitation, padding, payload delimitation, "
                       "optionals, nested structs) == reference layout per declaration; rejection inventory per cause",
    })
    rep.assumptions += ["the iff over all byte strings as one theorem is not machine-checked: accept/reject structure is "
                        "compared clause by clause", "length guards are decided by C01, enum accepted sets by C15"]
    if stats["types"] < 300:
        rep.add("C04|coverage-floor", f"only {stats['types']} types compared (floor 300)", "corpus")
