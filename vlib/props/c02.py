"""C02 — Rust encode then decode is the identity (structural clauses).

Round-trip equality is a statement about values; what is decided is the set of necessary
conditions whose failure breaks it, encoder against decoder directly (no third party):
(a) the layout written by encode / encode_partial equals the layout read by decode /
    decode_partial item by item: chunk sizes and byte order, the same field at the same bit,
    array elements, padding, payload, optionals, nested types;
(b) every derived field is derived and consumed symmetrically: the bits the encoder fills
    with len / octet size (+modifier) / element size / is_some of a member are the bits the
    decoder uses to delimit exactly that member (with the same modifier / element octets);
(c) fixed bits: what the encoder writes as constant is what the decoder compares;
(d) every value the decoder can produce for a field is accepted by the encoder's range check."""
from . import rustcommon as rc
from . import c05
from .. import rslayout, sym
from ..rslayout import DecoderLayout

LEVEL = "translation_validation"


def expand(items, partial):
    out = []
    for it in items:
        if it["k"] == "child":
            out += partial
        else:
            out.append(it)
    return out


def padded_target(a, D_items):
    for it in D_items or []:
        if it["k"] == "array" and it.get("name") == a[1] and it.get("pad"):
            return True
    return False


def cmp_chunk(bad, e, d, is_child_parent_part=False, D_items=None):
    if d["k"] != "chunk":
        bad("item-kind", f"encoder writes a {e['n']}-byte group where the decoder reads {d['k']} {d.get('name', '')}")
        return
    if e["n"] != d["n"]:
        bad("chunk-size", f"encoder writes {e['n']} byte(s), decoder reads {d['n']}")
        return
    if e["n"] > 1 and not e.get("fill") and not d.get("skipped") and e["order"] != d["order"]:
        bad("byte-order", f"group written {e['order']} and read {d['order']}")
    widths = {}
    for pos, (a, b) in enumerate(zip(e["bits"], d.get("bits", []))):
        if b[0] == "f":
            widths[b[1]] = max(widths.get(b[1], 0), b[2] + 1)
        if a in (0, 1):
            if b == ("ignored",):
                if a != 0:
                    bad("bit|constant-ignored", f"bit {pos}: encoder writes constant 1, decoder ignores it")
                    return
            elif b[0] == "fixed":
                if b[1] != a:
                    bad("bit|fixed-value", f"bit {pos}: encoder writes {a}, decoder expects {b[1]}")
                    return
            elif b[0] == "f":
                # allowed when the field's value can never reach this bit on the encode side
                continue
            elif b[0] in ("size", "count", "count|size1", "elemsize", "flag"):
                continue        # constant derived value (static child / always-zero high bits): C03 decides
            else:
                bad("bit|constant-vs-use", f"bit {pos}: encoder writes constant {a}, decoder uses it as {b}")
                return
        elif isinstance(a, tuple) and a[0] == "f":
            if not (b[0] == "f" and b[1] == a[1] and b[2] == a[-1]):
                bad("bit|field", f"bit {pos}: encoder writes bit {a[-1]} of `{a[1]}`, decoder reads {b}")
                return
        elif isinstance(a, tuple) and a[0] in ("len", "sumlen", "size", "sizeexpr"):
            j = a[-1]
            if b[0] in ("size", "count", "count|size1") and b[-1] == j:
                if a[0] == "len" and b[0] in ("count", "count|size1") and a[2] == 1 and a[1] == b[1]:
                    continue
                if b[0] == "size":
                    # payload: modifier symmetric; arrays: same target
                    if a[0] == "size" and b[1] == "_payload_":
                        if a[2] != b[2] and not is_child_parent_part:
                            bad("derived|payload-modifier", f"encoder adds {a[2]} to the payload size, decoder subtracts {b[2]}")
                            return
                        continue
                    if a[0] in ("len", "sumlen") and a[1] == b[1]:
                        continue
                    if a[0] in ("sizeexpr", "len", "sumlen") and b[1] == "_payload_":
                        continue       # child: size of the child's region (C03 checks the value)
                bad("derived|asymmetric", f"bit {pos}: encoder derives {a[:3]}, decoder consumes it as {b}")
                return
            bad("derived|not-consumed" + ("|array-padded" if padded_target(a, D_items) else ""),
                f"bit {pos}: encoder derives {a[:3]}, decoder reads {b}")
            return
        elif isinstance(a, tuple) and a[0] == "elemsize":
            if not (b[0] == "elemsize" and b[1] == a[1] and b[-1] == a[-1]):
                bad("derived|elemsize", f"bit {pos}: encoder writes the element size of `{a[1]}`, decoder reads {b}")
                return
        elif isinstance(a, tuple) and a[0] == "flag":
            if b[0] != "flag":
                bad("derived|flag", f"bit {pos}: encoder writes the presence flag of `{a[1]}`, decoder reads {b}")
                return
            # several optional fields may share one flag: the decoder's role names one of them
        elif isinstance(a, tuple) and a[0] in ("overlap", "unknown"):
            bad("bit|" + a[0], f"bit {pos}: encoder value is {a[0]}")
            return
    # (d) decoder range within encoder's accepted range
    his = e.get("his") or {}
    for name, w in widths.items():
        if name in (e.get("enum_fields") or ()):
            continue        # enum fields pass through try_from: their set is decided by C15
        hi = his.get(("f", name))
        if hi is not None and hi != sym.INF and hi < (1 << w) - 1:
            bad("range|decoder-wider-than-encoder", f"decoder yields up to {(1 << w) - 1} for `{name}` but the encoder only "
                f"accepts up to {hi}")


def cmp_elem(bad, ee, de, what):
    if ee.get("k") == "chunk":
        if de.get("k") not in ("scalar", "enum") or de.get("w") != ee["n"] * 8:
            bad("elem", f"{what}: encoder writes {ee['n']}-byte elements, decoder reads {de}")
            return
        if ee["n"] > 1 and ee["order"] != de.get("order"):
            bad("byte-order", f"{what}: elements written {ee['order']} and read {de.get('order')}")
    elif ee.get("k") == "nested":
        if de.get("k") != "struct" or (ee.get("type") and de.get("type") != ee["type"]):
            bad("elem", f"{what}: encoder writes {ee.get('type')} elements, decoder reads {de}")
    else:
        bad("elem", f"{what}: unrecognised element {ee}")


def compare(rep, where, E, D, env):
    n = [0]

    def bad(kind, msg):
        rep.add(f"C02|rust|{kind}", msg, where)
    ei = di = 0
    while ei < len(E):
        e = E[ei]
        d = D[di] if di < len(D) else None
        n[0] += 1
        if d is None:
            bad("decoder-stops-early", f"encoder writes a {e['k']} item the decoder never reads")
            return n[0]
        k = e["k"]
        if k == "chunk":
            if d["k"] == "typedef" and d.get("tk") == "struct":
                bad("item-kind", "encoder writes a group where the decoder parses a struct")
                return n[0]
            cmp_chunk(bad, e, d, D_items=D)
        elif k == "array":
            if d["k"] != "array" or "self." + str(d.get("name")) != e.get("src"):
                bad("item-kind", f"encoder writes array {e.get('src')}, decoder reads {d['k']} {d.get('name', '')}")
                return n[0]
            cmp_elem(bad, e.get("elem", {}), d["elem"], f"array {e.get('src')}")
            # padding: a fill item follows on the encoder side
            nxt = E[ei + 1] if ei + 1 < len(E) else None
            if nxt is not None and nxt["k"] == "fill":
                size = rslayout.item_bytes(e, env)
                total = sym.p_add(size, nxt["count"] or {})
                padded = int(total.get((), -1)) if list(total.keys()) in ([()], []) else None
                if padded is None or padded != d.get("pad"):
                    bad("padding", f"array {e.get('src')}: encoder pads to {padded} octets, decoder splits {d.get('pad')}")
                ei += 1
            elif d.get("pad") and not (nxt is not None and nxt["k"] == "chunk" and nxt.get("fill")):
                bad("padding", f"array {e.get('src')}: decoder expects {d.get('pad')} padded octets, encoder does not pad")
            elif d.get("pad") and nxt is not None and nxt.get("fill"):
                ei += 1
        elif k == "bytes":
            if d["k"] != "payload":
                bad("item-kind", f"encoder writes the payload where the decoder reads {d['k']}")
                return n[0]
        elif k == "nested":
            if d["k"] != "typedef" or (e.get("type") and d.get("type") != e["type"]):
                bad("item-kind", f"encoder writes {e.get('src')} : {e.get('type')}, decoder reads {d['k']} {d.get('type', '')}")
                return n[0]
        elif k == "optional":
            if d["k"] != "optional" or "self." + str(d.get("name")) != e.get("src"):
                bad("item-kind", f"encoder writes optional {e.get('src')}, decoder reads {d['k']} {d.get('name', '')}")
                return n[0]
            inner = e["items"]
            if len(inner) == 1:
                cmp_elem(bad, inner[0], d["inner"], f"optional {e.get('src')}")
            # presence <-> flag value symmetric: encoder's flag bit says `present` for is_some
        elif k == "fill":
            bad("item-kind", "unexpected padding fill")
        ei += 1
        di += 1
    if di < len(D):
        bad("encoder-stops-early", f"decoder reads a {D[di]['k']} item {D[di].get('name', '')} the encoder never writes")
    return n[0]


def run(rep, tier, seed):
    g = rc.gen(tier, seed)
    stats = {"types": 0, "items": 0}
    samples = []
    for name, m in rc.rust_subjects(g):
        r = rc.model_ref(g, name)
        for ty in m.type_names():
            if r is not None and ty in r.decls and r.decls[ty].kind not in ("packet", "struct"):
                continue
            if m.fn(ty, "encode") is None or m.fn(ty, "decode") is None:
                continue
            where = f"{name}:{ty}"
            is_child = m.fn(ty, "decode_partial") is not None
            if is_child:
                eev = m.eval_encode(ty, "encode_partial")
                dev = m.eval_decode_partial(ty)
            else:
                eev = m.eval_encode(ty, "encode")
                dev = m.eval_decode(ty)
            E = rslayout.encoder_items(eev)
            dl = DecoderLayout(dev)
            if dl.always_fails is not None:
                rep.add(f"C02|rust|decoder-always-rejects|{dl.always_fails[0]}", f"decode of {ty} fails for every input, "
                        f"so no encoding round-trips", where)
                stats["types"] += 1
                continue
            stats["items"] += compare(rep, where, E, dl.items, eev.env)
            stats["types"] += 1
            c05.consistent_values_accepted(rep, name, ty, "encode_partial" if is_child else "encode", eev, r, stats)
            # (c') child: encode = parent layout with encode_partial in the payload slot; decode = parent decode +
            # decode_partial over parent.payload
            if is_child:
                f = m.fn(ty, "decode")
                body = f["body"]
                ok = False
                dd = m.eval_decode(ty)
                kinds = [e.kind for e in rslayout.walk(dd.events)]
                if "nested" in kinds and "decode_partial" in kinds:
                    ok = True
                if not ok:
                    rep.add("C02|rust|child-decode-shape", f"{ty}::decode is not `Parent::decode` followed by decode_partial", where)
                ee = m.eval_encode(ty, "encode")
                if not any(e.kind == "write_partial" for e in rslayout.walk(ee.events)) and any(
                        x["k"] not in ("chunk",) or True for x in E):
                    parent = m.parent_of(ty)
                    pr = r.has_payload(parent) if (r is not None and parent in r.decls) else True
                    if pr:
                        rep.add("C02|rust|child-encode-shape", f"{ty}::encode does not place encode_partial in the parent's "
                                f"payload slot", where)
            if len(samples) < 3:
                samples.append({"description": name, "type": ty, "encoder_items": [x["k"] for x in E][:8],
                                "decoder_items": [x["k"] for x in dl.items][:8]})
    rep.coverage.update({
        "programs": stats["types"], "disagreements_checked": stats["items"] + stats.get("consistent_cells", 0),
        "samples": samples, "consistent_presence_patterns_evaluated": stats.get("consistent_cells", 0),
        "inconsistency_checks_found": stats.get("icv_checks", 0),
        "explanation": "encoder layout vs decoder layout compared directly per declaration (own fields; children through "
                       "encode_partial/decode_partial), incl. symmetric derivation of size/count/element-size/flag fields "
                       "and decoder-range within encoder-accepted range",
    })
    rep.assumptions += ["equality of Vec/Option contents as runtime values follows from (a)-(d), C01, C05 and the bytes "
                        "contracts; that implication is argued in DESIGN.md, not machine-checked"]
    if stats.get("consistent_cells", 0) < 100:
        rep.add("C02|coverage-floor|presence", f"only {stats.get('consistent_cells', 0)} consistent presence patterns evaluated "
                f"(floor 100)", "corpus")
    if stats["types"] < 300:
        rep.add("C02|coverage-floor", f"only {stats['types']} types compared (floor 300)", "corpus")
