"""C17 — endianness duality.

For every corpus description D and its twin D' (same text, other endianness declaration),
per backend: the extracted layouts are identical item for item except the byte-order tag of
multi-byte chunks, array elements, optional scalars/enums and sized custom fields;
single-byte accesses carry no order; byte arrays, payloads and padding are identical.
Together with C03 (each layout == reference) this is the byte-reversal statement."""
import re

from . import rustcommon as rc
from .. import rslayout, sym
from ..rslayout import DecoderLayout

LEVEL = "translation_validation"


def canon_bits(bits):
    out = []
    for b in bits:
        if isinstance(b, tuple):
            out.append(tuple(str(x) if isinstance(x, dict) else x for x in b if not isinstance(x, dict)))
        else:
            out.append(b)
    return tuple(out)


def canon_enc(items, env):
    """-> (structure without byte order, [(nbytes, order)] list of ordered accesses)"""
    st, orders = [], []
    for it in items:
        k = it["k"]
        if k == "chunk" and it.get("fill"):
            st.append(("fill", 0, str(it["n"])))
            orders.append((it["n"], it["order"], True))
        elif k == "chunk":
            st.append(("chunk", it["n"], canon_bits(it["bits"])))
            orders.append((it["n"], it["order"], bool(it.get("fill"))))
        elif k == "array":
            el = it.get("elem", {})
            if el.get("k") == "chunk":
                st.append(("array", it.get("src"), "chunk", el["n"], canon_bits(el["bits"])))
                orders.append((el["n"], el["order"], False))
            else:
                st.append(("array", it.get("src"), el.get("k"), el.get("type")))
        elif k == "fill":
            st.append(("fill", it["value"], sym.p_str(it["count"] or {})))
        elif k == "bytes":
            st.append(("bytes", it["src"]))
        elif k == "nested":
            st.append(("nested", it["src"], it.get("type")))
        elif k == "child":
            st.append(("child",))
        elif k == "optional":
            s2, o2 = canon_enc(it["items"], env)
            st.append(("optional", it.get("src"), tuple(s2)))
            orders += o2
    return st, orders


def canon_dec(items):
    st, orders = [], []
    for it in items:
        k = it["k"]
        if k == "chunk":
            st.append(("chunk", it["n"], canon_bits(it.get("bits", []))))
            orders.append((it["n"], it["order"], bool(it.get("skipped")) or all(b == ("ignored",) for b in it.get("bits", []))))
        elif k == "array":
            el = dict(it["elem"])
            o = el.pop("order", None)
            sh = {kk: vv for kk, vv in it["shape"].items() if kk != "v"}
            st.append(("array", it.get("name"), tuple(sorted(el.items())), tuple(sorted(sh.items())), it.get("pad"),
                       bool(it.get("elemsize"))))
            if el.get("k") in ("scalar", "enum"):
                orders.append((el["w"] // 8, o, False))
        elif k == "payload":
            sh = {kk: vv for kk, vv in it["shape"].items() if kk != "v"}
            st.append(("payload", tuple(sorted(sh.items()))))
        elif k == "typedef":
            st.append(("typedef", it.get("name"), it.get("type")))
        elif k == "optional":
            el = dict(it["inner"])
            o = el.pop("order", None)
            st.append(("optional", it.get("name"), it["flag"][1] if it["flag"] else None, tuple(sorted(el.items()))))
            if el.get("k") in ("scalar", "enum"):
                orders.append((el["w"] // 8, o, False))
    return st, orders


def byte_runs(items):
    """the byte image the static accesses write, as runs of per-byte bit provenance (LSB first inside a byte), in the
    order the bytes reach the wire; a run ends at every item whose size is not static"""
    runs, cur = [], []
    for it in items:
        if it["k"] == "chunk" and isinstance(it.get("n"), int) and it.get("bits") is not None \
                and len(it["bits"]) == it["n"] * 8:
            bits = list(canon_bits(it["bits"]))
            n = it["n"]
            order = it.get("order") or "little"
            bs = [tuple(bits[8 * k:8 * k + 8]) for k in range(n)]
            if order == "big" and not it.get("fill"):
                bs.reverse()
            cur += bs
        else:
            runs.append(cur)
            cur = []
    runs.append(cur)
    return runs


def group_runs(want):
    """reference groups (octet sizes of the bit-field groups), split into runs like byte_runs"""
    runs, cur = [], []
    for it in want:
        if it["k"] == "chunk":
            cur.append(it["n"])
        else:
            runs.append(cur)
            cur = []
    runs.append(cur)
    return runs


def byte_image_duality(rep, where, side, want, le_items, be_items):
    """inside every reference group the big-endian twin writes the bytes of the little-endian twin in reverse order --
    also when a group is written by several accesses, which the item-for-item comparison cannot see"""
    rl, rb, gr = byte_runs(le_items), byte_runs(be_items), group_runs(want)
    n = 0
    if not (len(rl) == len(rb) == len(gr)):
        return 0
    for a, b, gs in zip(rl, rb, gr):
        if len(a) != len(b) or len(a) != sum(gs):
            continue            # sizes are C03's subject
        off = 0
        for g in gs:
            n += 1
            if list(reversed(a[off:off + g])) != b[off:off + g]:
                rep.add(f"C17|{side}|byte-image", f"the {g}-octet group at offset {off} of a static run is not byte-reversed "
                        f"between the twins (written by several accesses in an order that only suits one endianness)", where)
                return n
            off += g
    return n


def check_orders(rep, where, side, le, be):
    n = 0
    for i, ((n1, o1, f1), (n2, o2, f2)) in enumerate(zip(le, be)):
        n += 1
        if n1 != n2:
            rep.add(f"C17|rust|{side}|access-size", f"access #{i}: {n1} byte(s) little-endian, {n2} big-endian", where)
            continue
        if f1 or f2:
            continue
        if n1 <= 1:
            continue
        if o1 != "little" or o2 != "big":
            rep.add(f"C17|rust|{side}|byte-order", f"{n1}-byte access #{i}: order {o1} in the little-endian file and {o2} in the "
                    f"big-endian twin", where)
    return n


def run(rep, tier, seed):
    g = rc.gen(tier, seed)
    mods = dict(rc.rust_subjects(g))
    pairs = []
    for name in mods:
        if name.endswith("_le") and name[:-3] + "_be" in mods:
            pairs.append((name, name[:-3] + "_be"))
    stats = {"pairs": 0, "types": 0, "accesses": 0, "groups": 0}
    samples = []
    for le, be in pairs:
        ml, mb = mods[le], mods[be]
        rl_ = rc.model_ref(g, le)
        stats["pairs"] += 1
        tl, tb = ml.type_names(), mb.type_names()
        if le.startswith("r_canon"):
            tl = [t for t in tl if t in set(tb)]      # the big-endian canonical file drops little-endian-only parts
        elif tl != tb:
            rep.add("C17|rust|type-set", f"twins declare different types: {set(tl) ^ set(tb)}", le)
            continue
        for ty in tl:
            where = f"{le[:-3]}:{ty}"
            stats["types"] += 1
            for fn in ("encode", "encode_partial"):
                if ml.fn(ty, fn) is None:
                    continue
                el_, eb_ = ml.eval_encode(ty, fn), mb.eval_encode(ty, fn)
                sl, ol = canon_enc(rslayout.encoder_items(el_), el_.env)
                sb, ob = canon_enc(rslayout.encoder_items(eb_), eb_.env)
                if sl != sb:
                    diff = next((i for i, (a, b) in enumerate(zip(sl, sb)) if a != b), min(len(sl), len(sb)))
                    rep.add("C17|rust|enc|structure", f"{fn}: item #{diff} differs between the twins beyond byte order: "
                            f"{str(sl[diff] if diff < len(sl) else None)[:120]} vs {str(sb[diff] if diff < len(sb) else None)[:120]}", where)
                else:
                    stats["accesses"] += check_orders(rep, where, "enc", ol, ob)
                if fn == "encode" and rl_ is not None and ty in rl_.decls:
                    try:
                        want = rl_.full_layout(ty)
                    except Exception:
                        want = None
                    if want is not None:
                        il, ib = rslayout.encoder_items(el_), rslayout.encoder_items(eb_)
                        if ml.fn(ty, "encode_partial") is not None:
                            from .c03 import expand_child
                            il = expand_child(il, rslayout.encoder_items(ml.eval_encode(ty, "encode_partial")))
                            ib = expand_child(ib, rslayout.encoder_items(mb.eval_encode(ty, "encode_partial")))
                        stats["groups"] += byte_image_duality(rep, where, "rust|enc", want, il, ib)
            for fn in ("decode", "decode_partial"):
                if ml.fn(ty, fn) is None:
                    continue
                if fn == "decode" and ml.fn(ty, "decode_partial") is not None:
                    continue
                dl_ = DecoderLayout(ml.eval_decode(ty) if fn == "decode" else ml.eval_decode_partial(ty))
                db_ = DecoderLayout(mb.eval_decode(ty) if fn == "decode" else mb.eval_decode_partial(ty))
                sl, ol = canon_dec(dl_.items)
                sb, ob = canon_dec(db_.items)
                if sl != sb:
                    diff = next((i for i, (a, b) in enumerate(zip(sl, sb)) if a != b), min(len(sl), len(sb)))
                    rep.add("C17|rust|dec|structure", f"{fn}: item #{diff} differs between the twins beyond byte order: "
                            f"{str(sl[diff] if diff < len(sl) else None)[:120]} vs {str(sb[diff] if diff < len(sb) else None)[:120]}", where)
                else:
                    stats["accesses"] += check_orders(rep, where, "dec", ol, ob)
                if len(samples) < 3 and ol:
                    samples.append({"description": le[:-3], "type": ty, "little": [list(x) for x in ol][:6],
                                    "big": [list(x) for x in ob][:6]})
    add_other_backends(rep, g, stats)
    rep.coverage.update({
        "programs": stats["types"], "disagreements_checked": stats["accesses"], "twin_pairs": stats["pairs"],
        "samples": samples, "backends": stats.get("backends", ["rust"]), "groups_byte_reversed": stats["groups"],
        "explanation": "layouts of little/big-endian twins compared item for item; only the byte order tag of multi-byte "
                       "accesses may differ, and it must be little vs big; serializers additionally byte image by byte "
                       "image: inside every reference group the big-endian bytes are the little-endian ones reversed",
    })
    if stats["pairs"] < 40 or stats["groups"] < 800:
        rep.add("C17|coverage-floor", f"only {stats['pairs']} twin pairs / {stats['groups']} groups (floors 40 / 800)", "corpus")


def add_other_backends(rep, g, stats):
    try:
        from . import c17_py
    except ImportError:
        return
    c17_py.run(rep, g, stats)
