"""C17 — endianness duality.

For every corpus description D and its twin D' (same text, other endianness declaration),
per backend: the extracted layouts are identical item for item except the byte-order tag of
multi-byte chunks, array elements, optional scalars/enums and sized custom fields;
single-byte accesses carry no order; byte arrays, payloads and padding are identical.
Together with C03 (each layout == reference) this is the byte-reversal statement."""
import re

from . import rustcommon as rc
from .. import rslayout, sym
from ..rslayout import DecoderLayout

LEVEL = "translation_validation"


def canon_bits(bits):
    out = []
    for b in bits:
        if isinstance(b, tuple):
            out.append(tuple(str(x) if isinstance(x, dict) else x for x in b if not isinstance(x, dict)))
        else:
            out.append(b)
    return tuple(out)


def canon_enc(items, env):
    """-> (structure without byte order, [(nbytes, order)] list of ordered accesses)"""
    st, orders = [], []
    for it in items:
        k = it["k"]
        if k == "chunk" and it.get("fill"):
            st.append(("fill", 0, str(it["n"])))
            orders.append((it["n"], it["order"], True))
        elif k == "chunk":
            st.append(("chunk", it["n"], canon_bits(it["bits"])))
            orders.append((it["n"], it["order"], bool(it.get("fill"))))
        elif k == "array":
            el = it.get("elem", {})
            if el.get("k") == "chunk":
                st.append(("array", it.get("src"), "chunk", el["n"], canon_bits(el["bits"])))
                orders.append((el["n"], el["order"], False))
            else:
                st.append(("array", it.get("src"), el.get("k"), el.get("type")))
        elif k == "fill":
            st.append(("fill", it["value"], sym.p_str(it["count"] or {})))
        elif k == "bytes":
            st.append(("bytes", it["src"]))
        elif k == "nested":
            st.append(("nested", it["src"], it.get("type")))
        elif k == "child":
            st.append(("child",))
        elif k == "optional":
            s2, o2 = canon_enc(it["items"], env)
            st.append(("optional", it.get("src"), tuple(s2)))
            orders += o2
    return st, orders


def canon_dec(items):
    st, orders = [], []
    for it in items:
        k = it["k"]
        if k == "chunk":
            st.append(("chunk", it["n"], canon_bits(it.get("bits", []))))
            orders.append((it["n"], it["order"], bool(it.get("skipped")) or all(b == ("ignored",) for b in it.get("bits", []))))
        elif k == "array":
            el = dict(it["elem"])
            o = el.pop("order", None)
            sh = {kk: vv for kk, vv in it["shape"].items() if kk != "v"}
            st.append(("array", it.get("name"), tuple(sorted(el.items())), tuple(sorted(sh.items())), it.get("pad"),
                       bool(it.get("elemsize"))))
            if el.get("k") in ("scalar", "enum"):
                orders.append((el["w"] // 8, o, False))
        elif k == "payload":
            sh = {kk: vv for kk, vv in it["shape"].items() if kk != "v"}
            st.append(("payload", tuple(sorted(sh.items()))))
        elif k == "typedef":
            st.append(("typedef", it.get("name"), it.get("type")))
        elif k == "optional":
            el = dict(it["inner"])
            o = el.pop("order", None)
            st.append(("optional", it.get("name"), it["flag"][1] if it["flag"] else None, tuple(sorted(el.items()))))
            if el.get("k") in ("scalar", "enum"):
                orders.append((el["w"] // 8, o, False))
    return st, orders


def check_orders(rep, where, side, le, be):
    n = 0
    for i, ((n1, o1, f1), (n2, o2, f2)) in enumerate(zip(le, be)):
        n += 1
        if n1 != n2:
            rep.add(f"C17|rust|{side}|access-size", f"access #{i}: {n1} byte(s) little-endian, {n2} big-endian", where)
            continue
        if f1 or f2:
            continue
        if n1 <= 1:
            continue
        if o1 != "little" or o2 != "big":
            rep.add(f"C17|rust|{side}|byte-order", f"{n1}-byte access #{i}: order {o1} in the little-endian file and {o2} in the "
                    f"big-endian twin", where)
    return n


def run(rep, tier, seed):
    g = rc.gen(tier, seed)
    mods = dict(rc.rust_subjects(g))
    pairs = []
    for name in mods:
        if name.endswith("_le") and name[:-3] + "_be" in mods:
            pairs.append((name, name[:-3] + "_be"))
    stats = {"pairs": 0, "types": 0, "accesses": 0}
    samples = []
    for le, be in pairs:
        ml, mb = mods[le], mods[be]
        stats["pairs"] += 1
        tl, tb = ml.type_names(), mb.type_names()
        if le.startswith("r_canon"):
            tl = [t for t in tl if t in set(tb)]      # the big-endian canonical file drops little-endian-only parts
        elif tl != tb:
            rep.add("C17|rust|type-set", f"twins declare different types: {set(tl) ^ set(tb)}", le)
            continue
        for ty in tl:
            where = f"{le[:-3]}:{ty}"
            stats["types"] += 1
            for fn in ("encode", "encode_partial"):
                if ml.fn(ty, fn) is None:
                    continue
                el_, eb_ = ml.eval_encode(ty, fn), mb.eval_encode(ty, fn)
                sl, ol = canon_enc(rslayout.encoder_items(el_), el_.env)
                sb, ob = canon_enc(rslayout.encoder_items(eb_), eb_.env)
                if sl != sb:
                    diff = next((i for i, (a, b) in enumerate(zip(sl, sb)) if a != b), min(len(sl), len(sb)))
                    rep.add("C17|rust|enc|structure", f"{fn}: item #{diff} differs between the twins beyond byte order: "
                            f"{str(sl[diff] if diff < len(sl) else None)[:120]} vs {str(sb[diff] if diff < len(sb) else None)[:120]}", where)
                else:
                    stats["accesses"] += check_orders(rep, where, "enc", ol, ob)
            for fn in ("decode", "decode_partial"):
                if ml.fn(ty, fn) is None:
                    continue
                if fn == "decode" and ml.fn(ty, "decode_partial") is not None:
                    continue
                dl_ = DecoderLayout(ml.eval_decode(ty) if fn == "decode" else ml.eval_decode_partial(ty))
                db_ = DecoderLayout(mb.eval_decode(ty) if fn == "decode" else mb.eval_decode_partial(ty))
                sl, ol = canon_dec(dl_.items)
                sb, ob = canon_dec(db_.items)
                if sl != sb:
                    diff = next((i for i, (a, b) in enumerate(zip(sl, sb)) if a != b), min(len(sl), len(sb)))
                    rep.add("C17|rust|dec|structure", f"{fn}: item #{diff} differs between the twins beyond byte order: "
                            f"{str(sl[diff] if diff < len(sl) else None)[:120]} vs {str(sb[diff] if diff < len(sb) else None)[:120]}", where)
                else:
                    stats["accesses"] += check_orders(rep, where, "dec", ol, ob)
                if len(samples) < 3 and ol:
                    samples.append({"description": le[:-3], "type": ty, "little": [list(x) for x in ol][:6],
                                    "big": [list(x) for x in ob][:6]})
    add_other_backends(rep, g, stats)
    rep.coverage.update({
        "programs": stats["types"], "disagreements_checked": stats["accesses"], "twin_pairs": stats["pairs"],
        "samples": samples, "backends": stats.get("backends", ["rust"]),
        "explanation": "layouts of little/big-endian twins compared item for item; only the byte order tag of multi-byte "
                       "accesses may differ, and it must be little vs big",
    })
    if stats["pairs"] < 40:
        rep.add("C17|coverage-floor", f"only {stats['pairs']} twin pairs (floor 40)", "corpus")


def add_other_backends(rep, g, stats):
    try:
        from . import c17_py
    except ImportError:
        return
    c17_py.run(rep, g, stats)
