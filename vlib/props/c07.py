"""C07 — all backends agree on the wire format (Rust and Python; C++ when its front-end is available).

For every corpus description in the intersection of constructs, the layouts extracted from the
backends' serializers are pairwise equal and the parsers' layouts are pairwise equal - direct
comparison, not via the reference, so a gap of the reference model cannot hide a disagreement.
Plus the source rule that every comparison of a size field's target uses the sentinels the
parser can produce ("_payload_", "_body_")."""
import re

from . import rustcommon as rc
from .c13 import py_subjects, widths_for
from .c17 import canon_dec, canon_enc
from .. import rslayout, pyeval, stages, synq
from ..rslayout import DecoderLayout

LEVEL = "translation_validation"


def merge_skipped(st, orders):
    """consecutive ignored-only chunks are one region (Python skips them at once)"""
    out = []
    for it in st:
        if it[0] == "chunk" and all(b == ("ignored",) for b in it[2]) and out and out[-1][0] == "chunk" and \
                all(b == ("ignored",) for b in out[-1][2]):
            prev = out.pop()
            out.append(("chunk", prev[1] + it[1], prev[2] + it[2]))
        else:
            out.append(it)
    return out


def norm_dec(st):
    out = []
    for it in st:
        if it[0] == "array":
            # shapes: Rust reports elem_bytes for rest/size by division; Python likewise; drop None/absent differences
            sh = dict(it[3])
            sh.pop("elem_bytes", None)
            out.append(("array", it[1], it[2], tuple(sorted(sh.items())), it[4], it[5]))
        else:
            out.append(it)
    return out


def bit_compat(x, y):
    if x == y:
        return True
    # one side proved the bit always zero (value range), the other carries the field bit
    for p, q in ((x, y), (y, x)):
        if p == 0 and isinstance(q, tuple) and q and q[0] in ("f", "elem", "val", "len", "size", "sumlen", "sizeexpr", "count"):
            return True
    return False


def item_compat(x, y):
    if x == y:
        return True
    if x is None or y is None or x[0] != y[0]:
        return False
    if x[0] == "chunk":
        return x[1] == y[1] and len(x[2]) == len(y[2]) and all(bit_compat(p, q) for p, q in zip(x[2], y[2]))
    if x[0] == "array" and len(x) == 5 and len(y) == 5:
        return x[1:4] == y[1:4] and all(bit_compat(p, q) for p, q in zip(x[4], y[4]))
    if x[0] == "optional":
        return x[1] == y[1] and len(x[2]) == len(y[2]) and all(item_compat(p, q) for p, q in zip(x[2], y[2]))
    return False


def diff_kind(x, y):
    if x is None or y is None:
        return "missing"
    if x[0] != y[0]:
        return f"{x[0]}-vs-{y[0]}"
    if x[0] == "chunk" and len(x[2]) == len(y[2]):
        for p, q in zip(x[2], y[2]):
            if not bit_compat(p, q):
                pk = p[0] if isinstance(p, tuple) else "const"
                qk = q[0] if isinstance(q, tuple) else "const"
                return f"chunk|{pk}-vs-{qk}"
    return x[0]


def first_diff(a, b):
    for i, (x, y) in enumerate(zip(a, b)):
        if not item_compat(x, y):
            return i, x, y
    if len(a) != len(b):
        i = min(len(a), len(b))
        return i, a[i] if i < len(a) else None, b[i] if i < len(b) else None
    return None


def run(rep, tier, seed):
    g = rc.gen(tier, seed)
    rust = dict(rc.rust_subjects(g))
    py = dict(py_subjects(g))
    stats = {"types": 0, "items": 0}
    samples = []
    for name in sorted(set(rust) & set(py)):
        r = rc.model_ref(g, name)
        if r is None:
            continue
        m, pm = rust[name], py[name]
        for ty in m.type_names():
            if ty not in r.decls or r.decls[ty].kind not in ("packet", "struct") or ty not in pm.classes:
                continue
            fs = r.inlined(ty)
            if any(f.kind == "checksum_start" for f in fs):
                continue
            if any(f.kind in ("typedef", "array") and f.type in r.decls and r.decls[f.type].kind in ("custom", "checksum")
                   for f in fs):
                continue        # user-supplied types are represented differently per language
            where = f"{name}:{ty}"
            is_child = m.fn(ty, "decode_partial") is not None
            # parsers
            rdl = DecoderLayout(m.eval_decode_partial(ty) if is_child else m.eval_decode(ty))
            pev = pyeval.ParseEval(pm, ty).run()
            if rdl.always_fails is not None or pev.always_fails is not None:
                if (rdl.always_fails is None) != (pev.always_fails is None):
                    side = "rust-only" if rdl.always_fails is not None else "python-only"
                    rep.add(f"C07|parse|always-rejects|{side}", f"the {side.split('-')[0]} parser rejects every input, the other "
                            f"backend's parser does not", where)
                continue
            a, _ = canon_dec(rdl.items)
            b, _ = canon_dec(pev.items)
            a, b = norm_dec(merge_skipped(a, None)), norm_dec(merge_skipped(b, None))
            ao = [(n_, o) for n_, o, f in canon_dec(rdl.items)[1] if n_ > 1 and not f]
            bo = [(n_, o) for n_, o, f in canon_dec(pev.items)[1] if n_ > 1 and not f]
            stats["items"] += len(a)
            d = first_diff(a, b)
            if d is not None:
                kind = diff_kind(d[1], d[2])
                rep.add(f"C07|rust-python|parse|{kind}", f"parsers disagree at item #{d[0]}: rust {str(d[1])[:150]} / python "
                        f"{str(d[2])[:150]}", where)
            elif ao != bo:
                rep.add("C07|rust-python|parse|byte-order", f"parsers use different byte orders: rust {ao[:6]} python {bo[:6]}", where)
            # serializers (own part)
            eev = m.eval_encode(ty, "encode_partial" if is_child else "encode")
            sev = pyeval.SerEval(pm, ty, widths_for(r, ty)).run()
            ea, eo = canon_enc(rslayout.encoder_items(eev), eev.env)
            eb, po = canon_enc(sev.items, sev.env)
            ea, eb = norm_enc(ea), norm_enc(eb)
            stats["items"] += len(ea)
            d = first_diff(ea, eb)
            if d is not None:
                kind = diff_kind(d[1], d[2])
                rep.add(f"C07|rust-python|serialize|{kind}", f"serializers disagree at item #{d[0]}: rust {str(d[1])[:150]} / "
                        f"python {str(d[2])[:150]}", where)
            else:
                eo2 = [(n_, o) for n_, o, f in eo if n_ > 1 and not f]
                po2 = [(n_, o) for n_, o, f in po if n_ > 1 and not f]
                if eo2 != po2:
                    rep.add("C07|rust-python|serialize|byte-order", f"serializers use different byte orders: rust {eo2[:6]} python "
                            f"{po2[:6]}", where)
            stats["types"] += 1
            if len(samples) < 3:
                samples.append({"description": name, "type": ty, "parse_items": [x[0] for x in a][:8],
                                "serialize_items": [x[0] for x in ea][:8]})
    sentinel_rule(rep, stats)
    rep.coverage.update({
        "programs": stats["types"], "disagreements_checked": stats["items"] + stats.get("sentinel_sites", 0),
        "samples": samples, "backends": ["rust", "python"], "sentinel_sites": stats.get("sentinel_sites", 0),
        "explanation": "pairwise comparison of the layouts extracted from the Rust and Python parsers and serializers; "
                       "sentinel agreement rule over all backends' sources (incl. Java)",
    })
    rep.assumptions += ["Java and C++ layouts are not extracted (no front-end): only the sentinel rule covers them",
                        "declarations using custom_field / checksum types are excluded (user-supplied code)"]
    if stats["types"] < 250:
        rep.add("C07|coverage-floor", f"only {stats['types']} types compared (floor 250)", "corpus")


def norm_enc(st):
    """language-neutral encoder structure: enum sources are `int(self.e)` in Rust and `self.e` in Python (same
    classification already); bytes arrays: Python `_span.extend(self.x)` vs Rust loop of put_u8 -> same ('array', ..)"""
    out = []
    for it in st:
        if it[0] == "chunk":
            bits = []
            for b in it[2]:
                if isinstance(b, tuple) and b and b[0] == "sizeexpr":
                    bits.append(("sizeexpr", b[-1]))
                elif isinstance(b, tuple) and b and b[0] == "len" and b[1] == "payload":
                    bits.append(("size", "_payload_", b[3], b[2], b[-1]))
                else:
                    bits.append(b)
            out.append(("chunk", it[1], tuple(bits)))
        elif it[0] == "array" and it[2] == "chunk":
            bits = tuple(("elem",) + tuple(b[1:]) if isinstance(b, tuple) and b[0] in ("elem", "f") else b for b in it[4])
            out.append(("array", it[1], "chunk", it[3], bits))
        elif it[0] == "optional":
            inner = tuple(("chunk", x[1], tuple(("val",) + tuple(b[1:]) if isinstance(b, tuple) and b[0] in ("optval", "f") else b
                                                for b in x[2])) if x[0] == "chunk" else (x[0],) for x in it[2])
            out.append(("optional", it[1], inner))
        elif it[0] == "fill":
            out.append(("fill", it[1]))
        elif it[0] == "nested":
            out.append(("nested", it[1].rstrip("?")))
        elif it[0] == "array" and len(it) == 4:
            out.append(("array", it[1], it[2]))
        else:
            out.append(it)
    return out


def sentinel_rule(rep, stats):
    """every string literal compared with a size field's target identifier is a sentinel the parser produces"""
    ptree = stages.repo_syn("pdl-compiler/src/parser.rs")
    g = None
    produced = {"_payload_", "_body_"}
    d = stages.stage_syn_repo()
    import json, os
    idx = json.load(open(os.path.join(d, "index.json")))
    n = 0
    for rel, p in idx.items():
        if not p or not rel.startswith("pdl-compiler/src") or rel.endswith("test.rs") or "/tests" in rel:
            continue
        tree = json.load(open(p))
        for node in synq.find_all(tree, lambda x: x.get("k") == "Binary" and x.get("op") in ("==", "!=")):
            sides = [node["lhs"], node["rhs"]]
            lit = next((s_ for s_ in sides if s_.get("k") == "Lit" and s_.get("ty") == "str"), None)
            oth = next((s_ for s_ in sides if s_ is not lit), None)
            if lit is None or oth is None:
                continue
            o = synq.expr_skel(oth)
            if oth.get("k") == "Path" and oth["path"]["s"] == "field_id":
                n += 1
                v = lit["v"]
                if v not in produced:
                    rep.add("C07|sentinel|field_id-literal", f"{rel}: `field_id` is compared with {v!r}, which the parser never "
                            f"produces (size targets are identifiers, \"_payload_\" or \"_body_\")", rel)
    stats["sentinel_sites"] = n
    if n < 20:
        rep.add("C07|floor|sentinel-sites", f"only {n} sentinel comparison sites found (floor 20)", "pdl-compiler/src")
