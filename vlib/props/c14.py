"""C14 — C++ backend: conformance and memory safety of views on arbitrary bytes.

Subject: clang's type-checked AST of every emitted header (cxxast), never compiled to code or run.

(a) View::Parse, struct Parse and the array getters are evaluated abstractly for ALL byte strings: every
    slice::read_le/read_be/skip/subrange/at needs its bytes (assert under debug, out-of-range access or vector::at
    exception otherwise), divisors are non-zero, size arithmetic that feeds a guard does not wrap, value-changing
    integral conversions do not silently shrink a parsed size, `while (span.size() > 0)` loops consume input,
    vector/array subscripts are in range, assertions other than the documented IsValid() precondition hold.
(b) what Parse reads (bit by bit, byte order, array and payload delimitation, padding, optionals, nested structs) is
    compared with the reference layout of the declaration; child views must test their constraints.
(c) Builder::Serialize is compared with the reference layout and GetSize() with the bytes written.
(d) the templates of packet_runtime.h (read_le/read_be/write_le/write_be) are evaluated per instantiation by unrolling
    their constant loops: byte i of the result must be the reference byte.
Functions containing compile errors are C10's findings and are skipped here (counted)."""
import os
import re

from . import rustcommon as rc
from .c04 import DCmp
from .. import cxxast, cxxmod, cxxeval, ref as refm

LEVEL = "translation_validation"


def key_for(o, fn):
    role = re.sub(r"#\d+", "", o.role or "")
    return f"C14|cxx|{fn}|{o.kind}|{role}"


def adapt_ref(items, r):
    out = []
    for it in items:
        if it["k"] == "checksum_start":
            continue
        out.append(it)
    return out


def check_parse(rep, name, cx, r, decl, c, stats, samples, is_view):
    where = f"{name}:{decl}"
    fnkind = "view-parse" if is_view else "struct-parse"
    ev = cx.eval_parse(c)
    if ev is None:
        return
    if ev.was_skipped:
        stats["skipped"] += 1
        return
    stats["functions"] += 1
    for o in ev.obls:
        stats["obligations"] += 1
        if o.ok:
            stats["discharged"] += 1
        else:
            rep.add(key_for(o, fnkind), o.what, f"{name}.h:{o.line} {c.name}::Parse")
    stats["undecided"] += len(ev.undecided)
    if is_view:
        for fld, g in cx.getters(c).items():
            gev = g["ev"]
            if gev.was_skipped:
                stats["skipped"] += 1
                continue
            stats["functions"] += 1
            stats["undecided"] += len(gev.undecided)
            for o in gev.obls:
                stats["obligations"] += 1
                if o.ok:
                    stats["discharged"] += 1
                else:
                    rep.add(key_for(o, "getter"), o.what, f"{name}.h:{o.line} {c.name}::{g['fn']}")
    if r is None or decl not in r.decls:
        return
    fs = r.inlined(decl)
    if any(f.kind == "checksum_start" for f in fs) or any(
            f.kind in ("typedef", "array") and f.type in r.decls and r.decls[f.type].kind in ("custom", "checksum") for f in fs):
        return          # user-supplied types: no emitted code to compare
    try:
        want = adapt_ref(r.layout(decl), r)
    except refm.RefError as e:
        rep.notes.append(f"{where}: reference cannot lay out: {e}")
        return
    if ev.always_fails is not None:
        cause, why = "other", "a guard that can never be satisfied precedes the remaining fields"
        for i, w in enumerate(want):
            later = want[i + 1:]
            if w["k"] == "array" and w["shape"].get("k") == "rest" and not w.get("pad") and later:
                cause, why = "after-open-array", "the element loop of an open-ended array consumes the whole input and the fields after it then never fit"
            if w["k"] == "array" and w["shape"].get("k") == "rest" and w.get("pad") and later:
                cause, why = "after-padded-open-array", "a padded array without size or count takes the whole input, so the fields after the padded region never fit"
        rep.add(f"C14|cxx|parse|always-rejects|{cause}", f"{c.name}::Parse returns false for every input ({why})", where)
        return
    cmp_ = DCmp(rep, where, r, decl, ev, prop="C14")
    cmp_.side = "cxx"
    cmp_.run(want)
    stats["items"] += cmp_.n
    # constraints of a child view
    if is_view and r.decls[decl].parent:
        allc = {}
        for n_ in reversed([decl] + r.parent_chain(decl)):
            allc.update(r.decls[n_].constraints)
        own = r.decls[decl].constraints
        tested = set()
        for v, cnd, line in ev.checks:
            if cnd is None:
                continue
            for m in re.finditer(r"parent\.(\w+?)_\b", cnd.key()):
                tested.add(m.group(1))
        stats["constraints"] += len(own)
        missing = [k for k in own if k not in tested]
        if missing:
            rep.add("C14|cxx|parse|constraint-not-checked", f"{c.name}::Parse does not compare the parent's "
                    f"{', '.join(sorted(missing))} with the constraint value(s): a view of a parent that does not satisfy the "
                    f"constraints reports IsValid()", where)
        # a child view has its own copy of everything its getters read: what its own Parse does not read from the
        # payload it must take from the parent view, or the getter works on a default value
        pfn = cx.parse_fn(c)
        reads = {}
        for mname, ms in c.methods.items():
            if not mname.startswith("Get"):
                continue
            for m_ in ms:
                b_ = cxxast.body_of(m_)
                if b_ is None:
                    continue
                for x in cxxast.walk(b_):
                    if x.get("kind") == "MemberExpr" and x.get("name") in c.fields and x.get("type") != "<bound member function type>":
                        inner = (x.get("inner") or [{}])[0]
                        if inner.get("kind") == "CXXThisExpr":
                            reads.setdefault(x["name"], mname)
        for f_, getter in sorted(reads.items()):
            if f_ in ("valid_", "bytes_"):
                continue
            stats["inherited"] = stats.get("inherited", 0) + 1
            if f_ not in ev.assigned:
                rep.add("C14|cxx|parse|getter-reads-unset-member", f"{c.name}::{getter} reads {f_}, which {c.name}::Parse never "
                        f"assigns (neither parsed from the payload nor copied from the parent view): the getter works on the "
                        f"member's default value", where)
    if len(samples) < 3:
        samples.append({"description": name, "class": c.name, "items": [x["k"] for x in ev.items][:8],
                        "obligations": [f"{o.kind}: {'discharged' if o.ok else 'FAILED'}" for o in ev.obls[:4]]})


def check_builder(rep, name, cx, r, decl, c, stats, is_struct):
    """(c) Serialize vs the reference encoding; GetSize vs the bytes written"""
    from .c03 import Cmp
    from .. import rslayout, sym
    where = f"{name}:{decl}"
    ref_chunks = None
    if r is not None and decl in r.decls:
        try:
            def flat(items):
                for it in items:
                    if it["k"] == "child":
                        yield from flat(it["items"])
                    elif it["k"] == "chunk":
                        yield (it["n"], [(bf["shift"], bf["width"], bf["k"]) for bf in it["fields"]])
            ref_chunks = list(flat(r.full_layout(decl)))
        except refm.RefError:
            ref_chunks = None
    ev = cx.eval_serialize(c, ref_chunks)
    if ev is None:
        return
    if ev.was_skipped:
        stats["skipped"] += 1
        return
    stats["functions"] += 1
    fnkind = "serialize"
    for o in ev.obls:
        stats["obligations"] += 1
        if o.ok:
            stats["discharged"] += 1
        else:
            rep.add(key_for(o, fnkind), o.what, f"{name}.h:{o.line} {c.name}::Serialize")
    if any(not o.ok for o in ev.obls):
        return
    if r is None or decl not in r.decls:
        return
    chain = [decl] + r.parent_chain(decl)
    for d_ in chain:
        fs = r.inlined(d_)
        if any(f.kind == "checksum_start" for f in fs) or any(
                f.kind in ("typedef", "array") and f.type in r.decls and r.decls[f.type].kind in ("custom", "checksum") for f in fs):
            return
    try:
        want = r.full_layout(decl)
    except refm.RefError:
        return
    if is_struct and r.decls[decl].parent:
        # a derived struct: does Serialize write the inherited fields at all?
        class _Quiet:
            def __init__(self):
                self.n = 0

            def add(self, *a, **k):
                self.n += 1
        q = _Quiet()
        try:
            Cmp(q, "C14", where, r, r.big, decl, side="cxxser").run(r.layout(decl), ev.items, ev.env)
        except Exception:
            q.n = 1
        own_n = len([x for x in r.layout(decl) if x["k"] != "checksum_start"])
        from .c03 import flatten_ref
        full_n = len([x for x in flatten_ref(want) if x["k"] != "checksum_start"])
        written_n = len([x for x in ev.items if x["k"] != "fill"])
        if q.n == 0 or (written_n == own_n and own_n < full_n):
            rep.add("C14|cxx|serialize|derived-struct-omits-parent-fields", f"{c.name}::Serialize writes only the fields "
                    f"declared by {decl}; the fields inherited from {r.decls[decl].parent} (and GetSize's share of them) are "
                    f"missing from the encoding", where)
            return
    tail_parent = None
    for p_ in r.parent_chain(decl):
        lay = [x for x in r.layout(p_) if x["k"] != "checksum_start"]
        idx = next((i for i, x in enumerate(lay) if x["k"] == "payload"), None)
        if idx is not None and idx + 1 < len(lay):
            tail_parent = p_
    if tail_parent is not None and not is_struct:
        class _Q:
            def __init__(self):
                self.n = 0

            def add(self, *a, **k):
                self.n += 1
        q2 = _Q()
        try:
            Cmp(q2, "C14", where, r, r.big, decl, side="cxxser").run(want, ev.items, ev.env)
        except Exception:
            q2.n = 1
        if q2.n:
            rep.add("C14|cxx|serialize|parent-tail-fields-misplaced", f"{c.name}::Serialize writes every inherited field before "
                    f"the fields of {decl}: the fields {tail_parent} declares after its payload precede the child's fields on "
                    f"the wire", where)
        stats["serializers"] += 1
        return
    cm = Cmp(rep, "C14", where, r, r.big, decl, side="cxxser")
    cm.run(want, ev.items, ev.env)
    stats["items"] += cm.n
    stats["serializers"] += 1
    # GetSize() == bytes written
    sz = cx.eval_getsize(c)
    if sz is None or sz.was_skipped or not isinstance(sz.size_value, cxxeval.E) or any(not o.ok for o in sz.obls):
        return
    wrote = {}
    for it in ev.items:
        wrote = sym.p_add(wrote, rslayout.item_bytes(it, ev.env))
    got = sz.env.poly(sz.size_value)
    stats["sizes"] += 1

    def norm(p):
        out = {}
        for mono, cf in p.items():
            m2 = []
            for a in mono:
                a = re.sub(r"^ite\(not\(opaque\((is_some\([^)]*\))\)\),0,(.*)\)$", r"ite(opaque(\1),\2,0)", a)
                m2.append(a)
            k = tuple(sorted(m2))
            out[k] = out.get(k, 0) + cf
        return {k: v for k, v in out.items() if v != 0}
    # statically counted arrays and statically sized elements
    subst, scale = {}, {}
    for d_ in chain:
        for it_ in r.layout(d_):
            if it_["k"] == "array" and it_["shape"]["k"] == "static":
                subst[f"len(self.{it_['name']})"] = it_["shape"]["n"]
            if it_["k"] == "array" and it_.get("elem_bytes") is not None and it_["elem"]["k"] in ("struct",):
                scale[f"sum_encoded_len(self.{it_['name']})"] = (f"len(self.{it_['name']})", it_["elem_bytes"])
            if it_["k"] == "typedef" and it_["tk"] == "struct" and it_.get("static") is not None:
                subst[f"encoded_len(self.{it_['name']})"] = it_["static"] // 8

    def ap(p):
        out = {}
        for mono, cf in p.items():
            k_, rest = 1, []
            for a in mono:
                if a in scale:
                    rest.append(scale[a][0])
                    k_ *= scale[a][1]
                else:
                    rest.append(a)
            mono2, k2 = [], 1
            for a in rest:
                if a in subst:
                    k2 *= subst[a]
                else:
                    mono2.append(a)
            key = tuple(sorted(mono2))
            out[key] = out.get(key, 0) + cf * k_ * k2
        return {k: v for k, v in out.items() if v != 0}
    a, b = ap(norm(wrote)), ap(norm(got))
    if a != b:
        rep.add("C14|cxx|getsize|bytes-written", f"{c.name}::GetSize() returns {sym.p_str(b)}, Serialize writes {sym.p_str(a)}",
                where)


def run(rep, tier, seed):
    g = rc.gen(tier, seed)
    d, idx = cxxast.stage_cxx(tier, seed)
    stats = {"modules": 0, "functions": 0, "obligations": 0, "discharged": 0, "items": 0, "skipped": 0, "undecided": 0,
             "constraints": 0, "runtime": 0, "serializers": 0, "sizes": 0}
    samples = []
    seen_rt = set()
    for name in sorted(idx):
        if not idx[name]["ok"]:
            continue
        cx = cxxmod.Cxx(os.path.join(d, name + ".json"), name)
        stats["modules"] += 1
        cx.compute_mins()
        r = rc.model_ref(g, name)
        # (d) runtime templates, per instantiation in this translation unit
        for did, (fname, targs, node) in cx.mod.spec.items():
            if fname not in ("read_le", "read_be", "write_le", "write_be"):
                continue
            sig = (fname, str(targs[0]), int(targs[1]))
            if sig in seen_rt:
                continue
            seen_rt.add(sig)
            cls = cx.mod.runtime.get("slice" if fname.startswith("read") else "Builder")
            ev = cxxeval.RuntimeEval(cx.mod, cls, fname, targs, node).run()
            stats["runtime"] += 1
            probs = ev.verdict() + [o.what for o in ev.obls if not o.ok]
            if ev.was_skipped:
                continue
            for pr in probs[:1]:
                rep.add(f"C14|cxx|runtime|{fname}", f"packet_runtime.h {fname}<{targs[0]}, {targs[1]}>: {pr}",
                        f"packet_runtime.h {fname}<{targs[0]}, {targs[1]}>")
        views, builders, structs = cx.kinds()
        for decl, c in structs.items():
            check_parse(rep, name, cx, r, decl, c, stats, samples, False)
        for decl, c in views.items():
            check_parse(rep, name, cx, r, decl, c, stats, samples, True)
        for decl, c in structs.items():
            check_builder(rep, name, cx, r, decl, c, stats, True)
        for decl, c in builders.items():
            check_builder(rep, name, cx, r, decl, c, stats, False)
    rep.coverage.update({
        "programs": stats["functions"], "disagreements_checked": stats["items"] + stats["obligations"], **stats,
        "samples": samples,
        "explanation": "clang AST of every emitted header: abstract evaluation of View::Parse / struct Parse / array getters "
                       "for all inputs (bounds, division, wrap, truncation, progress, subscripts) and comparison of what they "
                       "read with the reference layout",
    })
    rep.assumptions += ["getters are called on views for which IsValid() returned true (documented precondition; the "
                        "_ASSERT_VALID(valid_) assertions are not obligations)",
                        "functions that contain compile errors are skipped here and reported by C10",
                        "getter loops of the form `while (size > 0) take K` rely on the length being a multiple of K "
                        "(established by Parse's `% K` rejection): counted as undecided, not as discharged"]
    if stats["runtime"] < 16:
        rep.add("C14|coverage-floor|runtime", f"only {stats['runtime']} runtime template instantiations evaluated (floor 16)",
                "corpus")
    if stats["functions"] < 300:
        rep.add("C14|coverage-floor", f"only {stats['functions']} functions evaluated (floor 300)", "corpus")
