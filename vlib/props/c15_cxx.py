"""C15, C++ part: IsValid<Enum>() accepts exactly the integers the reference accepts (closed enums); open enums have no
validity function (every integer of the width converts); enumerators carry the declared values.  Read from clang's AST."""
import os

from . import rustcommon as rc
from .. import cxxast, cxxmod
from ..cxxast import walk, body_of


def const_of(n):
    for x in walk(n):
        if x.get("kind") in ("ConstantExpr",) and "value" in x:
            return int(x["value"])
        if x.get("kind") == "IntegerLiteral":
            return int(x["value"])
    return None


def strip(n):
    while n.get("kind") in ("ImplicitCastExpr", "ParenExpr", "ConstantExpr"):
        n = n["inner"][0]
    return n


def accepted_intervals(fn):
    """-> list of (lo, hi) accepted by an IsValidX(value) function, or None if the shape is not recognised"""
    body = body_of(fn)
    if body is None or not body.get("inner"):
        return None
    st = body["inner"][0]
    if st.get("kind") == "SwitchStmt":
        out = []
        comp = st["inner"][-1]
        pending = []
        verdicts = []

        def visit(n, acc):
            k = n.get("kind")
            if k == "CaseStmt":
                v = const_of(n["inner"][0])
                acc.append(v)
                for x in n["inner"][1:]:
                    visit(x, acc)
            elif k == "DefaultStmt":
                acc.append("default")
                for x in n["inner"]:
                    visit(x, acc)
            elif k == "ReturnStmt":
                val = strip(n["inner"][0])
                verdicts.append((list(acc), bool(val.get("value"))))
                acc.clear()
            elif k == "CompoundStmt":
                for x in n.get("inner", []):
                    visit(x, acc)
        visit(comp, pending)
        default = None
        for labels, v in verdicts:
            for l in labels:
                if l == "default":
                    default = v
                elif l is None:
                    return None
                elif v:
                    out.append((l, l))
        if default is not False:
            return None
        return sorted(out)
    if st.get("kind") == "ReturnStmt":
        def disj(n):
            n = strip(n)
            if n.get("kind") == "BinaryOperator" and n.get("opcode") == "||":
                a, b = disj(n["inner"][0]), disj(n["inner"][1])
                return None if a is None or b is None else a + b
            if n.get("kind") == "BinaryOperator" and n.get("opcode") == "==":
                l, r_ = strip(n["inner"][0]), strip(n["inner"][1])
                v = const_of(r_) if l.get("kind") == "DeclRefExpr" else const_of(l)
                return None if v is None else [(v, v)]
            if n.get("kind") == "BinaryOperator" and n.get("opcode") == "&&":
                a, b = strip(n["inner"][0]), strip(n["inner"][1])
                lo = hi = None
                for c in (a, b):
                    if c.get("kind") != "BinaryOperator" or c.get("opcode") not in ("<=", "<", ">=", ">"):
                        return None
                    l, r_ = strip(c["inner"][0]), strip(c["inner"][1])
                    op = c["opcode"]
                    if l.get("kind") == "DeclRefExpr":      # value OP K
                        k = const_of(r_)
                        if k is None:
                            return None
                        if op == "<=":
                            hi = k
                        elif op == "<":
                            hi = k - 1
                        elif op == ">=":
                            lo = k
                        else:
                            lo = k + 1
                    else:                                   # K OP value
                        k = const_of(l)
                        if k is None:
                            return None
                        if op == "<=":
                            lo = k
                        elif op == "<":
                            lo = k + 1
                        elif op == ">=":
                            hi = k
                        else:
                            hi = k - 1
                if lo is None or hi is None:
                    return None
                return [(lo, hi)] if lo <= hi else []
            if n.get("kind") == "BinaryOperator" and n.get("opcode") in ("<=", "<", ">=", ">"):
                l, r_ = strip(n["inner"][0]), strip(n["inner"][1])
                op = n["opcode"]
                if l.get("kind") == "DeclRefExpr":
                    k = const_of(r_)
                else:
                    k = const_of(l)
                    op = {"<=": ">=", "<": ">", ">=": "<=", ">": "<"}[op]
                if k is None:
                    return None
                TOP = (1 << 64) - 1
                lo, hi = {"<=": (0, k), "<": (0, k - 1), ">=": (k, TOP), ">": (k + 1, TOP)}[op]
                return [(lo, hi)] if lo <= hi else []
            if n.get("kind") == "CXXBoolLiteralExpr":
                return [] if not n.get("value") else None
            return None
        r = disj(st["inner"][0])
        return None if r is None else sorted(r)
    return None


def run(rep, g, stats, tier, seed):
    d, idx = cxxast.stage_cxx(tier, seed)
    stats.setdefault("backends", ["rust"]).append("cxx")
    n = 0
    for name in sorted(idx):
        if not idx[name]["ok"]:
            continue
        r = rc.model_ref(g, name)
        if r is None or not r.enums:
            continue
        cx = cxxmod.Cxx(os.path.join(d, name + ".json"), name)
        for en, e in r.enums.items():
            where = f"{name}:{en}"
            ce = cx.mod.enums.get(en)
            if ce is None:
                continue        # excluded for the backend
            table = r.enum_table(en)
            is_open = any(t.default for t in e.tags)
            fn = cx.mod.functions.get("IsValid" + en)
            n += 1
            # enumerators carry the declared values
            want_named = {t: lo for lo, hi, t, carries in table if not carries and lo == hi}
            for tag, val in ce["tags"].items():
                stats["segments"] += 1
                if tag in want_named and val != want_named[tag]:
                    rep.add("C15|cxx|enumerator-value", f"{en}::{tag} = {val:#x}, declared {want_named[tag]:#x}", where)
            if is_open:
                if fn is not None:
                    rep.add("C15|cxx|is_valid|open-enum-validated", f"open enum {en} has an IsValid{en} function: values the "
                            f"default tag covers would be rejected", where)
                continue
            if fn is None:
                rep.add("C15|cxx|is_valid|missing", f"closed enum {en} has no IsValid{en}: every integer converts", where)
                continue
            acc = accepted_intervals(fn)
            if acc is None:
                rep.add("C15|cxx|is_valid|unrecognised-shape", f"IsValid{en} has an unrecognised shape", where)
                continue
            mx = (1 << e.width) - 1
            pts = {0, mx + 1}
            for lo, hi, tag, c in table:
                pts |= {lo, hi + 1}
            for lo, hi in acc:
                pts |= {lo, hi + 1}
            pts = sorted(x for x in pts if 0 <= x <= mx + 1)
            for lo, hi in zip(pts, [x - 1 for x in pts[1:]]):
                stats["segments"] += 1
                got = any(a <= lo <= b for a, b in acc)
                want = any(a <= lo <= b for a, b, _, _ in table)
                if got and not want:
                    rep.add("C15|cxx|is_valid|accepts-undeclared", f"IsValid{en} accepts [{lo:#x}, {hi:#x}], the reference "
                            f"rejects it", where)
                elif want and not got:
                    rep.add("C15|cxx|is_valid|rejects-declared", f"IsValid{en} rejects [{lo:#x}, {hi:#x}], the reference "
                            f"accepts it", where)
    stats["cxx_enums"] = n
