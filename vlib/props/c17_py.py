"""C17, Python part: little/big-endian twins differ only in byteorder of multi-byte accesses."""
from . import rustcommon as rc
from .c13 import py_subjects, widths_for
from .c17 import canon_dec, canon_enc, check_orders, byte_image_duality
from .. import pyeval


def run(rep, g, stats):
    stats.setdefault("backends", ["rust"]).append("python")
    subs = dict(py_subjects(g))
    for le in list(subs):
        if not le.endswith("_le") or le[:-3] + "_be" not in subs:
            continue
        be = le[:-3] + "_be"
        pl, pb = subs[le], subs[be]
        r = rc.model_ref(g, le)
        if r is None:
            continue
        for ty in pl.packet_classes():
            if ty not in pb.classes or ty not in r.decls or pl.method(ty, "parse") is None:
                continue
            where = f"{le[:-3]}:{ty}"
            try:
                a, b = pyeval.ParseEval(pl, ty).run(), pyeval.ParseEval(pb, ty).run()
                sl, ol = canon_dec(a.items)
                sb, ob = canon_dec(b.items)
                if sl != sb:
                    rep.add("C17|python|parse|structure", "parse layouts of the twins differ beyond byte order", where)
                else:
                    stats["accesses"] += check_py(rep, where, "parse", ol, ob)
                w = widths_for(r, ty)
                sa, sb_ = pyeval.SerEval(pl, ty, w).run(), pyeval.SerEval(pb, ty, w).run()
                s1, o1 = canon_enc(sa.items, sa.env)
                s2, o2 = canon_enc(sb_.items, sb_.env)
                if s1 != s2:
                    rep.add("C17|python|serialize|structure", "serialize layouts of the twins differ beyond byte order", where)
                else:
                    stats["accesses"] += check_py(rep, where, "serialize", o1, o2)
                bad = [o for ev_ in (sa, sb_) for o in getattr(ev_, "obls", []) if o.kind == "unmodelled" and not o.ok]
                if bad:
                    # fail closed: a serializer the evaluator cannot follow has no layout to compare
                    rep.add("C17|python|serialize|unmodelled", f"a twin's serializer is outside the modelled idioms: {bad[0].what[:120]}",
                            where)
                else:
                    try:
                        want = r.layout(ty)
                    except Exception:
                        want = None
                    if want is not None:
                        stats["groups"] = stats.get("groups", 0) + byte_image_duality(rep, where, "python|serialize", want,
                                                                                      sa.items, sb_.items)
                stats["types"] += 1
            except Exception as e:
                rep.add("C17|python|evaluator-crashed", f"python twin comparison failed: {type(e).__name__}: {e}", where)


def check_py(rep, where, side, le, be):
    n = 0
    for i, ((n1, o1, f1), (n2, o2, f2)) in enumerate(zip(le, be)):
        n += 1
        if f1 or f2 or n1 != n2:
            continue
        if n1 <= 1:
            continue
        if o1 != "little" or o2 != "big":
            rep.add(f"C17|python|{side}|byte-order", f"{n1}-byte access #{i}: byteorder {o1!r} in the little-endian file and "
                    f"{o2!r} in the big-endian twin", where)
    return n
