"""C08 — the analyzer rejects every ill-formed description with a renderable diagnostic.
Structural clauses decided on /repo's source:

(a) error discipline: every pass returning Result<_, Diagnostics> is called by analyze() and
    its error is propagated;
(b) exhaustiveness: every ErrorCode variant is attached to a diagnostic that analyze() can
    reach; every diagnostic builder chain carries a code and a primary label;
(c) labels lie inside the file: Label::primary/secondary are only built by
    SourceRange::{primary,secondary} from the node's own file id and byte offsets;
(d) gate: no backend is reached except through analyze()'s Ok (CLI and both derive macros);
    the result of Diagnostics::emit is not discarded;
(e) guard inventory: for each of the diagnostics the chain of enclosing conditions
    (skeleton: locals erased, comparisons canonicalised) equals the chain confirmed against
    doc/reference.md (spec/analyzer_guards.json) - boundary operators, inclusive ranges,
    matched shapes and arm order;
(f) duplicate constraints are checked against the union of all ancestors' constraints."""
import json
import os
import re

from .. import core, stages, synq, guards, mirfacts as mf
from . import c11

LEVEL = "other"
AN = "pdl-compiler/src/analyzer.rs"


def chain_methods(n):
    """method names of a builder chain, outermost first"""
    out = []
    while isinstance(n, dict) and n.get("k") == "MethodCall":
        out.append((n["method"], n))
        n = n["recv"]
    root = n
    return out, root


def run(rep, tier, seed):
    n = {"rules": 0}
    samples = []
    tree = stages.repo_syn(AN)
    if tree is None:
        rep.add("C08|anchor-missing|analyzer.rs", "analyzer.rs could not be parsed", AN)
        return finish(rep, n, samples)
    fns = {k: v for k, v in synq.functions(tree).items() if not k.startswith("test::") and not k.startswith("<")}

    # (a) error discipline
    an = fns.get("analyze")
    if an is None:
        rep.add("C08|anchor-missing|analyze", "analyze not found", AN)
    else:
        passes = [k for k, f in fns.items() if "::" not in k and f.get("ret") and "Diagnostics" in f["ret"] and k != "analyze"]
        called = {}
        for c in synq.calls(an):
            nm = c["func"]["path"]["s"]
            called.setdefault(nm.split("::")[-1] if nm != "Scope::new" else "Scope::new", []).append(c)
        tries = synq.find_all(an, lambda x: x.get("k") == "Try")
        tried = set()
        for t in tries:
            e = t["e"]
            if e.get("k") == "Call" and e["func"].get("k") == "Path":
                tried.add(e["func"]["path"]["s"].split("::")[-1] if e["func"]["path"]["s"] != "Scope::new" else "Scope::new")
        for p in passes:
            n["rules"] += 1
            if p not in called:
                rep.add(f"C08|discipline|pass-not-called|{p}", f"{p} returns Result<_, Diagnostics> but analyze() never calls it: "
                        f"its rules are not enforced", AN + ":analyze")
            elif p not in tried:
                rep.add(f"C08|discipline|result-not-propagated|{p}", f"analyze() calls {p} without propagating its error with `?`",
                        AN + ":analyze")
        samples.append({"rule": "error discipline", "passes": sorted(passes)})
        # no `let _ =` / `.ok()` on pass results
        for l in synq.find_all(an, lambda x: x.get("k") == "Let" and x["pat"].get("k") == "PWild"):
            n["rules"] += 1
            rep.add("C08|discipline|result-discarded", "analyze() discards a result with `let _ =`", AN + ":analyze")
        for mc in synq.method_calls(an, "ok"):
            rep.add("C08|discipline|result-discarded", "analyze() converts a Result with .ok()", AN + ":analyze")
        if len(passes) < 14:
            rep.add("C08|floor|passes", f"only {len(passes)} Diagnostics-returning passes found (floor 14)", AN)

    # (b) exhaustiveness of ErrorCode and builder chains
    variants = []
    for it in tree["items"]:
        if it.get("k") == "EnumDef" and it["name"] == "ErrorCode":
            variants = [v["name"] for v in it["variants"]]
    if not variants:
        rep.add("C08|anchor-missing|ErrorCode", "enum ErrorCode not found", AN)
    used = set()
    for k, f in fns.items():
        for p in synq.paths_in(f):
            if p.startswith("ErrorCode::"):
                used.add(p.split("::")[1])
    for v in variants:
        n["rules"] += 1
        if v not in used:
            rep.add(f"C08|exhaustive|code-never-raised|{v}", f"ErrorCode::{v} is never attached to a diagnostic", AN)
    if len(variants) < 52:
        rep.add("C08|floor|error-codes", f"only {len(variants)} ErrorCode variants (floor 52)", AN)
    # reachability of the raising functions from analyze (call graph over MIR)
    comp = stages.mir_bodies("compiler")
    by = {b.name: b for b in comp}
    graph = {}
    for b in comp:
        graph[b.name] = set()
        for bi, t in mf.calls(b):
            graph[b.name].add(t.callee)
    reach = set()
    stack = ["analyze"]
    names = list(by)
    while stack:
        x = stack.pop()
        if x in reach:
            continue
        reach.add(x)
        for callee in graph.get(x, ()):
            base = re.sub(r"::<.*>$", "", callee)
            for nm in names:
                if nm == base or nm.endswith("::" + base) or base.endswith("::" + nm.split("::")[-1]) and nm.split("::")[-1] == base.split("::")[-1]:
                    if nm not in reach:
                        stack.append(nm)
        # closures and nested fns belong to their parent
        for nm in names:
            if nm.startswith(x + "::") and nm not in reach:
                stack.append(nm)
    raising = {}
    for k, f in fns.items():
        for node, ctx in synq.guard_chains(f, lambda x: x.get("k") == "MethodCall" and x["method"] == "with_code"):
            raising.setdefault(k, 0)
            raising[k] += 1
    for k in raising:
        n["rules"] += 1
        short = k.replace("Scope<'d>::new", "new")
        last = k.split("::")[-1]
        hit = any(r == k or r == last or r.endswith("::" + last) or r.endswith(k) for r in reach)
        if not hit:
            rep.add(f"C08|exhaustive|rule-unreachable|{k}", f"{k} raises diagnostics but is not reachable from analyze()", AN)
    # builder chains
    n_chain = 0
    for k, f in fns.items():
        for mc in synq.find_all(f, lambda x: x.get("k") == "MethodCall" and x["method"] == "push"):
            if not mc["args"]:
                continue
            arg = mc["args"][0]
            meths, root = chain_methods(arg)
            if not (root.get("k") == "Call" and root["func"].get("k") == "Path" and root["func"]["path"]["s"] == "Diagnostic::error"):
                continue
            n_chain += 1
            n["rules"] += 1
            names_ = [m for m, _ in meths]
            if "with_code" not in names_:
                rep.add("C08|chain|no-code", f"{k}: a diagnostic is pushed without an error code", AN + ":" + k)
            lab = next((nd for m, nd in meths if m == "with_labels"), None)
            if lab is None or not synq.method_calls(lab["args"], "primary"):
                rep.add("C08|chain|no-primary-label", f"{k}: a diagnostic is pushed without a primary label", AN + ":" + k)
    if n_chain < 53:
        rep.add("C08|floor|chains", f"only {n_chain} diagnostic builder chains (floor 53)", AN)
    samples.append({"rule": "builder chains", "chains": n_chain, "error_codes": len(variants)})

    # (c) labels
    label_sites = []
    for b in comp:
        for bi, t in mf.calls(b):
            if re.search(r"Label::<[^>]*>::(primary|secondary|new)(::<.*>)?$", t.callee):
                label_sites.append((b.name, t.callee))
    for bn, callee in label_sites:
        n["rules"] += 1
        if not re.search(r"ast::<impl at [^>]*ast\.rs[^>]*>::(primary|secondary)$", bn):
            rep.add("C08|labels|built-outside-SourceRange", f"{bn} builds a codespan Label directly ({callee})", bn)
    if len(label_sites) < 2:
        rep.add("C08|anchor-missing|SourceRange-labels", "SourceRange::primary/secondary no longer build the labels", "ast.rs")
    ast = stages.repo_syn("pdl-compiler/src/ast.rs")
    if ast is not None:
        afns = synq.functions(ast)
        for nm in ("SourceRange::primary", "SourceRange::secondary"):
            f = afns.get(nm)
            if f is None:
                rep.add(f"C08|anchor-missing|{nm}", f"{nm} not found", "ast.rs")
                continue
            n["rules"] += 1
            synq.INLINE_METHODS.clear()
            for k_, f_ in afns.items():
                if k_.startswith("SourceRange::") and k_ != nm:
                    b_ = f_.get("body") or []
                    st_ = b_ if isinstance(b_, list) else b_.get("stmts", [])
                    if len(st_) == 1 and st_[0].get("k") == "ExprStmt" and not st_[0].get("semi"):
                        synq.INLINE_METHODS[k_.split("::")[-1]] = st_[0]["e"]
            try:
                sk = synq.block_skel(f["body"])
            finally:
                synq.INLINE_METHODS.clear()
            if "_.file" not in sk or "_.start.offset.._.end.offset" not in sk:
                rep.add("C08|labels|range", f"{nm} does not use self.file and self.start.offset..self.end.offset ({sk})", "ast.rs")
    # every label location in the analyzer is a `.loc` of an AST node (or a stored SourceRange), never arithmetic
    for k, f in fns.items():
        for mc in synq.find_all(f, lambda x: x.get("k") == "MethodCall" and x["method"] in ("primary", "secondary")):
            n["rules"] += 1
            r = synq.expr_skel(mc["recv"])
            if not (r.endswith(".loc") or r == "_"):
                rep.add("C08|labels|location-not-a-node-range", f"{k}: label built from `{r}`", AN + ":" + k)

    # (d) gate
    pd = stages.mir_bodies("pdlc")
    dv = stages.mir_bodies("derive")
    n11 = {"pipeline_sites": 0}
    sub = core.Report("C08", LEVEL, tier, seed)
    c11.check_pipeline_pdlc(sub, pd, n11)
    c11.check_pipeline_derive(sub, dv, n11)
    for f in sub.findings:
        rep.add(f.key.replace("C11|pipeline", "C08|gate"), f.what, f.where)
    n["rules"] += n11["pipeline_sites"]
    for bodies, who in ((pd, "pdlc"), (dv, "pdl-derive")):
        for b in bodies:
            org = None
            for bi, t in mf.calls(b):
                if t.callee.endswith("Diagnostics::emit"):
                    n["rules"] += 1
                    org = org or mf.origins(b)
                    marker = f"call<{t.callee}>@bb{bi}("
                    used_ = any(marker in org["__resolve"](a) for bj, u in mf.calls(b) for a in u.args if u is not t)
                    if not used_:
                        rep.add("C08|gate|emit-result-discarded", f"{who}:{b.name}: the result of Diagnostics::emit is discarded", who)

    # (e) guard inventory
    spec = json.load(open(os.path.join(core.VERIF, "spec", "analyzer_guards.json")))["sites"]
    cur = guards.merge_cells([guards.canonical(e) for e in guards.inventory(tree)])

    def group(lst):
        # per error code, the multiset of path conditions -- wherever in the file the diagnostic is raised
        g = {}
        for e in lst:
            g.setdefault(e["code"], []).append(tuple(sorted(e["chain"])))
        return {k: sorted(v) for k, v in g.items()}
    gs, gc = group(spec), group(cur)
    fn_of = {}
    for e in cur + spec:
        fn_of.setdefault(e["code"], e["fn"])
    for code in sorted(set(gs) | set(gc)):
        n["rules"] += 1
        a, b = gs.get(code, []), gc.get(code, [])
        if a == b:
            continue
        fn = fn_of.get(code, "?")
        if not b:
            rep.add(f"C08|guards|rule-removed|{code}", f"{code} is no longer raised (was: {fn})", AN + ":" + fn)
        elif not a:
            rep.add(f"C08|guards|rule-added|{code}", f"{fn} raises {code} under conditions that were never confirmed: "
                    f"{list(b[0])[:4]}", AN + ":" + fn)
        else:
            only_a = [x for x in a if x not in b]
            only_b = [x for x in b if x not in a]
            xa, xb = set(only_a[0]) if only_a else set(), set(only_b[0]) if only_b else set()
            rep.add(f"C08|guards|guard-changed|{code}", f"the conditions under which {fn} raises {code} changed: confirmed "
                    f"{sorted(xa - xb)[:3] or len(a)} now {sorted(xb - xa)[:3] or len(b)}", AN + ":" + fn,
                    {"confirmed": [list(x) for x in only_a][:3], "now": [list(x) for x in only_b][:3]})
    samples.append({"rule": "guard inventory", "sites": len(cur), "example": cur[0] if cur else None})
    if len(cur) < 53:
        rep.add("C08|floor|guard-sites", f"only {len(cur)} diagnostic sites (floor 53)", AN)

    # half-open ranges have no place in the enum checks (ranges are inclusive at both ends)
    for b in comp:
        if b.name.startswith("check_enum_declarations"):
            for bi, t in mf.calls(b):
                n["rules"] += 1
                if re.search(r"ops::Range::<.*>::contains|<std::ops::Range<.*> as .*>::contains", t.callee) or \
                        re.match(r"^(std::ops::)?Range::<usize>::contains", t.callee):
                    rep.add("C08|guards|half-open-range", f"{b.name} tests membership in a half-open range; tag ranges are "
                            f"inclusive at both ends", AN + ":" + b.name)

    # neighbour-only comparisons: a check that walks `xs.windows(2)` compares adjacent elements only, so it covers all
    # pairs (overlaps, duplicates, gaps) only if `xs` was sorted by the compared key before, in the same function
    n_win = 0
    for k, f in fns.items():
        for w in synq.method_calls(f, "windows"):
            recv = w["recv"]
            while recv.get("k") in ("Ref", "Paren") or (recv.get("k") == "MethodCall" and recv["method"] in ("iter", "as_slice")):
                recv = recv.get("e") or recv.get("recv")
            if recv.get("k") != "Path":
                continue
            var = recv["path"]["s"]
            n_win += 1
            n["rules"] += 1
            pos = (w.get("l", 0), w.get("c", 0))
            sorts = [m for m in synq.find_all(f, lambda x: x.get("k") == "MethodCall" and x["method"].startswith("sort"))
                     if m["recv"].get("k") == "Path" and m["recv"]["path"]["s"] == var and (m.get("l", 0), m.get("c", 0)) < pos]
            grows = [m for m in synq.find_all(f, lambda x: x.get("k") == "MethodCall" and x["method"] in ("push", "insert", "extend"))
                     if m["recv"].get("k") == "Path" and m["recv"]["path"]["s"] == var
                     and sorts and (sorts[-1].get("l", 0), sorts[-1].get("c", 0)) < (m.get("l", 0), m.get("c", 0)) < pos]
            if not sorts or grows:
                rep.add(f"C08|neighbour-comparison-unsorted|{k}", f"{k} compares neighbours of `{var}` (`{var}.windows(..)`) without "
                        f"sorting it first: pairs that are not adjacent in declaration order are never compared", AN + ":" + k)
    samples.append({"rule": "neighbour comparisons over sorted collections", "sites": n_win})
    if n_win < 1:
        rep.add("C08|floor|neighbour-comparisons", "no `windows(..)` comparison found in analyzer.rs (floor 1: the enum range "
                "overlap check)", AN)

    # (f) duplicate constraints vs all ancestors
    dc = fns.get("check_decl_constraints")
    if dc is None:
        rep.add("C08|anchor-missing|check_decl_constraints", "check_decl_constraints not found", AN)
    else:
        n["rules"] += 1
        ccl = [c for c in synq.calls(dc) if c["func"]["path"]["s"].endswith("check_constraints_list")]
        if not ccl:
            rep.undecided.append("check_decl_constraints: call to check_constraints_list not found")
        else:
            arg = synq.sources_of_arg(dc, ccl[0]["args"][3] if len(ccl[0]["args"]) > 3 else None)
            if not re.search(r"iter_parents\(|iter_parents_and_self\(|iter_constraints\(", arg):
                rep.add("C08|constraints|duplicates-not-checked-against-ancestors",
                        "check_decl_constraints seeds the duplicate check with less than all ancestors' constraints "
                        f"({arg[:120]})", AN + ":check_decl_constraints")
        cf = fns.get("check_constraint")
        n["rules"] += 1
        if cf is not None and "iter_fields(" not in synq.block_skel(cf["body"]):
            rep.add("C08|constraints|field-lookup-not-inherited", "check_constraint does not look the field up in the inherited "
                    "scope (iter_fields)", AN + ":check_constraint")

    # dead rules: declarations the parser never builds
    ptree = stages.repo_syn("pdl-compiler/src/parser.rs")
    if ptree is not None:
        built = {p.split("::")[-1] for p in synq.paths_in(ptree) if p.startswith("ast::DeclDesc::")}
        matched = set()
        for k, f in fns.items():
            for m in synq.match_arms(f):
                for a in m["arms"]:
                    for p in synq.pat_paths(a["pat"]):
                        if p.startswith("DeclDesc::") and any(pp.startswith("ErrorCode::") for pp in synq.paths_in(a["body"])):
                            matched.add((p.split("::")[1], k))
        for kind, k in sorted(matched):
            n["rules"] += 1
            if kind not in built:
                codes = sorted({pp.split("::")[1] for m in synq.match_arms(fns[k]) for a in m["arms"]
                                if f"DeclDesc::{kind}" in synq.pat_paths(a["pat"]) for pp in synq.paths_in(a["body"])
                                if pp.startswith("ErrorCode::")})
                rep.add(f"C08|exhaustive|rules-dead|{kind}", f"{k} has rules for DeclDesc::{kind} ({', '.join(codes)}) but the "
                        f"parser never builds that declaration: the rules can never fire", AN + ":" + k)
    finish(rep, n, samples)


def finish(rep, n, samples):
    rep.coverage.update({
        "explanation": "error discipline of analyze(); ErrorCode exhaustiveness and reachability (MIR call graph); shape of "
                       "every diagnostic builder chain; who-may-build labels; gate rules (MIR def-use) on pdlc and "
                       "pdl-derive; guard-skeleton inventory of all diagnostics vs the confirmed inventory; ancestor "
                       "constraint rule; dead rules.",
        "rule_instances": n["rules"], "samples": samples,
        "evaluations": n["rules"], "distinct_nontrivial": n["rules"],
    })
    rep.assumptions += ["per-rule boundary exactness is decided only as agreement with the confirmed guard inventory; rule "
                        "coverage of every syntactic context is not decided"]
    if n["rules"] < 150:
        rep.add("C08|floor|rule-instances", f"only {n['rules']} rule instances (floor 150)", AN)
