"""C15 — enum conversions are exact over the entire value space.

The generated conversions are finite case analyses over literals and ranges.  Each is
read as an ordered list of (interval -> result) arms; the function it denotes on the
whole domain of its integer type is computed by an interval sweep (first match wins) and
compared, segment by segment, with the reference model's table (vlib/ref.py).  Exhaustive
over all integers of the backing type by construction."""
from . import rustcommon as rc
from ..rsmod import camel
from .. import sym

LEVEL = "translation_validation"


def sweep_points(arms, table, width, tymax):
    pts = {0, tymax + 1, 1 << width}
    for lo, hi, _ in arms:
        pts.add(lo)
        pts.add(hi + 1)
    for lo, hi, _, _ in table:
        pts.add(lo)
        pts.add(hi + 1)
    pts = sorted(p for p in pts if 0 <= p <= tymax + 1)
    return [(a, b - 1) for a, b in zip(pts, pts[1:])]


def first_match(arms, x):
    for lo, hi, res in arms:
        if lo <= x <= hi:
            return res
    return None


def ref_lookup(table, x):
    for lo, hi, tag, carries in table:
        if lo <= x <= hi:
            return (tag, carries)
    return None


def check_rust_enum(rep, name, en, ei, r, stats):
    where = f"{name}:{en}"
    e = r.enums[en]
    table = r.enum_table(en)
    if ei.problems:
        for p in ei.problems:
            rep.add("C15|rust|unrecognised-shape", f"{en}: {p}", where)
        return
    if ei.repr is None:
        rep.add("C15|rust|no-try_from", f"no TryFrom<uN> impl found for enum {en}", where)
        return
    want_repr = next(f"u{b}" for b in (8, 16, 32, 64) if e.width <= b)
    if ei.repr != want_repr:
        rep.add("C15|rust|backing-type", f"{en}: TryFrom<{ei.repr}> but width {e.width} needs {want_repr}", where)
    tymax = sym.TYMAX[ei.repr]
    segs = sweep_points(ei.from_arms, table, e.width, tymax)
    variants = dict(ei.variants)
    for lo, hi in segs:
        stats["segments"] += 1
        got = first_match(ei.from_arms, lo)
        want = ref_lookup(table, lo) if lo < (1 << e.width) else None
        if got is None:
            rep.add("C15|rust|try_from|non-exhaustive", f"{en}::try_from has no arm for [{lo:#x}, {hi:#x}]", where)
            continue
        if want is None:
            if got != ("err",):
                kind = "above-width" if lo >= (1 << e.width) else "undeclared"
                rep.add(f"C15|rust|try_from|accepts-{kind}", f"{en}::try_from accepts [{lo:#x}, {hi:#x}] -> {got} but the "
                        f"reference rejects it", where)
            continue
        tag, carries = want
        if got == ("err",):
            rep.add("C15|rust|try_from|rejects-declared", f"{en}::try_from rejects [{lo:#x}, {hi:#x}] but the reference "
                    f"maps it to {tag}", where)
            continue
        _, var, gcar = got
        if var != camel(tag) or gcar != carries:
            rep.add("C15|rust|try_from|wrong-variant", f"{en}::try_from maps [{lo:#x}, {hi:#x}] to {var}"
                    f"{'(value)' if gcar else ''}, reference says {camel(tag)}{'(value)' if carries else ''}", where)
            continue
        # and back: into(try_from(x)) == x
        stats["roundtrips"] += 1
        inv = ei.into_arms.get(var)
        if "*" in ei.into_arms:
            # `*value as uN` on a #[repr] enum: discriminants must be the values
            d = getattr(ei, "discs", {}).get(var)
            if d != lo or lo != hi:
                rep.add("C15|rust|into|discriminant", f"{en}::{var} discriminant {d} != {lo:#x}", where)
        elif inv is None:
            rep.add("C15|rust|into|missing-arm", f"From<&{en}> has no arm for {var}", where)
        elif carries:
            if inv != "value":
                rep.add("C15|rust|into|wrong-value", f"From<&{en}> for {var}(value) yields {inv} instead of the value", where)
        else:
            if inv != lo or lo != hi:
                rep.add("C15|rust|into|wrong-value", f"From<&{en}> maps {var} to {inv}, expected {lo:#x}", where)
    # payload-carrying variants hold Private<T>: T must be the backing type
    # widening conversions: only to types that hold every value; body is `uN::from(value) as Self`
    for (ty, fn) in ei.widen:
        stats["widen"] += 1
        bits = sym.TYBITS[ty]
        cap = bits - 1 if ty.startswith("i") else bits
        if ty == ei.repr:
            continue
        if cap < e.width:
            rep.add("C15|rust|widen|too-narrow", f"From<{en}> for {ty} cannot hold {e.width}-bit values", where)
        ok = False
        if fn and len(fn["body"]) == 1 and fn["body"][0]["k"] == "ExprStmt":
            b = fn["body"][0]["e"]
            if (b["k"] == "Cast" and b["ty"] in ("Self", ty) and b["e"]["k"] == "Call"
                    and b["e"]["func"]["k"] == "Path" and b["e"]["func"]["path"]["s"] == f"{ei.repr}::from"):
                ok = True
            if b["k"] == "MethodCall" and b["method"] == "into":
                ok = True
        if not ok:
            rep.add("C15|rust|widen|unrecognised", f"From<{en}> for {ty}: body is not `{ei.repr}::from(value) as Self`", where)


def run(rep, tier, seed):
    g = rc.gen(tier, seed)
    stats = {"segments": 0, "roundtrips": 0, "widen": 0}
    n_enums = 0
    shapes = set()
    samples = []
    for name, m in rc.rust_subjects(g):
        r = rc.model_ref(g, name)
        if r is None:
            continue
        for en, e in r.enums.items():
            ei = m.enums.get(en)
            if ei is None:
                rep.add("C15|rust|enum-missing", f"no generated enum for {en}", f"{name}:{en}")
                continue
            n_enums += 1
            shape = (any(t.default for t in e.tags), any(t.lo is not None for t in e.tags),
                     any(t.subtags for t in e.tags), e.width in (8, 16, 32, 64))
            shapes.add(shape)
            before = len(rep.findings)
            check_rust_enum(rep, name, en, ei, r, stats)
            if len(samples) < 4:
                samples.append({"description": name, "enum": en, "width": e.width,
                                "generated_arms": [[lo, hi, list(res)] for lo, hi, res in ei.from_arms[:6]],
                                "reference": [list(x) for x in r.enum_table(en)[:6]],
                                "agree": len(rep.findings) == before})
    add_other_backends(rep, g, stats, tier, seed)
    rep.coverage.update({
        "programs": n_enums,
        "disagreements_checked": stats["segments"] + stats["roundtrips"] + stats["widen"],
        "segments_compared": stats["segments"], "roundtrips_compared": stats["roundtrips"],
        "widening_impls": stats["widen"], "enum_shapes": len(shapes),
        "samples": samples, "exhaustive": True,
        "explanation": "per enum, the generated conversion functions are compared with the reference table on every "
                       "elementary interval of the whole backing-type domain (exhaustive by construction)",
        "backends": stats.get("backends", ["rust"]), "python_enums": stats.get("py_enums"), "cxx_enums": stats.get("cxx_enums"),
    })
    rep.assumptions.append("Rust match semantics: first matching arm wins; literal and range patterns only")
    if n_enums < 40:
        rep.add("C15|coverage-floor", f"only {n_enums} enums analysed (floor 40)", "corpus")
    if len(shapes) < 8:
        rep.add("C15|coverage-floor-shapes", f"only {len(shapes)} enum shapes in the corpus (floor 8)", "corpus")


def add_other_backends(rep, g, stats, tier="quick", seed=0):
    try:
        from . import c15_py
    except ImportError:
        return
    c15_py.run(rep, g, stats)
    from . import c15_cxx
    c15_cxx.run(rep, g, stats, tier, seed)
