"""C05 — the Rust encoder never truncates; length as promised.

For every emitted encode / encode_partial, for ALL values of the generated Rust types:
every narrowing cast, put_uint(v, n), shift into a chunk and OR of bit-fields must be
loss-free under the guards that dominate it; nothing may trap; and the symbolic byte
count of every Ok path must equal encoded_len()."""
from . import rustcommon as rc
from .. import sym
from ..sym import const, binop
from ..rseval import ResV, IntV, UnitV

LEVEL = "other"


def key_for(o, fn, r, ty, m):
    role = o.role or "-"
    if role.startswith("put_uint-") and role != "put_uint-n":
        role = "put_uint"
    parts = ["C05", "rust", fn, o.kind, role]
    facts = rc.ident_facts(r, ty, [])
    if o.kind == "truncation":
        # what is being narrowed: a count (len of a vec), a size expression, a scalar ...
        w = o.what
        if "len(" in w and o.role.startswith("cast-"):
            vec = w.split("len(")[1].split(")")[0].split(".")[-1]
            cw = count_width(r, ty, vec)
            parts.append(f"count-field-width={cw}")
        elif o.role.startswith("put_uint-"):
            parts.append("array-elem" if "[]" in w else ("optional" if "?" in w else "field"))
    if o.kind == "unmodelled":
        parts.append(o.what.split(" on ")[0][:60])
    return "|".join(parts)


def count_width(r, ty, vec):
    if r is None or ty not in r.decls:
        return "?"
    for n in [ty] + r.parent_chain(ty):
        for f in r.inlined(n):
            if f.kind == "count" and f.target == vec:
                backing = next(b for b in (8, 16, 32, 64) if f.width <= b)
                return "exact" if backing == f.width else "narrow"
    return "none"


def eval_cond(c, assign):
    """evaluate a condition over is_some(self.X) atoms under a presence assignment; None if undetermined"""
    import re as _re
    op = c.op
    if op == "true":
        return True
    if op == "false":
        return False
    if op == "not":
        v = eval_cond(c.args[0], assign)
        return None if v is None else (not v)
    if op in ("and", "or"):
        vs = [eval_cond(a, assign) for a in c.args]
        if op == "and":
            if any(v is False for v in vs):
                return False
            return True if all(v is True for v in vs) else None
        if any(v is True for v in vs):
            return True
        return False if all(v is False for v in vs) else None
    if op == "opaque":
        m = _re.match(r"is_some\(self\.(\w+)\)", str(c.args[0]))
        if m and m.group(1) in assign:
            return assign[m.group(1)]
    return None


def flag_consistency(rep, name, ty, fn, ev, r, stats):
    """On every Ok path the flag bit written must agree with the presence of EVERY optional field using it."""
    import itertools
    from .. import rslayout
    if r is None or ty not in r.decls:
        return
    flags = {}
    for n_ in [ty] + r.parent_chain(ty):
        for f in r.inlined(n_):
            if f.cond is not None:
                flags.setdefault((n_, f.cond[0]), []).append((f.name, f.cond[1]))
    if not flags:
        return
    checks = [e for e in rslayout.walk(ev.events) if e.kind == "check" and e.ret is not None]
    # only in the function that encodes the declaring type's own fields: items align 1:1 with the reference layout
    own_fn = "encode_partial" if r.decls[ty].parent else "encode"
    if fn != own_fn:
        return
    enc = [x for x in rslayout.encoder_items(ev) if x["k"] != "fill"]
    try:
        ref_items = [x for x in r.layout(ty) if x["k"] not in ("checksum_start",)]
    except Exception:
        return
    for (decl, flag), opts in flags.items():
        if decl != ty:
            continue
        fields = [o[0] for o in opts]
        atom = None
        for idx, it in enumerate(ref_items):
            if it["k"] != "chunk":
                continue
            for bf in it["fields"]:
                if bf["k"] == "flag" and bf["name"] == flag and idx < len(enc) and enc[idx]["k"] == "chunk":
                    key = enc[idx]["keys"][bf["shift"]] if bf["shift"] < len(enc[idx]["keys"]) else None
                    a = enc[idx]["env"].atoms.get(key) if key else None
                    if a is not None and a.op == "ite" and a.args[1].is_const() and a.args[2].is_const():
                        atom = a
        stats["flags"] = stats.get("flags", 0) + 1
        if atom is None:
            rep.add(f"C05|rust|{fn}|flag-not-derived", f"flag `{flag}` of {ty} is not derived from the presence of {fields}",
                    f"{name}:{ty}::{fn}")
            continue
        for combo in itertools.product([False, True], repeat=len(fields)):
            assign = dict(zip(fields, combo))
            rejected = False
            for c in checks:
                v = eval_cond(c.cond, assign)
                if v is True:
                    rejected = True
                    break
            if rejected:
                continue
            cv = eval_cond(atom.args[0], assign)
            if cv is None:
                continue
            val = atom.args[1].cval() if cv else atom.args[2].cval()
            for (fname, v) in opts:
                stats["flag_cells"] = stats.get("flag_cells", 0) + 1
                if assign[fname] != (val == v):
                    rep.add(f"C05|rust|{fn}|flag-inconsistent", f"{ty}: with presence {assign} encode succeeds and writes flag "
                            f"`{flag}` = {val}, but `{fname}` is {'present' if assign[fname] else 'absent'} and is present iff "
                            f"{flag} == {v}: no InconsistentConditionValue error", f"{name}:{ty}::{fn}")
                    return


def consistent_values_accepted(rep, name, ty, fn, ev, r, stats, prop="C02"):
    """C02 clause: a value whose optional fields are consistent must not be rejected with
    InconsistentConditionValue.  All presence assignments over ALL optional fields of the declaration are enumerated;
    for the assignments the reference calls consistent (per flag, one flag value explains every field's presence),
    no InconsistentConditionValue check may evaluate to true."""
    import itertools
    from .. import rslayout
    if r is None or ty not in r.decls:
        return
    own_fn = "encode_partial" if r.decls[ty].parent else "encode"
    if fn != own_fn:
        return
    flags = {}
    for f in r.inlined(ty):
        if f.cond is not None:
            flags.setdefault(f.cond[0], []).append((f.name, f.cond[1]))
    fields = [o[0] for opts in flags.values() for o in opts]
    if not fields or len(fields) > 10:
        return
    icv = [e for e in rslayout.walk(ev.events) if e.kind == "check" and e.ret is not None
           and rslayout._err_variant(e.ret) == "InconsistentConditionValue"]
    stats["icv_checks"] = stats.get("icv_checks", 0) + len(icv)
    for combo in itertools.product([False, True], repeat=len(fields)):
        assign = dict(zip(fields, combo))
        consistent = all(any(all(assign[n_] == (val == v) for n_, v in opts) for val in (0, 1)) for opts in flags.values())
        if not consistent:
            continue
        stats["consistent_cells"] = stats.get("consistent_cells", 0) + 1
        for c in icv:
            if eval_cond(c.cond, assign) is True:
                pres = ", ".join(f"{k}={'Some' if v else 'None'}" for k, v in assign.items())
                rep.add(f"{prop}|rust|{fn}|consistent-value-rejected", f"{ty}: the presence pattern {{{pres}}} is consistent "
                        f"(every flag has a value that explains all of its optional fields) but encode returns "
                        f"InconsistentConditionValue", f"{name}:{ty}::{fn}")
                return


def iter_ite(e):
    from ..sym import E as _E
    if e.op == "ite":
        yield e
    for a in e.args:
        if isinstance(a, _E):
            yield from iter_ite(a)


def total_written(ev, m, ty, partial_poly=None):
    p = {}
    for w in ev.written:
        p = sym.p_add(p, ev.env.poly(w))
    if partial_poly is not None:
        # substitute the partial_len(self) atom
        out = {}
        for mono, c in p.items():
            if any(a.startswith("partial_len(") for a in mono):
                rest = tuple(a for a in mono if not a.startswith("partial_len("))
                out = sym.p_add(out, sym.p_mul({rest: c}, partial_poly))
            else:
                out = sym.p_add(out, {mono: c})
        p = out
    return p


def run(rep, tier, seed):
    g = rc.gen(tier, seed)
    n_fn = n_obl = n_ok = n_writes = n_len = 0
    flagstats = {}
    kinds = {}
    samples = []
    subjects = rc.rust_subjects(g)
    for name, m in subjects:
        r = rc.model_ref(g, name)
        for ty in m.type_names():
            evs = {}
            for fn in ("encode_partial", "encode"):
                if m.fn(ty, fn) is None:
                    continue
                n_fn += 1
                ev = m.eval_encode(ty, fn)
                evs[fn] = ev
                for o in ev.obls:
                    n_obl += 1
                    kinds[o.kind] = kinds.get(o.kind, 0) + 1
                    if o.ok:
                        n_ok += 1
                    else:
                        rep.add(key_for(o, fn, r, ty, m), o.what, f"{name}.rs:{o.line} {ty}::{fn}",
                                {"description": name, "type": ty, "fn": fn})
                # bit-fields OR-ed into one chunk must not overlap
                for e in walk(ev.events):
                    if e.kind == "write":
                        n_writes += 1
                        bits = sym.bits_of(e.e, e.env, e.nbytes * 8 + 8)
                        n_obl += 1
                        kinds["disjoint"] = kinds.get("disjoint", 0) + 1
                        if any(isinstance(b, tuple) and b[0] == "!overlap" for b in bits):
                            rep.add(f"C05|rust|{fn}|overlap", f"bit-fields OR-ed into one chunk may overlap: {e.e.key()}",
                                    f"{name}.rs:{e.line} {ty}::{fn}")
                        else:
                            n_ok += 1
                        # every bit above the written width must be provably zero
                        n_obl += 1
                        kinds["fits"] = kinds.get("fits", 0) + 1
                        hi_bits = [b for b in bits[e.nbytes * 8:] if b != 0]
                        lo, hi = e.env.interval(e.e)
                        if e.api != "put_uint" and hi_bits and hi >= (1 << (e.nbytes * 8)):
                            rep.add(f"C05|rust|{fn}|write-width", f"value written with {e.api} may exceed {e.nbytes} bytes",
                                    f"{name}.rs:{e.line} {ty}::{fn}")
                        else:
                            n_ok += 1
                flag_consistency(rep, name, ty, fn, ev, r, flagstats)
                if len(samples) < 5 and ev.obls:
                    samples.append({"description": name, "fn": f"{ty}::{fn}",
                                    "obligations": [f"{o.kind}: {o.what} -> {'discharged' if o.ok else 'FAILED'}"
                                                    for o in ev.obls[:4]]})
            # byte count on Ok paths == encoded_len()
            if "encode" in evs and m.fn(ty, "encoded_len") is not None:
                n_len += 1
                ev = evs["encode"]
                pp = None
                if "encode_partial" in evs:
                    pp = total_written(evs["encode_partial"], m, ty)
                wrote = total_written(ev, m, ty, pp)
                el = m.eval_fn(ty, "encoded_len", "size")
                val = el.returns[-1][0] if el.returns else None
                n_obl += 1
                kinds["bytecount"] = kinds.get("bytecount", 0) + 1
                from ..rseval import LitV
                if isinstance(val, LitV):
                    val = IntV(const(val.v, "usize"))
                if not isinstance(val, IntV):
                    rep.add("C05|rust|encoded_len|unmodelled", "encoded_len() body not understood", f"{name}:{ty}")
                else:
                    want = el.env.poly(val.e)
                    if wrote == want:
                        n_ok += 1
                    else:
                        rep.add("C05|rust|bytecount", f"bytes written {sym.p_str(wrote)} != encoded_len() {sym.p_str(want)}",
                                f"{name}:{ty}", {"written": sym.p_str(wrote), "encoded_len": sym.p_str(want)})
                for o in el.obls:
                    n_obl += 1
                    if o.ok:
                        n_ok += 1
                    elif o.kind != "overflow":
                        rep.add(f"C05|rust|encoded_len|{o.kind}|{o.role}", o.what, f"{name}:{ty}::encoded_len")
                    else:
                        rep.add(f"C05|rust|encoded_len|{o.kind}|{o.role}", o.what, f"{name}:{ty}::encoded_len")
    rep.coverage.update({
        "explanation": "Every generated Rust encode/encode_partial body was abstractly interpreted over ALL values of "
                       "the generated types (intervals seeded from the Rust types, not the declared widths): casts, "
                       "put_uint widths, shifts and ORs must be loss-free under dominating guards; the symbolic byte "
                       "count of the Ok path is compared with encoded_len() as polynomials.",
        "descriptions": len(subjects), "functions": n_fn, "writes": n_writes, "encoded_len_comparisons": n_len,
        "obligations": n_obl, "discharged": n_ok, "obligation_kinds": kinds, "samples": samples,
        "flags_checked": flagstats.get("flags", 0), "flag_presence_cells": flagstats.get("flag_cells", 0),
        "evaluations": n_fn, "distinct_nontrivial": n_obl,
    })
    rep.assumptions += [
        "a value of a generated type occupies one address space of at most 2^48 bytes, so Vec lengths and encoded "
        "lengths of owned values are below 2^48 (overflow of size sums beyond that is not decided)",
        "64-bit target", "BufMut::put_* append-only contracts",
    ]
    if n_fn < 50:
        rep.add("C05|coverage-floor", f"only {n_fn} encode functions analysed (floor 50)", "corpus")


def walk(events):
    for e in events:
        yield e
        b = getattr(e, "body", None)
        if b:
            yield from walk(b)
