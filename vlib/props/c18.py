"""C18 — pdl-runtime Packet trait: derived methods obey their laws.

Runtime half: dominance / def-use rules over rustc's MIR of the provided methods of
`trait Packet` in pdl-runtime (decided for every implementor at once, since the provided
methods are generic over Self).  Generated half: syntactic rules over every emitted
`impl Packet` (surface, use of the output buffer, field types)."""
import re

from . import rustcommon as rc
from .. import stages, mirfacts as mf

LEVEL = "other"

ALLOWED_BUF_METHODS = {"put_u8", "put_u16", "put_u16_le", "put_u32", "put_u32_le", "put_u64", "put_u64_le",
                       "put_uint", "put_uint_le", "put_slice", "put_bytes"}
FRESH_BUFFERS = ("Vec::<u8>::with_capacity", "Vec::<u8>::new", "BytesMut::with_capacity", "BytesMut::new")


def _split_top(s, sep):
    depth = 0
    for i in range(len(s)):
        ch = s[i]
        if ch in "([<":
            depth += 1
        elif ch in ")]>" and not (ch == ">" and i and s[i - 1] in "-="):
            depth -= 1
        elif depth == 0 and s.startswith(sep, i):
            return s[:i], s[i + len(sep):]
    return s, None


def norm_origin(o):
    """`expr((((X as Ok).0: (A, B)).1: B))` -> `X as Ok.0.1`: projections written as nested places with type
    ascriptions (a `match` on the Result) read like the ones produced through Try::branch"""
    s = o.strip()
    if s.startswith("expr(") and s.endswith(")"):
        return norm_origin(s[5:-1])
    if s.startswith("(") and s.endswith(")"):
        depth = 0
        for i, ch in enumerate(s):
            depth += ch == "("
            depth -= ch == ")"
            if depth == 0 and i < len(s) - 1:
                break
        else:
            inner = s[1:-1]
            left, _ty = _split_top(inner, ": ")
            m = re.match(r"^(.*)\.(\d+)$", left)
            if m and (m.group(1).startswith("(") or " as " in m.group(1)):
                return norm_origin(m.group(1)) + "." + m.group(2)
            m = re.match(r"^(.*) as (\w+)$", left)
            if m:
                return norm_origin(m.group(1)) + " as " + m.group(2)
            return norm_origin(left) if left != inner else s
    m = re.match(r"^(\(.*\))\.(\d+)$", s)
    if m:
        return norm_origin(m.group(1)) + "." + m.group(2)
    return s


class Fn:
    """Helper view of one MIR body."""

    def __init__(self, body):
        self.b = body
        self.org = mf.origins(body)
        self._res = self.org["__resolve"]
        self.res = lambda x: norm_origin(self._res(x))
        self.dom = mf.dominators(body)

    def calls_to(self, pat):
        return [(bi, t) for bi, t in mf.calls(self.b) if re.search(pat, t.callee)]

    def success_edges(self, call_pat):
        """Blocks entered only when the Result produced by the call matching call_pat was Ok:
        targets labelled 0 of a switchInt on the discriminant of that result (or of its
        Try::branch)."""
        ok, err = [], []
        for blk in self.b.blocks.values():
            t = blk.term
            if not t or t.kind != "switch":
                continue
            d = t.discr
            src = None
            for bb in self.b.blocks.values():
                for lhs, rhs, raw in bb.stmts:
                    if lhs == d and rhs.startswith("discriminant("):
                        src = rhs[len("discriminant("):-1]
            if src is None:
                continue
            o = self.org.get(src, "")
            if re.search(call_pat, o):
                for lab, tgt in t.targets:
                    if lab == "0":
                        ok.append(tgt)
                    elif lab == "1":
                        err.append(tgt)
        return ok, err

    def assigns(self, lhs_pat):
        out = []
        for blk in self.b.blocks.values():
            if blk.cleanup:
                continue
            for lhs, rhs, raw in blk.stmts:
                if lhs and re.fullmatch(lhs_pat, lhs):
                    out.append((blk.idx, lhs, rhs))
            t = blk.term
            if t and t.kind == "call" and t.dest and re.fullmatch(lhs_pat, t.dest):
                out.append((blk.idx, t.dest, ("call", t)))
        return out

    def dominated(self, blk, by):
        return any(x in self.dom[blk] for x in by)


def agg_arg(rhs):
    """`Result::<..>::Ok(move _14)` -> ('Ok', 'move _14')"""
    m = re.match(r"^(.*)::(\w+)\((.*)\)$", rhs)
    if not m:
        return None, None
    return m.group(2), m.group(3)


def check_decode_mut(rep, f, n):
    where = "pdl-runtime/src/lib.rs Packet::decode_mut"
    dec = f.calls_to(r"as Packet>::decode$")
    n["rules"] += 1
    if len(dec) != 1:
        rep.add("C18|runtime|decode_mut|calls-decode-once", f"expected exactly one call to Self::decode, found {len(dec)}", where)
        return
    bi, t = dec[0]
    a = f.res(t.args[0])
    n["rules"] += 1
    if "(*_1)" not in a and "deref(param_1)" not in a:
        rep.add("C18|runtime|decode_mut|decodes-caller-slice", f"decode is not called on the caller's slice (arg origin {a})", where)
    ok, err = f.success_edges(r"as Packet>::decode>")
    n["rules"] += 1
    if not ok:
        rep.add("C18|runtime|decode_mut|no-success-edge", "cannot find the Ok edge of the decode result", where)
        return
    stores = f.assigns(r"\(\*_1\)")
    n["rules"] += 1
    if not stores:
        rep.add("C18|runtime|decode_mut|never-advances", "the caller's slice is never updated", where)
    for blk, lhs, rhs in stores:
        n["rules"] += 2
        if not f.dominated(blk, ok):
            rep.add("C18|runtime|decode_mut|store-not-dominated-by-ok",
                    f"the caller's slice is written in bb{blk}, which is not dominated by decode's Ok edge", where)
        o = f.res(rhs) if not isinstance(rhs, tuple) else "call"
        if not re.search(r"as Packet>::decode>.*(as Continue\.0\.1|as Ok\.0\.1)$", o):
            rep.add("C18|runtime|decode_mut|stores-wrong-value",
                    f"the caller's slice is set to something other than decode's remainder ({o})", where)
    # the &mut parameter must not escape or be reborrowed mutably
    for blk in f.b.blocks.values():
        if blk.cleanup:
            continue
        for lhs, rhs, raw in blk.stmts:
            n["rules"] += 1
            if rhs and re.search(r"&mut \(\*_1\)|&raw mut \(\*_1\)", rhs):
                rep.add("C18|runtime|decode_mut|param-reborrowed-mut", f"the caller's slice is mutably reborrowed: {raw}", where)
        t2 = blk.term
        if t2 and t2.kind == "call":
            for x in t2.args:
                if mf.strip_op(x) == "_1" or f.res(x) == "param_1":
                    rep.add("C18|runtime|decode_mut|param-escapes", f"the &mut slice parameter is passed to {t2.callee}", where)
    for blk, lhs, rhs in f.assigns(r"_0"):
        n["rules"] += 1
        if isinstance(rhs, tuple):
            t3 = rhs[1]
            if "from_residual" in t3.callee:
                if not f.dominated(blk, err):
                    rep.add("C18|runtime|decode_mut|error-path", "from_residual not on decode's Err edge", where)
                continue
            rep.add("C18|runtime|decode_mut|result-from-call", f"result produced by {t3.callee}", where)
            continue
        var, arg = agg_arg(rhs)
        if var == "Ok":
            o = f.res(arg)
            if not f.dominated(blk, ok):
                rep.add("C18|runtime|decode_mut|ok-not-dominated", "Ok returned off decode's Ok edge", where)
            if not re.search(r"as Packet>::decode>.*(as Continue\.0\.0|as Ok\.0\.0)$", o):
                rep.add("C18|runtime|decode_mut|ok-wrong-value", f"Ok carries something other than decode's value ({o})", where)
            # the store must happen on the way
            if stores and not any(sb in f.dom[blk] for sb, _, _ in stores):
                rep.add("C18|runtime|decode_mut|ok-without-advance", "Ok is returned on a path that does not update the slice", where)
        elif var == "Err":
            o = f.res(arg)
            if re.search(r"as Packet>::decode>.* as Err\.0$", o) and f.dominated(blk, err):
                continue        # `Err(e) => Err(e)`: decode's own error, on decode's Err edge
            rep.add("C18|runtime|decode_mut|synthesised-error", f"decode_mut builds its own error: {rhs}", where)


def trailing_helper(body):
    """True when `body` is a function of one slice that returns Ok exactly when the slice is empty and
    Err(TrailingBytesError) otherwise (the emptiness test of decode_full moved into a helper)"""
    g = Fn(body)
    tests = [(bi, t) for bi, t in g.calls_to(r"is_empty$") if "param_1" in g.res(t.args[0])]
    if len(tests) != 1:
        return False
    bi, t = tests[0]
    nxt = dict(t.targets).get("return")
    sw = g.b.blocks[nxt].term if nxt is not None else None
    if not sw or sw.kind != "switch" or sw.discr != t.dest:
        return False
    true_e = [tgt for lab, tgt in sw.targets if lab != "0"]
    false_e = [tgt for lab, tgt in sw.targets if lab == "0"]
    seen_ok = seen_err = False
    for blk, lhs, rhs in g.assigns(r"_0"):
        if isinstance(rhs, tuple):
            return False
        var, arg = agg_arg(rhs)
        if var == "Ok" and g.dominated(blk, true_e):
            seen_ok = True
        elif var == "Err" and g.dominated(blk, false_e) and "TrailingBytesError" in g.res(arg):
            seen_err = True
        else:
            return False
    return seen_ok and seen_err


def check_decode_full(rep, f, n, byname=None):
    where = "pdl-runtime/src/lib.rs Packet::decode_full"
    dec = f.calls_to(r"as Packet>::decode(_mut)?$")
    n["rules"] += 1
    if len(dec) == 0:
        rep.add("C18|runtime|decode_full|never-decodes", "decode_full does not call Self::decode", where)
        return
    if len(dec) > 1:
        rep.undecided.append("decode_full calls decode more than once: shape not recognised")
        return
    via_mut = dec[0][1].callee.endswith("decode_mut")
    a = f.res(dec[0][1].args[0])
    n["rules"] += 1
    if "param_1" not in a:
        rep.add("C18|runtime|decode_full|decodes-input", f"decode is not called on the input ({a})", where)
    pat = r"as Packet>::decode(_mut)?>"
    ok, err = f.success_edges(pat)
    if not ok:
        rep.undecided.append("decode_full: no branch on the result of decode found")
        ok, err = [], []
    # emptiness test of decode's remainder
    empt = []
    for bi, t in f.calls_to(r"is_empty$"):
        o = f.res(t.args[0])
        if via_mut:
            if "param_1" in o or "ref(" in o:
                empt.append((bi, t))
        elif re.search(r"as Packet>::decode>.*(as Continue\.0\.1|as Ok\.0\.1)$", o):
            empt.append((bi, t))
    true_edges, false_edges = [], []
    # the same test written on the length: slice patterns (`[]` / `[_, ..]`), `len() == 0`, `len() > 0`, ...
    remainder = (lambda o: ("param_1" in o or "ref(" in o)) if via_mut else \
        (lambda o: bool(re.search(r"as Packet>::decode>.*(as Continue\.0\.1|as Ok\.0\.1)", o)))
    defs = {}
    for blk in f.b.blocks.values():
        for lhs, rhs, raw in blk.stmts:
            if lhs:
                defs.setdefault(lhs, []).append(rhs)
        t_ = blk.term
        if t_ and t_.kind == "call" and t_.dest:
            defs.setdefault(t_.dest, []).append(("call", t_))

    def chase(x, depth=0):
        """the single definition of a local, through moves/copies"""
        x = re.sub(r"^(move|copy|no_retag copy) ", "", x.strip())
        d = defs.get(x)
        if depth > 8 or not d or len(d) != 1 or not isinstance(d[0], str):
            return x, d
        r = d[0].strip()
        if re.fullmatch(r"(move |copy |no_retag copy )?_\d+", r):
            return chase(r, depth + 1)
        return x, d

    def is_len_of_remainder(x):
        x, d = chase(x)
        if not d or len(d) != 1:
            return False
        r = d[0]
        if isinstance(r, tuple):
            t_ = r[1]
            return bool(re.search(r"(^|::)len$", t_.callee)) and remainder(f.res(t_.args[0]))
        m = re.match(r"(PtrMetadata|Len)\((?:move |copy )?(.+)\)$", r.strip())
        if not m:
            return False
        inner = m.group(2)
        y, dy = chase(inner)
        src = dy[0] if dy and len(dy) == 1 and isinstance(dy[0], str) else inner
        m2 = re.search(r"\(\*(_\d+)\)", src) or re.search(r"(_\d+)", src)
        return bool(m2) and remainder(f.res(m2.group(1)))

    def const_of(x):
        x, d = chase(x)
        m = re.match(r"const (\d+)_usize", (d[0] if d and len(d) == 1 and isinstance(d[0], str) else x).strip())
        return int(m.group(1)) if m else None
    n_len_tests = 0
    for blk in f.b.blocks.values():
        sw = blk.term
        if not sw or sw.kind != "switch":
            continue
        dname, dd = chase(sw.discr)
        if not dd or len(dd) != 1 or not isinstance(dd[0], str):
            continue
        m = re.match(r"(Eq|Ne|Gt|Ge|Lt|Le)\((.+), (.+)\)$", dd[0].strip())
        if not m:
            continue
        op, a_, b_ = m.group(1), m.group(2), m.group(3)
        if is_len_of_remainder(b_) and const_of(a_) is not None:
            a_, b_ = b_, a_
            op = {"Gt": "Lt", "Lt": "Gt", "Ge": "Le", "Le": "Ge"}.get(op, op)
        if not is_len_of_remainder(a_):
            continue
        k_ = const_of(b_)
        empty_when_true = {("Eq", 0): True, ("Ne", 0): False, ("Gt", 0): False, ("Ge", 1): False, ("Lt", 1): True,
                           ("Le", 0): True}.get((op, k_))
        if empty_when_true is None:
            continue
        n_len_tests += 1
        for lab, tgt in sw.targets:
            is_true = (lab != "0")
            (true_edges if is_true == empty_when_true else false_edges).append(tgt)
    # the test moved into a helper: `helper(remaining)?` where helper is Ok exactly on the empty slice
    helper_pat = None
    for bi_, t_ in mf.calls(f.b):
        hb = (byname or {}).get(t_.callee)
        if hb is None or len(t_.args) != 1 or not remainder(f.res(t_.args[0])):
            continue
        if trailing_helper(hb):
            helper_pat = re.escape(t_.callee) + r">"
            h_ok, h_err = f.success_edges(helper_pat)
            true_edges += h_ok
            false_edges += h_err
            n_len_tests += 1
    n["rules"] += 1
    if not empt and not n_len_tests:
        rep.add("C18|runtime|decode_full|no-emptiness-test", "decode's remainder is never tested for emptiness", where)
        return
    for bi, t in empt:
        nxt = dict(t.targets).get("return")
        sw = f.b.blocks[nxt].term if nxt is not None else None
        # allow `!x.is_empty()`: a Not statement in between
        if sw and sw.kind == "switch":
            d = sw.discr
            negated = False
            if d != t.dest:
                for lhs, rhs, raw in f.b.blocks[nxt].stmts:
                    if lhs == d and rhs.startswith("Not(") and t.dest in rhs:
                        negated = True
                        d = t.dest
            if d == t.dest:
                for lab, tgt in sw.targets:
                    is_false = (lab == "0")
                    if negated:
                        is_false = not is_false
                    (false_edges if is_false else true_edges).append(tgt)
    seen_trailing = False
    for blk, lhs, rhs in f.assigns(r"_0"):
        n["rules"] += 1
        if isinstance(rhs, tuple):
            t3 = rhs[1]
            if "from_residual" in t3.callee:
                o = f.res(t3.args[0])
                if helper_pat and re.search(helper_pat, o):
                    # the helper's TrailingBytesError: on decode's Ok edge and the helper's Err edge
                    seen_trailing = True
                    if not (f.dominated(blk, ok) and f.dominated(blk, false_edges)):
                        rep.add("C18|runtime|decode_full|trailing-error-not-guarded",
                                "TrailingBytesError is returned on a path where decode did not succeed with a non-empty "
                                "remainder", where)
                    continue
                if not f.dominated(blk, err) or not re.search(pat, o):
                    rep.add("C18|runtime|decode_full|error-path", "decode's error is not returned unchanged", where)
                continue
            if re.search(r"as Packet>::decode(_mut)?$", t3.callee):
                continue
            rep.undecided.append(f"decode_full: result produced by {t3.callee}")
            continue
        var, arg = agg_arg(rhs)
        if var == "Ok":
            o = f.res(arg)
            if not (f.dominated(blk, ok) and f.dominated(blk, true_edges)):
                rep.add("C18|runtime|decode_full|ok-not-guarded", "Ok is returned without decode succeeding and the remainder "
                        "being empty", where)
            if not re.search(pat + r".*(as Continue\.0(\.0)?|as Ok\.0(\.0)?)$", o):
                rep.add("C18|runtime|decode_full|ok-wrong-value", f"Ok carries something other than decode's value ({o})", where)
        elif var == "Err":
            o = f.res(arg)
            if "TrailingBytesError" not in o:
                rep.add("C18|runtime|decode_full|wrong-error", f"unexpected error value {o}", where)
                continue
            seen_trailing = True
            if not (f.dominated(blk, ok) and f.dominated(blk, false_edges)):
                rep.add("C18|runtime|decode_full|trailing-error-not-guarded",
                        "TrailingBytesError is returned on a path where decode did not succeed with a non-empty remainder", where)
        else:
            # returning decode's own result unchanged
            o = f.res(rhs)
            if re.search(pat, o):
                if not (f.dominated(blk, true_edges) or f.dominated(blk, err)):
                    rep.add("C18|runtime|decode_full|result-not-guarded", "decode's result is returned without the emptiness test", where)
            else:
                rep.undecided.append(f"decode_full: _0 = {rhs}")
    n["rules"] += 1
    if not seen_trailing:
        rep.add("C18|runtime|decode_full|no-trailing-error", "no TrailingBytesError path", where)


def check_encode_to(rep, f, n, which):
    where = f"pdl-runtime/src/lib.rs Packet::{which}"
    enc = f.calls_to(r"as Packet>::encode(::<.*>)?$")
    n["rules"] += 1
    if len(enc) != 1:
        rep.add(f"C18|runtime|{which}|calls-encode-once", f"expected exactly one call to self.encode, found {len(enc)}", where)
        return
    bi, t = enc[0]
    self_o = f.res(t.args[0])
    buf_o = f.res(t.args[1])
    n["rules"] += 2
    if "param_1" not in self_o:
        rep.add(f"C18|runtime|{which}|encodes-self", f"encode is not called on self ({self_o})", where)
    if not any(fb in buf_o for fb in FRESH_BUFFERS):
        rep.add(f"C18|runtime|{which}|fresh-buffer", f"encode does not write into a fresh buffer ({buf_o})", where)
    ok, err = f.success_edges(r"as Packet>::encode")
    for blk, lhs, rhs in f.assigns(r"_0"):
        n["rules"] += 1
        if isinstance(rhs, tuple):
            t3 = rhs[1]
            if "from_residual" in t3.callee:
                continue
            rep.add(f"C18|runtime|{which}|result-from-call", f"result produced by {t3.callee}", where)
            continue
        var, arg = agg_arg(rhs)
        if var == "Ok":
            o = f.res(arg)
            if not f.dominated(blk, ok):
                rep.add(f"C18|runtime|{which}|ok-not-dominated", "Ok returned without encode succeeding", where)
            if not any(fb in o for fb in FRESH_BUFFERS):
                rep.add(f"C18|runtime|{which}|ok-wrong-value", f"Ok does not carry the buffer encode wrote ({o})", where)
            inner = re.sub(r"^call<BytesMut::freeze>@bb\d+\((.*)\)$", r"\1", o)
            if inner.startswith("call<") and not any(inner.startswith(f"call<{fb}>") for fb in FRESH_BUFFERS):
                rep.add(f"C18|runtime|{which}|ok-transformed", f"the buffer is transformed before being returned ({o})", where)
    # nothing else may write the buffer
    for bi2, t2 in mf.calls(f.b):
        if t2 is t or f.b.blocks[bi2].cleanup:
            continue
        for x in t2.args:
            o = f.res(x)
            if any(fb in o for fb in FRESH_BUFFERS) and not t2.callee.endswith("freeze") and "drop" not in t2.callee:
                if o.startswith("ref(") or "&mut" in x:
                    n["rules"] += 1
                    rep.add(f"C18|runtime|{which}|buffer-touched", f"{t2.callee} also receives the output buffer", where)


def idents_in(n, name, out, parent=None, role=None):
    """collect (parent node, role) for every occurrence of simple path `name`"""
    if isinstance(n, dict):
        if n.get("k") == "Path" and n["path"]["s"] == name:
            out.append((parent, role))
        for k, v in n.items():
            if isinstance(v, (dict, list)):
                idents_in(v, name, out, n, k)
    elif isinstance(n, list):
        for v in n:
            idents_in(v, name, out, parent, role)


def check_generated(rep, g, n):
    n_impl = 0
    for name, m in rc.rust_subjects(g):
        for (tr, st, it) in m.trait_impls:
            if it.get("unsafe"):
                rep.add("C18|generated|unsafe-impl", f"unsafe impl {tr} for {st}", f"{name}:{st}")
            if tr != "Packet":
                continue
            n_impl += 1
            fns = sorted(f["name"] for f in it["items"] if f["k"] == "Fn")
            n["rules"] += 1
            if fns != ["decode", "encode", "encoded_len"]:
                rep.add("C18|generated|impl-surface", f"impl Packet for {st} defines {fns}; expected exactly decode, encode, "
                        f"encoded_len (provided methods must not be overridden)", f"{name}:{st}")
        # use of the output buffer in encoders
        for (st, fname), f in m.methods.items():
            if fname not in ("encode", "encode_partial"):
                continue
            bufname = None
            for p in f["params"]:
                if p.get("ty", "").replace(" ", "").startswith("&mutimplBufMut"):
                    bufname = p["pat"].get("id")
            if bufname is None:
                rep.add("C18|generated|encode-signature", f"{st}::{fname} has no `&mut impl BufMut` parameter", f"{name}:{st}")
                continue
            occ = []
            idents_in(f["body"], bufname, occ)
            for parent, role in occ:
                n["rules"] += 1
                ok = False
                if parent and parent.get("k") == "MethodCall":
                    if role == "recv" and parent["method"] in ALLOWED_BUF_METHODS:
                        ok = True
                    if role == "args" and parent["method"] in ("encode", "encode_partial"):
                        ok = True
                if not ok:
                    what = parent.get("method") if parent else "?"
                    rep.add("C18|generated|buffer-use", f"{st}::{fname} uses the output buffer other than appending "
                            f"({parent.get('k') if parent else '?'} {what})", f"{name}.rs:{parent.get('l') if parent else 0}")
        # no interior mutability / raw pointers in generated types
        for st, fields in m.structs.items():
            for fname, ty in fields.items():
                n["rules"] += 1
                if re.search(r"\b(Cell|RefCell|Mutex|RwLock|Atomic\w+|UnsafeCell|Rc|Arc)\b|\*const|\*mut", ty):
                    rep.add("C18|generated|interior-mutability", f"{st}.{fname}: {ty}", f"{name}:{st}")
        # no unsafe blocks anywhere
        if '"k": "Unsafe"' in open(g.dir + f"/rsjson/{name}.json").read():
            rep.add("C18|generated|unsafe-block", "generated module contains an unsafe block", name)
    return n_impl


def run(rep, tier, seed):
    n = {"rules": 0}
    bodies = stages.mir_bodies("runtime")
    byname = {b.name: b for b in bodies}
    anchors = ["Packet::decode_mut", "Packet::decode_full", "Packet::encode_to_vec", "Packet::encode_to_bytes"]
    for a in anchors:
        if a not in byname:
            rep.add(f"C18|anchor-missing|{a}", f"provided method {a} not found in pdl-runtime's MIR", "pdl-runtime/src/lib.rs")
    if "Packet::decode_mut" in byname:
        check_decode_mut(rep, Fn(byname["Packet::decode_mut"]), n)
    if "Packet::decode_full" in byname:
        check_decode_full(rep, Fn(byname["Packet::decode_full"]), n, byname)
    for w in ("encode_to_vec", "encode_to_bytes"):
        if f"Packet::{w}" in byname:
            check_encode_to(rep, Fn(byname[f"Packet::{w}"]), n, w)
    g = rc.gen(tier, seed)
    n_impl = check_generated(rep, g, n)
    rep.coverage.update({
        "explanation": "MIR dominance/def-use rules on the four provided methods of trait Packet (generic over every "
                       "implementor): decode_full = decode + emptiness test, errors passed through; decode_mut writes the "
                       "caller's slice only on decode's Ok edge with decode's remainder and never lets the &mut escape; "
                       "encode_to_vec/bytes encode once into a fresh buffer and return it. Plus syntactic rules on every "
                       "generated impl Packet (surface, append-only use of the buffer, no interior mutability/unsafe).",
        "mir_bodies": len(bodies), "anchors": anchors, "rule_instances": n["rules"], "generated_impls": n_impl,
        "evaluations": n["rules"], "distinct_nontrivial": n["rules"],
        "samples": [{"anchor": a, "blocks": len(byname[a].blocks)} for a in anchors if a in byname],
    })
    rep.assumptions += ["rustc's MIR construction; Try::branch / FromResidual semantics of `?`",
                        "BufMut implementations append (bytes crate contract)"]
    if n_impl < 100:
        rep.add("C18|coverage-floor", f"only {n_impl} generated impls inspected (floor 100)", "corpus")
