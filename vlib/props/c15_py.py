"""C15, Python part: `from_int` of every generated IntEnum denotes the reference function."""
import ast

from . import rustcommon as rc
from .c13 import py_subjects


def parse_from_int(pm, cls):
    """-> (members {name: value}, open?, [(lo, hi)] passthrough ranges, rejects?) or None"""
    c = pm.classes[cls]
    members = {}
    for b in c.body:
        if isinstance(b, ast.Assign) and isinstance(b.targets[0], ast.Name) and isinstance(b.value, ast.Constant):
            members[b.targets[0].id] = b.value.value
    fn = pm.method(cls, "from_int")
    if fn is None:
        return None
    tr = next((s for s in fn.body if isinstance(s, ast.Try)), None)
    if tr is None or not tr.handlers:
        return None
    # try body: return Cls(v)
    ok = any(isinstance(s, ast.Return) and isinstance(s.value, ast.Call) and getattr(s.value.func, "id", None) == cls for s in tr.body)
    if not ok:
        return None
    h = tr.handlers[0]
    ranges = []
    is_open = False
    rejects = False
    for s in h.body:
        if isinstance(s, ast.Return) and isinstance(s.value, ast.Name):
            is_open = True
            break
        if isinstance(s, ast.If):
            t = s.test
            lo = hi = None
            if isinstance(t, ast.BoolOp) and isinstance(t.op, ast.And):
                for cmp_ in t.values:
                    if isinstance(cmp_, ast.Compare) and isinstance(cmp_.comparators[0], ast.Constant):
                        if isinstance(cmp_.ops[0], ast.GtE):
                            lo = cmp_.comparators[0].value
                        elif isinstance(cmp_.ops[0], ast.Gt):
                            lo = cmp_.comparators[0].value + 1
                        elif isinstance(cmp_.ops[0], ast.LtE):
                            hi = cmp_.comparators[0].value
                        elif isinstance(cmp_.ops[0], ast.Lt):
                            hi = cmp_.comparators[0].value - 1
            if lo is None or hi is None or not any(isinstance(x, ast.Return) for x in s.body):
                return None
            ranges.append((lo, hi))
        elif isinstance(s, ast.Raise):
            rejects = True
            break
    return members, is_open, ranges, rejects


def run(rep, g, stats):
    stats.setdefault("backends", ["rust"]).append("python")
    n = 0
    for name, pm in py_subjects(g):
        r = rc.model_ref(g, name)
        if r is None:
            continue
        for en, e in r.enums.items():
            if en not in pm.classes:
                rep.add("C15|python|enum-missing", f"no generated class for enum {en}", f"{name}:{en}")
                continue
            p = parse_from_int(pm, en)
            where = f"{name}:{en}"
            if p is None:
                rep.add("C15|python|unrecognised-shape", f"{en}.from_int has an unrecognised shape", where)
                continue
            members, is_open, ranges, rejects = p
            n += 1
            byval = {}
            for k, v in members.items():
                byval.setdefault(v, k)
            table = r.enum_table(en)
            pts = {0, 1 << e.width}
            for lo, hi, tag, c in table:
                pts |= {lo, hi + 1}
            for lo, hi in ranges:
                pts |= {lo, hi + 1}
            for v in members.values():
                pts |= {v, v + 1}
            pts = sorted(x for x in pts if 0 <= x <= (1 << e.width))
            for lo, hi in zip(pts, [x - 1 for x in pts[1:]]):
                stats["segments"] += 1
                x = lo
                if x in byval:
                    got = ("named", byval[x])
                elif is_open or any(a <= x <= b for a, b in ranges):
                    got = ("int",)
                else:
                    got = ("reject",)
                want = None
                for a, b, tag, carries in table:
                    if a <= x <= b:
                        want = ("int",) if carries else ("named", tag)
                if want is None:
                    want = ("reject",)
                if got != want:
                    if want[0] == "named" and got == ("int",):
                        rep.add("C15|python|from_int|named-tag-returned-as-int", f"{en}.from_int({x:#x}) returns the bare int, the "
                                f"reference names it {want[1]}", where)
                    elif want == ("reject",) and got != ("reject",):
                        rep.add("C15|python|from_int|accepts-undeclared", f"{en}.from_int accepts [{lo:#x}, {hi:#x}], the reference "
                                f"rejects it", where)
                    elif got == ("reject",):
                        rep.add("C15|python|from_int|rejects-declared", f"{en}.from_int rejects [{lo:#x}, {hi:#x}], the reference maps "
                                f"it to {want}", where)
                    else:
                        rep.add("C15|python|from_int|wrong-result", f"{en}.from_int([{lo:#x}, {hi:#x}]) = {got}, reference {want}", where)
    stats["py_enums"] = n
