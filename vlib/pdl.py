"""Independent model of the PDL language (doc/reference.md): data classes, a small
recursive-descent parser for corpus text, group inlining.  Nothing here comes from
/repo's parser or analyzer."""
import re
from dataclasses import dataclass, field
from typing import Optional, List, Dict, Union


@dataclass
class Tag:
    name: str
    value: Optional[int] = None          # single value
    lo: Optional[int] = None             # range
    hi: Optional[int] = None
    subtags: List["Tag"] = field(default_factory=list)
    default: bool = False                # `X = ..`


@dataclass
class Enum:
    name: str
    width: int
    tags: List[Tag]
    kind: str = "enum"


@dataclass
class Field:
    kind: str                  # scalar typedef array size count elementsize payload body fixed_scalar
    #                            fixed_enum reserved padding group checksum_start
    name: Optional[str] = None
    width: Optional[int] = None          # scalar/reserved/size/count/fixed width, array elem width
    type: Optional[str] = None           # typedef / array elem type / fixed enum / group name
    count: Optional[int] = None          # static array count
    size_modifier: Optional[int] = None  # payload / array size modifier
    target: Optional[str] = None         # size/count/elementsize designated field
    value: Union[int, str, None] = None  # fixed value (int) / fixed enum tag (str) / padding octets
    cond: Optional[tuple] = None         # (flag field name, value)
    constraints: Dict[str, Union[int, str]] = field(default_factory=dict)  # group field constraints


@dataclass
class Decl:
    kind: str                  # packet struct group custom checksum
    name: str
    parent: Optional[str] = None
    constraints: Dict[str, Union[int, str]] = field(default_factory=dict)
    fields: List[Field] = field(default_factory=list)
    width: Optional[int] = None          # custom field / checksum width
    function: Optional[str] = None


@dataclass
class File:
    endianness: str            # 'little' | 'big'
    decls: list                # Enum | Decl
    name: str = ""

    def get(self, name):
        for d in self.decls:
            if d.name == name:
                return d
        return None


# --------------------------------------------------------------------------------------
# tokenizer / parser

_TOK = re.compile(r"""
    (?P<ws>[ \t\r\n]+)
  | (?P<lc>//[^\n]*)
  | (?P<bc>/\*.*?\*/)
  | (?P<hex>0[xX][0-9a-fA-F]+)
  | (?P<int>[0-9]+)
  | (?P<id>[A-Za-z][A-Za-z0-9_]*)
  | (?P<special>_[a-z_]+_)
  | (?P<str>"[^"]*")
  | (?P<dd>\.\.)
  | (?P<p>[{}()\[\]:,=+])
""", re.X | re.S)


class ParseError(Exception):
    pass


def tokenize(text):
    out = []
    pos = 0
    while pos < len(text):
        m = _TOK.match(text, pos)
        if not m:
            raise ParseError(f"bad character at {pos}: {text[pos:pos+20]!r}")
        pos = m.end()
        k = m.lastgroup
        if k in ("ws", "lc", "bc"):
            continue
        out.append((k, m.group(k)))
    out.append(("eof", ""))
    return out


class _P:
    def __init__(self, toks):
        self.t = toks
        self.i = 0

    def peek(self, n=0):
        return self.t[self.i + n]

    def next(self):
        x = self.t[self.i]
        self.i += 1
        return x

    def accept(self, val):
        if self.t[self.i][1] == val:
            self.i += 1
            return True
        return False

    def expect(self, val):
        if not self.accept(val):
            raise ParseError(f"expected {val!r}, got {self.t[self.i]}")

    def ident(self):
        k, v = self.next()
        if k != "id":
            raise ParseError(f"expected identifier, got {k} {v!r}")
        return v

    def integer(self):
        k, v = self.next()
        if k == "hex":
            return int(v[2:], 16)
        if k == "int":
            return int(v)
        raise ParseError(f"expected integer, got {k} {v!r}")

    def is_int(self, n=0):
        return self.peek(n)[0] in ("hex", "int")


def parse(text, name=""):
    p = _P(tokenize(text))
    k, v = p.next()
    if v == "little_endian_packets":
        end = "little"
    elif v == "big_endian_packets":
        end = "big"
    else:
        raise ParseError("missing endianness")
    decls = []
    while p.peek()[0] != "eof":
        kw = p.ident()
        if kw == "enum":
            decls.append(_enum(p))
        elif kw in ("packet", "struct"):
            decls.append(_packet(p, kw))
        elif kw == "group":
            nm = p.ident()
            p.expect("{")
            fs = _fields(p)
            p.expect("}")
            decls.append(Decl("group", nm, fields=fs))
        elif kw == "custom_field":
            nm = p.ident()
            w = None
            if p.accept(":"):
                w = p.integer()
            fn = p.next()[1].strip('"')
            decls.append(Decl("custom", nm, width=w, function=fn))
        elif kw == "checksum":
            nm = p.ident()
            p.expect(":")
            w = p.integer()
            fn = p.next()[1].strip('"')
            decls.append(Decl("checksum", nm, width=w, function=fn))
        elif kw == "test":
            p.ident()
            p.expect("{")
            while not p.accept("}"):
                p.next()
        else:
            raise ParseError(f"unknown declaration keyword {kw}")
    return File(end, decls, name)


def _enum(p):
    nm = p.ident()
    p.expect(":")
    w = p.integer()
    p.expect("{")
    tags = []
    while not p.accept("}"):
        tags.append(_tag(p))
        if not p.accept(","):
            p.expect("}")
            break
    return Enum(nm, w, tags)


def _tag(p):
    nm = p.ident()
    p.expect("=")
    if p.accept(".."):
        return Tag(nm, default=True)
    v = p.integer()
    if p.accept(".."):
        hi = p.integer()
        subs = []
        if p.accept("{"):
            while not p.accept("}"):
                sn = p.ident()
                p.expect("=")
                subs.append(Tag(sn, value=p.integer()))
                if not p.accept(","):
                    p.expect("}")
                    break
        return Tag(nm, lo=v, hi=hi, subtags=subs)
    return Tag(nm, value=v)


def _constraints(p, close):
    cs = {}
    while p.peek()[1] != close:
        k = p.ident()
        p.expect("=")
        if p.is_int():
            cs[k] = p.integer()
        else:
            cs[k] = p.ident()
        if not p.accept(","):
            break
    return cs


def _packet(p, kw):
    nm = p.ident()
    parent = None
    cs = {}
    if p.accept(":"):
        parent = p.ident()
        if p.accept("("):
            cs = _constraints(p, ")")
            p.expect(")")
    p.expect("{")
    fs = _fields(p)
    p.expect("}")
    return Decl(kw, nm, parent=parent, constraints=cs, fields=fs)


def _fields(p):
    fs = []
    while p.peek()[1] != "}":
        fs.append(_field(p))
        if not p.accept(","):
            break
    return fs


def _field(p):
    k, v = p.peek()
    f = None
    if k == "special":
        p.next()
        if v == "_payload_":
            f = Field("payload")
            if p.accept(":"):
                p.expect("[")
                p.expect("+")
                f.size_modifier = p.integer()
                p.expect("]")
        elif v == "_body_":
            f = Field("body")
        elif v in ("_size_", "_count_", "_elementsize_"):
            p.expect("(")
            tk, tv = p.next()
            p.expect(")")
            p.expect(":")
            f = Field(v.strip("_"), target=tv, width=p.integer())
        elif v == "_fixed_":
            p.expect("=")
            if p.is_int():
                val = p.integer()
                p.expect(":")
                f = Field("fixed_scalar", value=val, width=p.integer())
            else:
                tag = p.ident()
                p.expect(":")
                f = Field("fixed_enum", value=tag, type=p.ident())
        elif v == "_reserved_":
            p.expect(":")
            f = Field("reserved", width=p.integer())
        elif v == "_padding_":
            p.expect("[")
            f = Field("padding", value=p.integer())
            p.expect("]")
        elif v == "_checksum_start_":
            p.expect("(")
            f = Field("checksum_start", target=p.ident())
            p.expect(")")
        else:
            raise ParseError(f"unknown special field {v}")
    else:
        nm = p.ident()
        if p.accept(":"):
            if p.is_int():
                w = p.integer()
                ty = None
            else:
                w = None
                ty = p.ident()
            if p.accept("["):
                f = Field("array", name=nm, width=w, type=ty)
                if p.accept("+"):
                    f.size_modifier = p.integer()
                elif p.is_int():
                    f.count = p.integer()
                p.expect("]")
            elif w is not None:
                f = Field("scalar", name=nm, width=w)
            else:
                f = Field("typedef", name=nm, type=ty)
        else:
            f = Field("group", type=nm)
            if p.accept("{"):
                f.constraints = _constraints(p, "}")
                p.expect("}")
    if p.peek() == ("id", "if"):
        p.next()
        cn = p.ident()
        p.expect("=")
        f.cond = (cn, p.integer())
    return f


# --------------------------------------------------------------------------------------
# rendering (model -> text)


def render_field(f):
    k = f.kind
    if k == "scalar":
        s = f"{f.name}: {f.width}"
    elif k == "typedef":
        s = f"{f.name}: {f.type}"
    elif k == "array":
        t = f.width if f.width is not None else f.type
        if f.count is not None:
            s = f"{f.name}: {t}[{f.count}]"
        elif f.size_modifier is not None:
            s = f"{f.name}: {t}[+{f.size_modifier}]"
        else:
            s = f"{f.name}: {t}[]"
    elif k in ("size", "count", "elementsize"):
        s = f"_{k}_({f.target}): {f.width}"
    elif k == "payload":
        s = "_payload_" + (f": [+{f.size_modifier}]" if f.size_modifier is not None else "")
    elif k == "body":
        s = "_body_"
    elif k == "fixed_scalar":
        s = f"_fixed_ = {f.value} : {f.width}"
    elif k == "fixed_enum":
        s = f"_fixed_ = {f.value} : {f.type}"
    elif k == "reserved":
        s = f"_reserved_: {f.width}"
    elif k == "padding":
        s = f"_padding_[{f.value}]"
    elif k == "group":
        s = f.type
        if f.constraints:
            s += " { " + ", ".join(f"{a} = {b}" for a, b in f.constraints.items()) + " }"
    elif k == "checksum_start":
        s = f"_checksum_start_({f.target})"
    else:
        raise ValueError(k)
    if f.cond:
        s += f" if {f.cond[0]} = {f.cond[1]}"
    return s


def render_tag(t):
    if t.default:
        return f"{t.name} = .."
    if t.lo is not None:
        s = f"{t.name} = {t.lo}..{t.hi}"
        if t.subtags:
            s += " { " + ", ".join(f"{x.name} = {x.value}" for x in t.subtags) + " }"
        return s
    return f"{t.name} = {t.value}"


def render(file):
    out = [f"{file.endianness}_endian_packets"]
    for d in file.decls:
        if isinstance(d, Enum):
            out.append(f"enum {d.name} : {d.width} {{\n  " + ",\n  ".join(render_tag(t) for t in d.tags) + "\n}")
        elif d.kind in ("packet", "struct"):
            h = f"{d.kind} {d.name}"
            if d.parent:
                h += f" : {d.parent}"
                if d.constraints:
                    h += " (" + ", ".join(f"{a} = {b}" for a, b in d.constraints.items()) + ")"
            out.append(h + " {\n  " + ",\n  ".join(render_field(f) for f in d.fields) + "\n}")
        elif d.kind == "group":
            out.append(f"group {d.name} {{\n  " + ",\n  ".join(render_field(f) for f in d.fields) + "\n}")
        elif d.kind == "custom":
            w = f" : {d.width}" if d.width is not None else ""
            out.append(f'custom_field {d.name}{w} "{d.function}"')
        elif d.kind == "checksum":
            out.append(f'checksum {d.name} : {d.width} "{d.function}"')
    return "\n".join(out) + "\n"


def with_endianness(text, end):
    return re.sub(r"\b(little|big)_endian_packets\b", f"{end}_endian_packets", text, count=1)
