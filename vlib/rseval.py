"""Abstract evaluator for the Rust code emitted by pdl's Rust backend (syn JSON in).

It executes a generated function body *symbolically, for all inputs at once*:
integers are symbolic expressions with intervals (sym.py), every byte slice ("span")
carries a symbolic remaining length, and every operation that can trap (reads,
advance, split_at, slicing, arithmetic, casts on the encode side, unwrap, division,
allocation) raises an obligation that must be proved from the facts established by
the guards that dominate it.  The evaluator also records an event trace (reads,
writes, checks, nested parses, loops) from which layouts are extracted.

Nothing is executed.  A construct the evaluator does not understand becomes an
`unmodelled` obligation, i.e. a violation (fail closed)."""
from . import sym
from .sym import E, Cond, const, cast, binop, Env, INF, TYMAX, TYBITS

# Assumption (stated in DESIGN.md): a value of a generated type lives in one address space
# of at most 2^48 bytes (x86-64 / aarch64 user space), so the length of any Vec and the
# encoded length of any value it owns is below 2^48.  Decode-side integers read from the
# wire are NOT bounded this way.
MEM_MAX = 2**48

INT_TYPES = ("u8", "u16", "u32", "u64", "usize", "u128", "i8", "i16", "i32", "i64", "isize")


# ------------------------------------------------------------------------------ values
class V:
    pass


class IntV(V):
    def __init__(self, e):
        self.e = e

    def __repr__(self):
        return f"Int({self.e.key()})"


class LitV(V):
    """Unsuffixed integer literal: takes the type of its context."""

    def __init__(self, v):
        self.v = v

    def __repr__(self):
        return f"Lit({self.v})"


class BoolV(V):
    def __init__(self, c):
        self.c = c


class SpanV(V):
    def __init__(self, sid):
        self.sid = sid


class SpanRefV(V):
    """&mut span"""

    def __init__(self, name):
        self.name = name


class VecV(V):
    def __init__(self, length, elem=None, cap=None, name=None):
        self.len = length      # E
        self.elem = elem       # value template of elements
        self.name = name


class OptV(V):
    def __init__(self, present, inner, name=None):
        self.present = present   # Cond
        self.inner = inner
        self.name = name


class ResV(V):
    """Result value: ok value + description of the error side."""

    def __init__(self, ok, err=None, infallible=False):
        self.ok = ok
        self.err = err or {}
        self.infallible = infallible


class ObjV(V):
    """Struct / enum / custom value of a named type."""

    def __init__(self, ty, fields=None, src=None, name=None):
        self.ty = ty
        self.fields = fields or {}
        self.src = src         # for enums: the integer expression converted from
        self.name = name       # access path, e.g. self.e


class TupV(V):
    def __init__(self, items):
        self.items = items


class UnitV(V):
    pass


class StrV(V):
    def __init__(self, s):
        self.s = s


class ClosureV(V):
    def __init__(self, params, body):
        self.params = params
        self.body = body


class RangeV(V):
    def __init__(self, lo, hi, closed=False):
        self.lo, self.hi, self.closed = lo, hi, closed


class IterV(V):
    def __init__(self, kind, **kw):
        self.kind = kind
        self.__dict__.update(kw)


class ErrV(V):
    """An error value DecodeError::X{..} / EncodeError::X{..}"""

    def __init__(self, enum, variant, attrs):
        self.enum, self.variant, self.attrs = enum, variant, attrs


class FnRefV(V):
    def __init__(self, path):
        self.path = path


class Opaque(V):
    def __init__(self, text=""):
        self.text = text

    def __repr__(self):
        return f"Opaque({self.text[:40]})"


class Return(Exception):
    def __init__(self, val):
        self.val = val


class Span:
    """State of one byte-slice variable: symbolic remaining length, typestate."""

    def __init__(self, sid, rem, suffix_of=None, label=""):
        self.sid = sid
        self.rem = rem             # E: remaining length
        self.suffix_of = suffix_of  # 'input' if a suffix of the function's input
        self.label = label


class Obl:
    def __init__(self, kind, ok, what, line, role=""):
        self.kind, self.ok, self.what, self.line, self.role = kind, ok, what, line, role

    def __repr__(self):
        return f"Obl({self.kind},{'ok' if self.ok else 'FAIL'},{self.what},l{self.line})"


class Ev:
    def __init__(self, kind, line=0, **kw):
        self.kind = kind
        self.line = line
        self.__dict__.update(kw)

    def __repr__(self):
        d = {k: v for k, v in self.__dict__.items() if k not in ("kind", "line", "body")}
        return f"Ev({self.kind} {d})"


def _lit_int(n):
    return int(n["v"])


def _outer_tag(n):
    """Name of the outermost operation of a statement: used to describe the context of an
    obligation without line numbers."""
    if n is None:
        return ""
    k = n["k"]
    if k == "Try":
        return _outer_tag(n["e"])
    if k == "MethodCall":
        return n["method"]
    if k == "Call" and n["func"]["k"] == "Path":
        return n["func"]["path"]["s"].rsplit("::", 1)[-1]
    if k in ("Paren", "Cast"):
        return _outer_tag(n["e"])
    return k


def _idents(n, out=None):
    """simple identifiers mentioned in an expression subtree"""
    if out is None:
        out = set()
    if isinstance(n, dict):
        if n.get("k") == "Path" and len(n["path"]["segs"]) == 1:
            out.add(n["path"]["s"])
        elif n.get("k") == "Field":
            out.add("." + n["member"])
        elif n.get("k") == "MethodCall":
            out.add("." + n["method"] + "()")
        for v in n.values():
            _idents(v, out)
    elif isinstance(n, list):
        for v in n:
            _idents(v, out)
    return out


def path_str(n):
    return n["path"]["s"]


class Summaries:
    """What the evaluator knows about other generated items of the same module."""

    def __init__(self):
        self.structs = {}       # type name -> {field: type string}
        self.enums = {}         # enum name -> {"repr": 'u8', "max": int, "closed": bool, ...}
        self.packets = {}       # type name -> {"min_size": n, "kind": 'packet'|'child', 'parent':..}
        self.customs = {}       # custom field types (user supplied)
        self.methods = {}       # (type, method) -> fn json
        self.child_enums = {}
        self.custom_try = {}    # generated custom-field newtype -> (int type, max accepted)


class Eval:
    def __init__(self, summ, fn_name="", self_ty="", mode="decode"):
        self.summ = summ
        self.env = Env()
        self.vars = [{}]
        self.spans = {}
        self.obls = []
        self.events = []
        self.ev_stack = [self.events]
        self.nsym = 0
        self.fn_name = fn_name
        self.self_ty = self_ty
        self.mode = mode          # decode | encode
        self.returns = []         # (value, env snapshot) for each return point
        self.loop_depth = 0
        self.loop_consumed = None
        self.in_closure = 0
        self.written = []         # encode: byte count terms
        self.ctx = []             # context tags: optional / loop / while / chunks
        self.stmt_tag = ""

    # ---------------------------------------------------------------- helpers
    def fresh(self, prefix, ty=None, lo=0, hi=None):
        self.nsym += 1
        return sym.sym(f"{prefix}#{self.nsym}", ty, lo, hi)

    def obl(self, kind, ok, what, line, role=""):
        o = Obl(kind, bool(ok), what, line, role)
        o.stmt = getattr(self, "stmt_tag", "")
        o.ctx = "/".join(self.ctx)
        o.idents = sorted(getattr(self, "cur_idents", []) or [])
        self.obls.append(o)

    def emit(self, kind, line=0, **kw):
        ev = Ev(kind, line, **kw)
        self.ev_stack[-1].append(ev)
        return ev

    def lookup(self, name):
        for sc in reversed(self.vars):
            if name in sc:
                return sc[name]
        return None

    def bind(self, name, val):
        self.vars[-1][name] = val

    def assign(self, name, val):
        for sc in reversed(self.vars):
            if name in sc:
                sc[name] = val
                return
        self.vars[-1][name] = val

    def new_span(self, rem=None, suffix_of=None, label=""):
        sid = len(self.spans)
        if rem is None:
            rem = self.fresh("len", "usize")
        self.spans[sid] = Span(sid, rem, suffix_of, label)
        return SpanV(sid)

    def span_of(self, v):
        if isinstance(v, SpanV):
            return self.spans[v.sid]
        if isinstance(v, SpanRefV):
            sv = self.lookup(v.name)
            if isinstance(sv, SpanV):
                return self.spans[sv.sid]
        return None

    def as_int(self, v, ty=None):
        if isinstance(v, IntV):
            return v.e
        if isinstance(v, LitV):
            return const(v.v, ty)
        if isinstance(v, BoolV):
            return sym.ite(v.c, const(1, ty), const(0, ty), ty)
        return None

    def consume(self, sp, n, line, what):
        """n: E bytes to take from span sp; raises the bounds obligation."""
        ok = self.env.prove_ge(sp.rem, n)
        self.obl("bounds", ok, f"{what} needs {n.key()} byte(s) of span '{sp.label}' (remaining {sp.rem.key()})",
                 line, role=what)
        sp.rem = binop("sub", sp.rem, n, "usize")
        if self.loop_consumed is not None:
            self.loop_consumed.append((sp.sid, n))

    def arith(self, op, a, b, ty, line):
        """Machine arithmetic with trap obligations."""
        r = binop(op, a, b, ty)
        if ty in TYMAX:
            if op in ("add", "mul", "sub", "shl"):
                al, ah = self.env.interval(a)
                bl, bh = self.env.interval(b)
                lo, hi = Env._arith(op, (al, ah), (bl, bh))
                if op == "sub":
                    ok = lo >= sym.tymin(ty) or self.env.prove_ge(a, b)
                    self.obl("overflow", ok, f"{a.key()} - {b.key()} may underflow {ty}", line, role="sub")
                elif op == "shl":
                    ok_shift = bh < TYBITS[ty]
                    self.obl("overflow", ok_shift, f"shift {a.key()} << {b.key()} amount may exceed {ty} width", line, role="shl")
                    if self.mode == "encode":
                        self.obl("truncation", hi <= TYMAX[ty],
                                 f"{a.key()} << {b.key()} may shift bits out of {ty}", line, role="shl-loss")
                else:
                    self.obl("overflow", hi <= TYMAX[ty], f"{a.key()} {op} {b.key()} may overflow {ty} (max {hi})",
                             line, role=op)
            elif op in ("div", "rem"):
                bl, bh = self.env.interval(b)
                self.obl("divzero", bl >= 1, f"{a.key()} {op} {b.key()}: divisor may be zero", line, role=op)
        return r

    # ---------------------------------------------------------------- statements
    def run_fn(self, fn, args):
        """fn: syn json Fn; args: dict name -> value. Returns list of (retval, env)."""
        self.vars = [dict(args)]
        try:
            v = self.block(fn["body"])
            self.returns.append((v, self.env))
        except Return as r:
            self.returns.append((r.val, self.env))
        return self.returns

    def block(self, stmts, new_scope=True):
        if new_scope:
            self.vars.append({})
        val = UnitV()
        try:
            for i, s in enumerate(stmts):
                k = s["k"]
                if k == "Let":
                    self.let(s)
                    val = UnitV()
                elif k == "ExprStmt":
                    self.stmt_tag = _outer_tag(s["e"])
                    v = self.expr(s["e"])
                    val = UnitV() if s.get("semi") else v
                else:
                    # nested items inside bodies are not emitted by the generator
                    self.obl("unmodelled", False, f"statement kind {k}", s.get("l", 0))
        finally:
            if new_scope:
                self.vars.pop()
        return val

    def let(self, s):
        self.stmt_tag = _outer_tag(s.get("init"))
        pat = s["pat"]
        self.expect_ty = None
        if pat["k"] == "PIdent":
            self.expect_ty = self.summ.structs.get(self.self_ty, {}).get(pat["id"])
        init = self.expr(s["init"]) if "init" in s else Opaque("uninit")
        self.expect_ty = None
        self.bind_pat(s["pat"], init, s.get("l", 0))

    def bind_pat(self, pat, val, line):
        k = pat["k"]
        if k == "PIdent":
            if isinstance(val, (VecV, OptV, ObjV)) and getattr(val, "name", None) is None:
                val.name = pat["id"]
            self.bind(pat["id"], val)
            self.emit("bind", line, name=pat["id"], val=val)
        elif k == "PType":
            if pat["ty"].replace(" ", "") == "&[u8]" and isinstance(val, VecV):
                val = self.new_span(val.len, "payload", "payload")
                self.emit("span_from_vec", line, sid=val.sid)
            self.bind_pat(pat["pat"], val, line)
        elif k == "PTuple":
            items = val.items if isinstance(val, TupV) else [Opaque("tuple-elem")] * len(pat["elems"])
            if not isinstance(val, TupV):
                self.obl("unmodelled", False, "tuple pattern on non-tuple value", line)
            for p, v in zip(pat["elems"], items):
                self.bind_pat(p, v, line)
        elif k == "PWild":
            pass
        elif k == "PRef":
            self.bind_pat(pat["pat"], val, line)
        else:
            self.obl("unmodelled", False, f"pattern {k}", line)

    # ---------------------------------------------------------------- expressions
    def expr(self, n):
        k = n["k"]
        m = getattr(self, "e_" + k, None)
        if m is None:
            self.obl("unmodelled", False, f"expression kind {k}", n.get("l", 0))
            return Opaque(k)
        return m(n)

    def e_Lit(self, n):
        if n["ty"] == "int":
            suf = n.get("suffix") or ""
            v = _lit_int(n)
            if suf in INT_TYPES:
                return IntV(const(v, suf))
            return LitV(v)
        if n["ty"] == "bool":
            return BoolV(Cond("true" if n["v"] else "false"))
        if n["ty"] == "str":
            return StrV(n["v"])
        return Opaque("lit")

    def e_Paren(self, n):
        return self.expr(n["e"])

    def e_Path(self, n):
        p = n["path"]
        if len(p["segs"]) == 1:
            name = p["s"]
            v = self.lookup(name)
            if v is not None:
                return v
            if name == "None":
                return OptV(Cond("false"), None)
            return FnRefV(name)
        return FnRefV(p["s"])

    def e_Ref(self, n):
        inner = n["e"]
        if n.get("mut") and inner["k"] == "Path" and len(inner["path"]["segs"]) == 1:
            v = self.lookup(inner["path"]["s"])
            if isinstance(v, SpanV):
                return SpanRefV(inner["path"]["s"])
        return self.expr(inner)

    def e_Unary(self, n):
        op = n["op"]
        v = self.expr(n["e"])
        if op == "*":
            return v
        if op == "!":
            if isinstance(v, BoolV):
                return BoolV(v.c.negate())
            e = self.as_int(v)
            if e is not None:
                return IntV(E("not", (e,), e.ty))
        self.obl("unmodelled", False, f"unary {op}", n.get("l", 0))
        return Opaque("unary")

    def e_Cast(self, n):
        v = self.expr(n["e"])
        ty = n["ty"]
        if ty == "Self" and self.self_ty in INT_TYPES:
            ty = self.self_ty
        e = self.as_int(v, None)
        if e is None:
            if isinstance(v, ObjV) and v.ty in self.summ.enums and ty in INT_TYPES:
                # `E as u8` on a primitive enum
                info = self.summ.enums[v.ty]
                return IntV(sym.sym(f"{v.name or v.ty}.as_int", ty, 0, info.get("max")))
            self.obl("unmodelled", False, f"cast of non-integer to {ty}", n.get("l", 0))
            return Opaque("cast")
        if ty not in INT_TYPES:
            self.obl("unmodelled", False, f"cast to {ty}", n.get("l", 0))
            return Opaque("cast")
        if isinstance(v, LitV):
            return IntV(const(v.v, ty))
        lo, hi = self.env.interval(e)
        lossy = hi > TYMAX[ty] or lo < sym.tymin(ty)
        if lossy:
            if self.mode == "encode":
                self.obl("truncation", False, f"cast {e.key()} (max {hi}) as {ty} may truncate", n.get("l", 0),
                         role=f"cast-{ty}")
            else:
                self.emit("lossy_cast", n.get("l", 0), e=e, ty=ty)
        return IntV(cast(e, ty))

    def _unify(self, a, b):
        """Give unsuffixed literals the type of the other operand."""
        ea = a.e if isinstance(a, IntV) else None
        eb = b.e if isinstance(b, IntV) else None
        ty = (ea.ty if ea is not None else None) or (eb.ty if eb is not None else None)
        if ea is None:
            ea = self.as_int(a, ty)
        if eb is None:
            eb = self.as_int(b, ty)
        return ea, eb, ty

    def e_Binary(self, n):
        saved = getattr(self, "cur_idents", None)
        if not saved:
            self.cur_idents = _idents(n)
        try:
            return self._binary(n)
        finally:
            self.cur_idents = saved

    def _binary(self, n):
        op = n["op"]
        line = n.get("l", 0)
        if op in ("&&", "||"):
            a = self.expr(n["lhs"])
            b = self.expr(n["rhs"])
            if isinstance(a, BoolV) and isinstance(b, BoolV):
                return BoolV(Cond("and" if op == "&&" else "or", a.c, b.c))
            self.obl("unmodelled", False, f"logical {op} on non-bool", line)
            return BoolV(Cond("opaque", line))
        if op in ("|=", "+=", "-=", "&=", "*="):
            tgt = n["lhs"]
            a = self.expr(tgt)
            b = self.expr(n["rhs"])
            if isinstance(a, BoolV) and isinstance(b, BoolV) and op == "|=":
                r = BoolV(Cond("or", a.c, b.c))
            else:
                ea, eb, ty = self._unify(a, b)
                if ea is None or eb is None:
                    self.obl("unmodelled", False, f"compound assignment {op}", line)
                    return UnitV()
                o = {"|=": "or", "+=": "add", "-=": "sub", "&=": "and", "*=": "mul"}[op]
                r = IntV(self.arith(o, ea, eb, ty, line))
            if tgt["k"] == "Path":
                self.assign(tgt["path"]["s"], r)
            else:
                self.obl("unmodelled", False, "compound assignment target", line)
            return UnitV()
        a = self.expr(n["lhs"])
        b = self.expr(n["rhs"])
        cmpops = {"<": "lt", "<=": "le", ">": "gt", ">=": "ge", "==": "eq", "!=": "ne"}
        if op in cmpops:
            ea, eb, ty = self._unify(a, b)
            if ea is not None and eb is not None:
                return BoolV(Cond(cmpops[op], ea, eb))
            if isinstance(a, BoolV) and isinstance(b, BoolV):
                return BoolV(Cond("opaque", f"booleq{line}"))
            # comparisons between objects (e.g. enum == enum): opaque but harmless
            return BoolV(Cond("opaque", f"{op}@{line}:{n.get('c', 0)}:{getattr(a, 'name', '')}"))
        ops = {"+": "add", "-": "sub", "*": "mul", "/": "div", "%": "rem", "<<": "shl", ">>": "shr",
               "&": "and", "|": "or", "^": "xor"}
        if op in ops:
            if isinstance(a, BoolV) and isinstance(b, BoolV) and op in ("|", "&"):
                return BoolV(Cond("or" if op == "|" else "and", a.c, b.c))
            ea, eb, ty = self._unify(a, b)
            if ea is None or eb is None:
                self.obl("unmodelled", False, f"binary {op} on non-integers ({a!r}, {b!r})", line)
                return Opaque("bin")
            if op in ("<<", ">>"):
                ty = ea.ty
            if isinstance(a, LitV) and isinstance(b, LitV):
                ty = None
                r = binop(ops[op], ea, eb, None)
                return LitV(r.args[0]) if r.op == "const" else IntV(r)
            if op in ("/", "%"):
                self.cur_idents = _idents(n["rhs"])      # the divisor is what matters
            r = self.arith(ops[op], ea, eb, ty, line)
            if ops[op] == "div" and self.env and binop("rem", ea, eb, ty).key() in self.env.zero:
                # exact division: a == b * r
                self.env.add_fact_ge(binop("mul", eb, r), ea)
                self.env.add_fact_ge(ea, binop("mul", eb, r))
            elif ops[op] == "div":
                self.env.add_fact_ge(ea, binop("mul", eb, r))   # floor: b*r <= a
            return IntV(r)
        self.obl("unmodelled", False, f"binary {op}", line)
        return Opaque("bin")

    def e_Assign(self, n):
        v = self.expr(n["rhs"])
        t = n["lhs"]
        if t["k"] == "Path" and len(t["path"]["segs"]) == 1:
            self.assign(t["path"]["s"], v)
        else:
            self.obl("unmodelled", False, "assignment target", n.get("l", 0))
        return UnitV()

    def e_Block(self, n):
        return self.block(n["stmts"])

    def e_Tuple(self, n):
        if not n["elems"]:
            return UnitV()
        return TupV([self.expr(x) for x in n["elems"]])

    def e_Return(self, n):
        v = self.expr(n["e"]) if "e" in n else UnitV()
        raise Return(v)

    def e_Try(self, n):
        v = self.expr(n["e"])
        line = n.get("l", 0)
        if isinstance(v, ResV):
            if not v.infallible:
                self.emit("try", line, err=v.err)
                if self.in_closure:
                    pass
            return v.ok
        self.obl("unmodelled", False, f"? on {v!r}", line)
        return Opaque("try")

    def e_Macro(self, n):
        p = n["path"]
        if p == "vec":
            args = n.get("args", [])
            return VecV(const(len(args), "usize"))
        if p in ("format", "stringify", "concat"):
            for a in n.get("args", [])[1:]:
                self.expr(a)
            return StrV("<fmt>")
        if p in ("unreachable", "panic", "todo", "unimplemented", "assert", "assert_eq", "debug_assert"):
            self.obl("panic", False, f"{p}! in generated code", n.get("l", 0), role=p)
            return Opaque(p)
        self.obl("unmodelled", False, f"macro {p}!", n.get("l", 0))
        return Opaque("macro")

    def e_Closure(self, n):
        return ClosureV(n["params"], n["body"])

    def e_Struct(self, n):
        p = n["path"]["s"]
        fields = {}
        for f in n["fields"]:
            fields[f["name"]] = self.expr(f["e"])
        if p.startswith("DecodeError::") or p.startswith("EncodeError::"):
            en, var = p.split("::", 1)
            return ErrV(en, var, fields)
        ty = self.self_ty if p == "Self" else p
        return ObjV(ty, fields)

    def e_Index(self, n):
        base = self.expr(n["base"])
        idx = n["index"]
        line = n.get("l", 0)
        sp = self.span_of(base)
        if sp is not None and idx["k"] == "Range":
            lo = self.as_int(self.expr(idx["lo"]), "usize") if "lo" in idx else None
            hi = self.as_int(self.expr(idx["hi"]), "usize") if "hi" in idx else None
            if idx.get("closed"):
                self.obl("unmodelled", False, "closed range slice", line)
            if lo is None and hi is not None:        # span[..n]  (a view; does not advance)
                ok = self.env.prove_ge(sp.rem, hi)
                self.obl("bounds", ok, f"slice [..{hi.key()}] of span '{sp.label}' (remaining {sp.rem.key()})", line,
                         role="slice-to")
                nv = self.new_span(hi, None, "slice")
                self.emit("slice_to", line, span=sp.sid, n=hi, out=nv.sid, rem=sp.rem)
                return nv
            if lo is not None and hi is None:        # span[n..]
                ok = self.env.prove_ge(sp.rem, lo)
                self.obl("bounds", ok, f"slice [{lo.key()}..] of span '{sp.label}' (remaining {sp.rem.key()})", line,
                         role="slice-from")
                nv = self.new_span(binop("sub", sp.rem, lo, "usize"), sp.suffix_of, sp.label)
                self.emit("skip", line, span=sp.sid, n=lo, out=nv.sid)
                return nv
            self.obl("unmodelled", False, "two-sided slice", line)
            return Opaque("slice")
        if isinstance(base, VecV):
            i = self.as_int(self.expr(idx), "usize")
            ok = i is not None and self.env.prove_ge(base.len, binop("add", i, const(1)))
            self.obl("bounds", ok, f"index {i.key() if i else '?'} of vec len {base.len.key()}", line, role="index")
            return base.elem or Opaque("elem")
        self.obl("unmodelled", False, f"index on {base!r}", line)
        return Opaque("index")

    def e_Range(self, n):
        lo = self.expr(n["lo"]) if "lo" in n else None
        hi = self.expr(n["hi"]) if "hi" in n else None
        return RangeV(lo, hi, n.get("closed", False))

    def e_Field(self, n):
        base = self.expr(n["base"])
        mem = n["member"]
        if isinstance(base, ObjV):
            if mem in base.fields:
                return base.fields[mem]
            v = self.field_value(base, mem)
            base.fields[mem] = v
            return v
        if isinstance(base, TupV) and mem.isdigit():
            return base.items[int(mem)]
        self.obl("unmodelled", False, f"field .{mem} of {base!r}", n.get("l", 0))
        return Opaque("field")

    def field_value(self, obj, mem, via_getter=False):
        """Abstract value of obj.mem from the struct definition of obj.ty."""
        sd = self.summ.structs.get(obj.ty, {})
        ty = sd.get(mem)
        path = f"{obj.name or obj.ty}.{mem}"
        return self.value_of_type(ty, path)

    def value_of_type(self, ty, path):
        if ty is None:
            return Opaque(path)
        ty = ty.replace(" ", "")
        if ty in INT_TYPES:
            return IntV(sym.sym(path, ty))
        if ty == "bool":
            return BoolV(Cond("opaque", path))
        if ty.startswith("Vec<"):
            inner = ty[4:-1]
            # Vec<T>::len() <= isize::MAX / size_of::<T>()
            return VecV(sym.sym(f"len({path})", "usize", 0, MEM_MAX), self.value_of_type(inner, path + "[]"), name=path)
        if ty.startswith("["):
            inner, cnt = ty[1:-1].rsplit(";", 1)
            return VecV(const(int(cnt), "usize"), self.value_of_type(inner, path + "[]"), name=path)
        if ty.startswith("Option<"):
            inner = ty[7:-1]
            return OptV(Cond("opaque", f"is_some({path})"), self.value_of_type(inner, path + "?"), name=path)
        if ty.startswith("&"):
            return self.value_of_type(ty.lstrip("&"), path)
        return ObjV(ty, name=path)

    # ---- if / match / loops
    def e_If(self, n):
        line = n.get("l", 0)
        cond = n["cond"]
        if cond["k"] == "LetCond":
            return self.if_let(n)
        c = self.expr(cond)
        if not isinstance(c, BoolV):
            self.obl("unmodelled", False, "if condition is not boolean", line)
            c = BoolV(Cond("opaque", f"if{line}"))
        known = self.env.cond_value(c.c)
        has_else = "else" in n
        # early-return guard:  if C { return Err(..) }
        then_returns = self._always_returns(n["then"])
        if then_returns and not has_else:
            saved = (self.env, self.vars)
            if known is not False:
                self.env = saved[0].copy()
                self.env.assume(c.c)
                try:
                    self.block(n["then"])
                except Return as r:
                    self.returns.append((r.val, self.env))
                    self.emit("check", line, cond=c.c, ret=r.val, always=(known is True))
            else:
                self.emit("check", line, cond=c.c, ret=None, dead=True)
            self.env, self.vars = saved
            self.env.assume(c.c.negate())
            return UnitV()
        # value-level if/else
        if has_else:
            saved_env = self.env
            pre_rem = {sid: sp.rem for sid, sp in self.spans.items()}
            results = []
            for branch, cc in ((n["then"], c.c), (n["else"], c.c.negate())):
                kv = known if cc is c.c else (None if known is None else not known)
                if kv is False:
                    continue
                self.env = saved_env.copy()
                self.env.assume(cc)
                for sid, r0 in pre_rem.items():
                    self.spans[sid].rem = r0
                ev = self.emit("cond_region", line, cond=cc, body=[])
                self.ev_stack.append(ev.body); self.ctx.append("cond_region")
                try:
                    if isinstance(branch, list):
                        v = self.block(branch)
                    else:
                        v = self.expr(branch)
                    results.append((v, self.env, cc, {sid: sp.rem for sid, sp in self.spans.items()}))
                except Return as r:
                    self.returns.append((r.val, self.env))
                finally:
                    self.ev_stack.pop(); self.ctx.pop()
            self.env = saved_env
            if not results:
                raise Return(Opaque("both-branches-return"))
            if len(results) == 1:
                self.env = results[0][1]
                for sid, r1 in results[0][3].items():
                    self.spans[sid].rem = r1
                return results[0][0]
            (v1, e1, c1, s1), (v2, e2, c2, s2) = results
            # merge span states
            for sid in s1:
                if sid in s2 and s1[sid].key() != s2[sid].key():
                    merged = sym.ite(c.c, s1[sid], s2[sid], "usize")
                    self.spans[sid].rem = merged
                    if sid in pre_rem:
                        self.env.add_fact_ge(pre_rem[sid], merged)
                elif sid in s2:
                    self.spans[sid].rem = s1[sid]
            i1, i2 = self.as_int(v1), self.as_int(v2)
            if isinstance(v1, LitV) and isinstance(v2, LitV):
                return IntV(sym.ite(c.c, const(v1.v), const(v2.v)))
            if i1 is not None and i2 is not None:
                return IntV(sym.ite(c.c, i1, i2, i1.ty or i2.ty))
            if isinstance(v1, UnitV) and isinstance(v2, UnitV):
                return UnitV()
            if isinstance(v1, OptV) and isinstance(v2, OptV):
                k1 = self.env.cond_value(v1.present) if v1.present.op not in ("true", "false") else (v1.present.op == "true")
                k2 = self.env.cond_value(v2.present) if v2.present.op not in ("true", "false") else (v2.present.op == "true")
                if k1 is True and k2 is False:
                    return OptV(c.c, v1.inner)
                if k1 is False and k2 is True:
                    return OptV(c.c.negate(), v2.inner)
            self.emit("branch_value", line, cond=c.c, a=v1, b=v2)
            return IfV(c.c, v1, v2)
        # if without else, not returning
        saved_env = self.env
        if known is not False:
            self.env = saved_env.copy()
            self.env.assume(c.c)
            ev = self.emit("cond_region", line, cond=c.c, body=[])
            self.ev_stack.append(ev.body); self.ctx.append(ev.kind)
            try:
                self.block(n["then"])
            except Return as r:
                self.returns.append((r.val, self.env))
            finally:
                self.ev_stack.pop(); self.ctx.pop()
        self.env = saved_env
        return UnitV()

    def _always_returns(self, stmts):
        if not stmts:
            return False
        last = stmts[-1]
        if last["k"] == "ExprStmt" and last["e"]["k"] == "Return":
            return True
        return False

    def if_let(self, n):
        line = n.get("l", 0)
        lc = n["cond"]
        pat = lc["pat"]
        v = self.expr(lc["e"])
        if pat["k"] == "PTupleStruct" and pat["path"]["s"] == "Some" and isinstance(v, OptV):
            saved_env = self.env
            self.env = saved_env.copy()
            self.env.assume(v.present)
            saved_written = self.written
            self.written = []
            ev = self.emit("opt_region", line, opt=v, cond=v.present, body=[])
            self.ev_stack.append(ev.body); self.ctx.append(ev.kind)
            self.vars.append({})
            try:
                self.bind_pat(pat["elems"][0], v.inner, line)
                self.block(n["then"])
            except Return as r:
                self.returns.append((r.val, self.env))
            finally:
                self.vars.pop()
                self.ev_stack.pop(); self.ctx.pop()
            self.env = saved_env
            inner = self.written
            self.written = saved_written
            for w in inner:
                self.written.append(sym.ite(v.present, w, const(0, "usize"), "usize"))
            if "else" in n:
                self.obl("unmodelled", False, "if let .. else", line)
            return UnitV()
        self.obl("unmodelled", False, f"if let pattern {pat['k']}", line)
        return UnitV()

    def e_For(self, n):
        line = n.get("l", 0)
        it = self.expr(n["iter"])
        pat = n["pat"]
        if isinstance(it, RangeV) and not it.closed:
            lo = self.as_int(it.lo, "usize")
            hi = self.as_int(it.hi, "usize")
            if lo is not None and lo.is_const() and lo.cval() == 0 and hi is not None:
                return self.counted_loop(hi, pat, None, n["body"], line)
        if isinstance(it, VecV):
            return self.counted_loop(it.len, pat, it.elem, n["body"], line, over=it)
        if isinstance(it, IterV) and it.kind == "enumerate":
            return self.counted_loop(it.vec.len, pat, TupV([IntV(self.fresh("idx", "usize")), it.vec.elem]), n["body"],
                                     line, over=it.vec)
        self.obl("unmodelled", False, f"for loop over {it!r}", line)
        return UnitV()

    def counted_loop(self, count, pat, elem, body, line, over=None, closure=None, closure_args=None):
        """Evaluate a loop body once, generically, for `count` iterations.
        Direct span consumption inside the body must be a per-iteration constant c and
        the span must hold count*c bytes before the loop."""
        pre_rem = {sid: sp.rem for sid, sp in self.spans.items()}
        saved_lc = self.loop_consumed
        self.loop_consumed = []
        saved_written = self.written
        self.written = []
        ev = self.emit("loop", line, count=count, over=over, body=[], pre_rem=dict(pre_rem))
        self.ev_stack.append(ev.body); self.ctx.append(ev.kind)
        self.vars.append({})
        saved_obls = self.obls
        self.obls = []
        saved_env = self.env
        self.env = saved_env.copy()
        result = None
        pushes_before = self._push_counts()
        try:
            if closure is not None:
                result = self.call_closure(closure, closure_args or [], line)
            else:
                if elem is not None:
                    self.bind_pat(pat, elem, line)
                elif pat["k"] == "PIdent":
                    self.bind(pat["id"], IntV(self.fresh("i", "usize")))
                self.block(body)
        except Return as r:
            self.returns.append((r.val, self.env))
        finally:
            self.vars.pop()
            self.ev_stack.pop(); self.ctx.pop()
        body_obls = self.obls
        self.obls = saved_obls
        self.env = saved_env
        body_written = self.written
        self.written = saved_written
        for w in body_written:
            if w.is_const():
                self.written.append(binop("mul", count, w, "usize"))
            elif over is not None and w.op == "sym" and w.args[0].startswith("encoded_len(") and over.name:
                self.written.append(sym.sym(f"sum_encoded_len({over.name})", "usize", 0, MEM_MAX))
            else:
                self.written.append(self.fresh("unknown_loop_bytes", "usize"))
        consumed = self.loop_consumed
        self.loop_consumed = saved_lc
        ev.consumed = consumed
        # per-span accounting
        by_span = {}
        for sid, nbytes in consumed:
            by_span.setdefault(sid, []).append(nbytes)
        reset = set()
        for sid, sp in self.spans.items():
            if sid in pre_rem and sp.rem.key() != pre_rem[sid].key() and sid not in by_span:
                reset.add(sid)      # changed by a nested parse: unknown amount
        for o in body_obls:
            if o.kind == "bounds" and o.role in ("read", "advance"):
                continue            # replaced by the whole-loop obligation below
            self.obls.append(o)
        for sid, ns in by_span.items():
            sp = self.spans[sid]
            if sid in reset or any(not x.is_const() for x in ns):
                # mixed / symbolic consumption inside a loop: cannot be summarised
                for o in body_obls:
                    if o.kind == "bounds" and o.role in ("read", "advance"):
                        self.obl("bounds", False, "read inside loop with non-constant per-iteration consumption: " + o.what,
                                 o.line, role="loop-read")
                sp.rem = self.fresh("len", "usize")
                continue
            per = sum(x.cval() for x in ns)
            total = binop("mul", count, const(per, "usize"), "usize")
            ok = self.env.prove_ge(pre_rem[sid], total)
            self.obl("bounds", ok, f"loop of {count.key()} iteration(s) reading {per} byte(s) each from span "
                     f"'{sp.label}' (remaining {pre_rem[sid].key()})", line, role="loop-read")
            sp.rem = binop("sub", pre_rem[sid], total, "usize")
            ev.per_iter = per
        for sid in reset:
            self.spans[sid].rem = self.fresh("len", "usize")
        # vec pushes inside the loop: length grows by count
        for name, (v, before) in self._push_counts_delta(pushes_before).items():
            v.len = binop("add", before, count, "usize")
        ev.result = result
        return result if closure is not None else UnitV()

    def _push_counts(self):
        out = {}
        for sc in self.vars:
            for name, v in sc.items():
                if isinstance(v, VecV):
                    out[id(v)] = (v, v.len)
        return out

    def _push_counts_delta(self, before):
        out = {}
        for k, (v, ln) in before.items():
            if v.len.key() != ln.key():
                out[k] = (v, ln)
        return out

    def e_While(self, n):
        line = n.get("l", 0)
        c = self.expr(n["cond"])
        # recognised: while !span.is_empty() { .. }
        sp = None
        if isinstance(c, BoolV) and c.c.op in ("ne", "gt") and isinstance(c.c.args[0], E):
            for s in self.spans.values():
                if s.rem.key() == c.c.args[0].key():
                    sp = s
        if sp is None:
            self.obl("termination", False, "while loop with unrecognised condition", line, role="while")
            return UnitV()
        pre = sp.rem
        ev = self.emit("while_nonempty", line, span=sp.sid, body=[])
        self.ev_stack.append(ev.body); self.ctx.append(ev.kind)
        saved_env = self.env
        self.env = saved_env.copy()
        self.env.assume(c.c)
        n_before = len(self.events)
        progress_before = len([1 for o in self.obls])
        self.vars.append({})
        self._min_progress = 0
        saved_prog = getattr(self, "progress", None)
        self.progress = {"min": 0}
        try:
            self.block(n["body"])
        except Return as r:
            self.returns.append((r.val, self.env))
        finally:
            self.vars.pop()
            self.ev_stack.pop(); self.ctx.pop()
        prog = self.progress["min"]
        self.progress = saved_prog
        self.env = saved_env
        # progress: the body must consume >= 1 byte of the span per successful iteration
        ok = prog >= 1
        self.obl("termination", ok, f"while !span.is_empty() body makes progress (min bytes consumed per iteration: "
                 f"{prog})", line, role="while-progress")
        ev.progress = prog
        # after the loop the span is empty
        sp.rem = const(0, "usize")
        return UnitV()

    def e_Match(self, n):
        line = n.get("l", 0)
        scrut = self.expr(n["e"])
        ev = self.emit("match", line, scrut=scrut, arms=[])
        vals = []
        saved_env = self.env
        for arm in n["arms"]:
            self.env = saved_env.copy()
            arm_ev = []
            self.ev_stack.append(arm_ev); self.ctx.append('match')
            try:
                v = self.expr(arm["body"])
                vals.append(v)
            except Return as r:
                self.returns.append((r.val, self.env))
                v = None
            finally:
                self.ev_stack.pop(); self.ctx.pop()
            ev.arms.append({"pat": arm["pat"], "guard": arm.get("guard"), "val": v, "events": arm_ev})
        self.env = saved_env
        return MatchV(scrut, ev.arms)

    # ---------------------------------------------------------------- calls
    def e_Call(self, n):
        line = n.get("l", 0)
        f = n["func"]
        if f["k"] != "Path":
            self.obl("unmodelled", False, "call through non-path", line)
            return Opaque("call")
        p = f["path"]["s"]
        args = [self.expr(a) for a in n["args"]]
        return self.call_path(p, args, line, f["path"])

    def call_path(self, p, args, line, pj=None):
        if p == "Ok":
            return ResV(args[0] if args else UnitV(), infallible=True)
        if p == "Err":
            return ResV(None, err={"value": args[0] if args else None})
        if p == "Some":
            return OptV(Cond("true"), args[0])
        if p == "Private":
            return args[0]
        if p in ("Vec::new",):
            return VecV(const(0, "usize"))
        if p == "Vec::with_capacity":
            nexp = self.as_int(args[0], "usize")
            self.alloc_obl(nexp, line)
            return VecV(const(0, "usize"))
        if p == "Vec::from":
            return args[0]
        if p == "Default::default":
            return Opaque("default")
        if "::" in p:
            ty, meth = p.rsplit("::", 1)
            if ty == "Self":
                ty = self.self_ty
            if ty in self.summ.child_enums:
                return ObjV(ty, {"variant": meth, "0": args[0] if args else None})
            if ty in INT_TYPES and meth == "from":
                return self.int_from(ty, args[0], line)
            if meth == "try_from" and ty in self.summ.enums:
                e = self.as_int(args[0], self.summ.enums[ty].get("repr"))
                if e is None:
                    self.obl("unmodelled", False, f"{ty}::try_from of non-integer", line)
                    e = self.fresh("x", self.summ.enums[ty].get("repr"))
                self.emit("enum_conv", line, ty=ty, e=e)
                return ResV(ObjV(ty, src=e), err={"kind": "enum", "ty": ty, "e": e})
            if meth in ("decode_mut", "decode") and (ty in self.summ.packets or ty in self.summ.customs):
                return self.nested_decode(ty, meth, args, line)
            if meth == "decode_partial":
                self.emit("decode_partial", line, ty=ty, arg=args[0] if args else None)
                return ResV(ObjV(ty), err={"kind": "decode_partial", "ty": ty})
            if meth == "encoded_len" and args:
                return IntV(self.encoded_len_of(args[0], ty))
        self.obl("unmodelled", False, f"call {p}", line)
        return Opaque(p)

    def alloc_obl(self, nexp, line):
        if nexp is None:
            self.obl("alloc", False, "Vec::with_capacity of non-integer", line)
            return
        if nexp.is_const():
            self.obl("alloc", True, f"with_capacity({nexp.cval()}) constant", line, role="alloc")
            return
        # proportional to the input: n <= remaining bytes of some span
        ok = any(self.env.prove_ge(sp.rem, nexp) for sp in self.spans.values())
        self.obl("alloc", ok, f"Vec::with_capacity({nexp.key()}) not bounded by remaining input", line, role="alloc")

    def int_from(self, ty, v, line):
        """uN::from(x): lossless widening of ints, enum -> integer conversion."""
        e = self.as_int(v, ty)
        if e is not None:
            lo, hi = self.env.interval(e)
            if hi > TYMAX[ty]:
                self.obl("unmodelled", False, f"{ty}::from of wider integer", line)
            return IntV(cast(e, ty))
        if isinstance(v, ObjV):
            if v.ty in self.summ.enums:
                info = self.summ.enums[v.ty]
                if v.src is not None:
                    return IntV(cast(v.src, ty))
                nm = v.name or v.ty
                return IntV(sym.sym(f"int({nm})", ty, 0, info.get("max", TYMAX[ty])))
            ct = self.summ.custom_try.get(v.ty if v.ty != "Self" else self.self_ty)
            nm = v.name or v.ty
            if ct is not None:
                # generated custom-field newtype: private field, constructed only through its
                # TryFrom/From impl, hence <= the accepted maximum
                return IntV(sym.sym(f"int({nm})", ty, 0, ct[1]))
            # user-supplied type: any value of uN
            return IntV(sym.sym(f"int({nm})", ty))
        if isinstance(v, FnRefV):
            # uN::from(Enum::Tag)
            if "::" in v.path:
                en, tag = v.path.split("::", 1)
                info = self.summ.enums.get(en)
                if info and tag in info.get("tags", {}):
                    return IntV(const(info["tags"][tag], ty))
                return IntV(sym.sym(f"tag({v.path})", ty))
        self.obl("unmodelled", False, f"{ty}::from({v!r})", line)
        return IntV(self.fresh("from", ty))

    def nested_decode(self, ty, meth, args, line):
        info = self.summ.packets.get(ty) or self.summ.customs.get(ty) or {}
        a = args[0] if args else None
        sp = self.span_of(a)
        if sp is None:
            self.obl("unmodelled", False, f"{ty}::{meth} on a non-span argument", line)
            return ResV(ObjV(ty), err={"kind": "nested", "ty": ty})
        self.emit("nested", line, ty=ty, mode=meth, span=sp.sid)
        mn = info.get("min_size", 0)
        if getattr(self, "progress", None) is not None:
            self.progress["min"] += mn
        if meth == "decode_mut":
            # on success the slice is advanced to decode's remainder (C18 L2); length unknown
            old = sp.rem
            sp.rem = self.fresh("len", "usize")
            self.env.add_fact_ge(old, binop("add", sp.rem, const(mn, "usize")))
            return ResV(ObjV(ty), err={"kind": "nested", "ty": ty})
        # decode(span) -> (value, remainder)
        rest = self.new_span(None, sp.suffix_of, sp.label)
        self.env.add_fact_ge(sp.rem, binop("add", self.spans[rest.sid].rem, const(mn, "usize")))
        return ResV(TupV([ObjV(ty), rest]), err={"kind": "nested", "ty": ty})

    def encoded_len_of(self, v, ty=None):
        nm = getattr(v, "name", None) or repr(v)
        t = ty or getattr(v, "ty", None)
        info = self.summ.packets.get(t, {})
        if info.get("static_size") is not None:
            return const(info["static_size"], "usize")
        return sym.sym(f"encoded_len({nm})", "usize", info.get("min_size", 0), MEM_MAX)

    def call_closure(self, clo, args, line):
        self.vars.append({})
        self.in_closure += 1
        try:
            for p, a in zip(clo.params, args):
                self.bind_pat(p, a, line)
            return self.expr(clo.body)
        finally:
            self.in_closure -= 1
            self.vars.pop()

    # ---------------------------------------------------------------- method calls
    def e_MethodCall(self, n):
        saved = getattr(self, "cur_idents", None)
        ids = _idents(n.get("args", []))
        if ids:
            self.cur_idents = ids
        try:
            return self._method_call(n)
        finally:
            self.cur_idents = saved

    def _method_call(self, n):
        line = n.get("l", 0)
        meth = n["method"]
        recv = self.expr(n["recv"])
        h = getattr(self, "m_" + meth, None)
        if h is not None:
            r = h(recv, n, line)
            if r is not NotImplemented:
                return r
        # getters on self / parent / packet objects
        if isinstance(recv, ObjV) and not n["args"]:
            r = self.getter(recv, meth, line)
            if r is not None:
                return r
        self.obl("unmodelled", False, f"method .{meth}() on {recv!r}", line)
        return Opaque(meth)

    def getter(self, obj, meth, line):
        sd = self.summ.structs.get(obj.ty)
        if sd is None:
            return None
        if meth in obj.fields:
            return obj.fields[meth]
        if meth in sd:
            v = self.field_value(obj, meth)
            obj.fields[meth] = v
            return v
        # constant getters of constrained fields:  fn a(&self) -> u8 { 1 }
        fn = self.summ.methods.get((obj.ty, meth))
        if fn is not None and len(fn["body"]) == 1 and fn["body"][0]["k"] == "ExprStmt":
            e = fn["body"][0]["e"]
            ret = (fn.get("ret") or "").replace(" ", "")
            if e["k"] == "Lit" and e["ty"] == "int":
                return IntV(const(_lit_int(e), ret if ret in INT_TYPES else None))
            if e["k"] == "Path" and "::" in e["path"]["s"]:
                en, tag = e["path"]["s"].split("::", 1)
                info = self.summ.enums.get(en)
                if info is not None and tag in info.get("tags", {}):
                    return ObjV(en, src=const(info["tags"][tag], info.get("repr")), name=f"{en}::{tag}")
                return ObjV(en, name=e["path"]["s"])
        return None

    def args(self, n):
        return [self.expr(a) for a in n["args"]]

    # -- spans
    def m_remaining(self, recv, n, line):
        sp = self.span_of(recv)
        if sp is None:
            return NotImplemented
        return IntV(sp.rem)

    m_len_span = m_remaining

    def m_len(self, recv, n, line):
        sp = self.span_of(recv)
        if sp is not None:
            return IntV(sp.rem)
        if isinstance(recv, VecV):
            return IntV(recv.len)
        return NotImplemented

    def m_is_empty(self, recv, n, line):
        sp = self.span_of(recv)
        if sp is not None:
            return BoolV(Cond("eq", sp.rem, const(0, "usize")))
        if isinstance(recv, VecV):
            return BoolV(Cond("eq", recv.len, const(0, "usize")))
        return NotImplemented

    def _get(self, recv, nbytes, ty, order, line, name):
        sp = self.span_of(recv)
        if sp is None:
            return NotImplemented
        self.consume(sp, const(nbytes, "usize"), line, "read")
        s = self.fresh("rd", ty, 0, (1 << (8 * nbytes)) - 1)
        self.emit("read", line, span=sp.sid, nbytes=nbytes, order=order, sym=s, api=name)
        if getattr(self, "progress", None) is not None:
            self.progress["min"] += nbytes
        return IntV(s)

    def m_get_u8(self, r, n, l): return self._get(r, 1, "u8", None, l, "get_u8")
    def m_get_u16(self, r, n, l): return self._get(r, 2, "u16", "big", l, "get_u16")
    def m_get_u16_le(self, r, n, l): return self._get(r, 2, "u16", "little", l, "get_u16_le")
    def m_get_u32(self, r, n, l): return self._get(r, 4, "u32", "big", l, "get_u32")
    def m_get_u32_le(self, r, n, l): return self._get(r, 4, "u32", "little", l, "get_u32_le")
    def m_get_u64(self, r, n, l): return self._get(r, 8, "u64", "big", l, "get_u64")
    def m_get_u64_le(self, r, n, l): return self._get(r, 8, "u64", "little", l, "get_u64_le")

    def _get_uint(self, recv, n, line, order):
        a = self.args(n)
        k = self.as_int(a[0], "usize") if a else None
        if k is None or not k.is_const():
            self.obl("unmodelled", False, "get_uint with non-constant byte count", line)
            return Opaque("get_uint")
        nb = k.cval()
        self.obl("contract", 1 <= nb <= 8, f"get_uint({nb}) requires nbytes <= 8", line, role="get_uint-n")
        return self._get(recv, nb, "u64", order if nb > 1 else None, line, "get_uint")

    def m_get_uint(self, r, n, l): return self._get_uint(r, n, l, "big")
    def m_get_uint_le(self, r, n, l): return self._get_uint(r, n, l, "little")

    def m_advance(self, recv, n, line):
        sp = self.span_of(recv)
        if sp is None:
            return NotImplemented
        a = self.as_int(self.args(n)[0], "usize")
        if a is None:
            self.obl("unmodelled", False, "advance by non-integer", line)
            return UnitV()
        self.consume(sp, a, line, "advance")
        self.emit("skip", line, span=sp.sid, n=a, out=sp.sid)
        if getattr(self, "progress", None) is not None and a.is_const():
            self.progress["min"] += a.cval()
        return UnitV()

    def m_split_at(self, recv, n, line):
        sp = self.span_of(recv)
        if sp is None:
            return NotImplemented
        a = self.as_int(self.args(n)[0], "usize")
        ok = a is not None and self.env.prove_ge(sp.rem, a)
        self.obl("bounds", ok, f"split_at({a.key() if a else '?'}) of span '{sp.label}' (remaining {sp.rem.key()})",
                 line, role="split_at")
        head = self.new_span(a, None, "head")
        tail = self.new_span(binop("sub", sp.rem, a, "usize"), sp.suffix_of, sp.label)
        self.emit("split", line, span=sp.sid, n=a, head=head.sid, tail=tail.sid)
        return TupV([head, tail])

    def m_to_vec(self, recv, n, line):
        sp = self.span_of(recv)
        if sp is None:
            if isinstance(recv, VecV):
                return recv
            return NotImplemented
        self.emit("to_vec", line, span=sp.sid, n=sp.rem, rem=sp.rem)
        return VecV(sp.rem, IntV(sym.sym("byte", "u8")))

    def m_chunks(self, recv, n, line):
        sp = self.span_of(recv)
        if sp is None:
            return NotImplemented
        a = self.as_int(self.args(n)[0], "usize")
        lo = self.env.interval(a)[0] if a is not None else 0
        self.obl("divzero", lo >= 1, f"chunks({a.key() if a else '?'}) panics on chunk size 0", line, role="chunks")
        return IterV("chunks", span=sp, size=a)

    def m_take(self, recv, n, line):
        if isinstance(recv, IterV) and recv.kind == "chunks":
            a = self.as_int(self.args(n)[0], "usize")
            recv.take = a
            return recv
        return NotImplemented

    def m_iter(self, recv, n, line):
        if isinstance(recv, VecV):
            return recv
        return NotImplemented

    def m_enumerate(self, recv, n, line):
        if isinstance(recv, VecV):
            return IterV("enumerate", vec=recv)
        return NotImplemented

    def m_map(self, recv, n, line):
        a = self.args(n)
        f = a[0]
        if isinstance(recv, RangeV):
            lo = self.as_int(recv.lo, "usize")
            hi = self.as_int(recv.hi, "usize")
            if lo is not None and lo.is_const() and lo.cval() == 0 and hi is not None and isinstance(f, ClosureV):
                return IterV("mapped", count=hi, clo=f, elem_args=[IntV(self.fresh("i", "usize"))])
        if isinstance(recv, IterV) and recv.kind == "chunks" and isinstance(f, ClosureV):
            return IterV("chunk_map", chunks=recv, clo=f)
        if isinstance(recv, VecV):
            if isinstance(f, FnRefV) and f.path.endswith("encoded_len"):
                return IterV("lens", vec=recv)
            if isinstance(f, ClosureV):
                return IterV("mapped", count=recv.len, clo=f, elem_args=[recv.elem or Opaque("elem")])
        if isinstance(recv, OptV):
            if isinstance(f, FnRefV) and f.path.endswith("encoded_len"):
                inner = recv.inner
                ty = f.path.rsplit("::", 1)[0]
                return OptV(recv.present, IntV(self.encoded_len_of(inner, ty if ty != "Packet" else None)))
        return NotImplemented

    def m_sum(self, recv, n, line):
        if isinstance(recv, IterV) and recv.kind == "lens":
            v = recv.vec
            ety = getattr(v.elem, "ty", None)
            info = self.summ.packets.get(ety, {})
            if info.get("static_size") is not None:
                return IntV(binop("mul", v.len, const(info["static_size"], "usize"), "usize"))
            return IntV(sym.sym(f"sum_encoded_len({v.name})", "usize", 0, MEM_MAX))
        return NotImplemented

    def m_collect(self, recv, n, line):
        tf = (n.get("turbofish") or "").replace(" ", "")
        if isinstance(recv, IterV) and recv.kind == "mapped":
            r = self.counted_loop(recv.count, None, None, None, line, closure=recv.clo, closure_args=recv.elem_args)
            elem = r.ok if isinstance(r, ResV) else r
            vec = VecV(recv.count, elem)
            if "Result<" in tf:
                if isinstance(r, ResV) and not r.infallible:
                    return ResV(vec, err=r.err)
                return ResV(vec, infallible=isinstance(r, ResV) and r.infallible and False)
            return vec
        if isinstance(recv, IterV) and recv.kind == "chunk_map":
            ch = recv.chunks
            sp = ch.span
            size = ch.size
            take = getattr(ch, "take", None)
            # each chunk is a sub-slice of length <= size (== size except the last one)
            self.emit("chunks", line, span=sp.sid, size=size, take=take, body=[])
            ev = self.ev_stack[-1][-1]
            self.ev_stack.append(ev.body); self.ctx.append(ev.kind)
            saved_env = self.env
            self.env = saved_env.copy()
            # if the span holds take*size bytes, every chunk taken has exactly `size` bytes
            exact = take is not None and self.env.prove_ge(sp.rem, binop("mul", take, size, "usize"))
            chunk = self.new_span(size if exact else self.fresh("chunklen", "usize", 1), None, "chunk")
            if not exact:
                self.env.add_fact_ge(size, self.spans[chunk.sid].rem)
            try:
                r = self.call_closure(recv.clo, [chunk], line)
            finally:
                self.ev_stack.pop(); self.ctx.pop()
                self.env = saved_env
            ev.exact = exact
            elem = r.ok if isinstance(r, ResV) else r
            cnt = take if take is not None else self.fresh("nchunks", "usize")
            vec = VecV(cnt, elem)
            if not exact:
                # number of chunks actually produced may be smaller than `take`
                vec.len = self.fresh("nchunks", "usize")
            if "Result<" in tf:
                return ResV(vec, err=(r.err if isinstance(r, ResV) else {}))
            return vec
        return NotImplemented

    def m_then(self, recv, n, line):
        a = self.args(n)
        if isinstance(recv, BoolV) and a and isinstance(a[0], ClosureV):
            saved_env = self.env
            self.env = saved_env.copy()
            self.env.assume(recv.c)
            ev = self.emit("opt_region", line, cond=recv.c, body=[])
            self.ev_stack.append(ev.body); self.ctx.append(ev.kind)
            pre = {sid: sp.rem for sid, sp in self.spans.items()}
            try:
                v = self.call_closure(a[0], [], line)
            finally:
                self.ev_stack.pop(); self.ctx.pop()
                self.env = saved_env
            # spans touched conditionally: remaining is either pre or post
            for sid, sp in self.spans.items():
                if sid in pre and sp.rem.key() != pre[sid].key():
                    post = sp.rem
                    sp.rem = sym.ite(recv.c, post, pre[sid], "usize")
                    # known: new remaining <= old remaining; facts about `pre` carry over as lower bound
                    self.env.add_fact_ge(pre[sid], sp.rem)
                    self.env.add_fact_ge(sp.rem, post) if False else None
            return OptV(recv.c, v)
        return NotImplemented

    def m_transpose(self, recv, n, line):
        if isinstance(recv, OptV) and isinstance(recv.inner, ResV):
            r = recv.inner
            return ResV(OptV(recv.present, r.ok), err=r.err, infallible=r.infallible)
        return NotImplemented

    def m_map_err(self, recv, n, line):
        a = self.args(n)
        if isinstance(recv, ResV):
            errv = None
            if a and isinstance(a[0], ClosureV):
                self.vars.append({})
                try:
                    for p in a[0].params:
                        src = recv.err.get("e") if recv.err else None
                        self.bind_pat(p, IntV(src) if isinstance(src, E) else Opaque("err"), line)
                    errv = self.expr(a[0].body)
                finally:
                    self.vars.pop()
            err = dict(recv.err)
            err["mapped"] = errv
            return ResV(recv.ok, err=err, infallible=recv.infallible)
        return NotImplemented

    def m_and_then(self, recv, n, line):
        a = self.args(n)
        if isinstance(recv, ResV) and a and isinstance(a[0], ClosureV):
            v = self.call_closure(a[0], [recv.ok], line)
            if isinstance(v, ResV):
                err = dict(recv.err)
                err["and_then"] = v.err
                return ResV(v.ok, err=err, infallible=recv.infallible and v.infallible)
            if isinstance(v, IfV):
                # if chunk.is_empty() { Ok(value) } else { Err(..) }
                oks = [x for x in (v.a, v.b) if isinstance(x, ResV) and x.ok is not None]
                errs = [x for x in (v.a, v.b) if isinstance(x, ResV) and x.ok is None]
                if oks:
                    err = dict(recv.err)
                    err["and_then"] = {"cond": v.cond, "errs": errs}
                    self.emit("and_then_check", line, cond=v.cond, errs=errs)
                    return ResV(oks[0].ok, err=err)
        return NotImplemented

    def m_try_into(self, recv, n, line):
        if isinstance(recv, VecV):
            # Vec<T> -> [T; N]: fails (Err) unless len == N; never panics
            return ResV(recv, err={"kind": "try_into_array"})
        if isinstance(recv, ObjV):
            # parent -> child conversions (specialize): &Parent -> Child via decode_partial
            self.emit("try_into", line, src=recv)
            return ResV(ObjV("?child"), err={"kind": "try_into"})
        e = self.as_int(recv)
        if e is not None:
            # integer -> custom field (TryFrom supplied by the user)
            self.emit("int_try_into", line, e=e)
            return ResV(ObjV("?custom", src=e), err={"kind": "custom_try_from", "e": e})
        return NotImplemented

    def m_into(self, recv, n, line):
        e = self.as_int(recv)
        if e is not None:
            return ObjV("?custom", src=e)
        if isinstance(recv, ObjV):
            return recv
        return NotImplemented

    def m_unwrap(self, recv, n, line):
        if isinstance(recv, ResV):
            if recv.infallible:
                return recv.ok
            kind = (recv.err or {}).get("kind")
            if kind == "custom_try_from":
                # truncated custom field: the conversion must accept every value that can be read
                e = recv.err["e"]
                target = getattr(self, "expect_ty", None) or self.self_ty
                ct = self.summ.custom_try.get(target)
                lo, hi = self.env.interval(e)
                self.emit("unwrap_custom", line, e=e, target=target)
                if ct is None:
                    self.obl("panic", False, f"unwrap() of try_into() into {target}: accepted set unknown", line,
                             role="unwrap-custom")
                else:
                    self.obl("panic", hi <= ct[1], f"unwrap() of try_into() into {target} (accepts <= {ct[1]:#x}) on a "
                             f"value up to {hi:#x}", line, role="unwrap-custom")
                return recv.ok
            self.obl("panic", False, "unwrap() on a fallible Result", line, role="unwrap")
            return recv.ok
        if isinstance(recv, OptV):
            known = self.env.cond_value(recv.present)
            self.obl("panic", known is True, "unwrap() on an Option that may be None", line, role="unwrap")
            return recv.inner
        return NotImplemented

    m_expect = m_unwrap

    def m_unwrap_or(self, recv, n, line):
        a = self.args(n)
        if isinstance(recv, OptV):
            i = self.as_int(recv.inner, "usize") if recv.inner is not None else None
            d = self.as_int(a[0], "usize")
            if i is not None and d is not None:
                return IntV(sym.ite(recv.present, i, d, i.ty))
        return NotImplemented

    def m_as_ref(self, recv, n, line):
        return recv

    def m_clone(self, recv, n, line):
        return recv

    def m_is_some(self, recv, n, line):
        if isinstance(recv, OptV):
            return BoolV(recv.present)
        return NotImplemented

    def m_is_none(self, recv, n, line):
        if isinstance(recv, OptV):
            return BoolV(recv.present.negate())
        return NotImplemented

    def m_push(self, recv, n, line):
        a = self.args(n)
        if isinstance(recv, VecV):
            recv.len = binop("add", recv.len, const(1, "usize"), "usize")
            recv.elem = a[0]
            return UnitV()
        return NotImplemented

    def m_get(self, recv, n, line):
        a = self.args(n)
        if isinstance(recv, VecV):
            i = self.as_int(a[0], "usize")
            return OptV(Cond("gt", recv.len, i) if i is not None else Cond("opaque", "get"), recv.elem or Opaque("elem"))
        return NotImplemented

    def m_map_or(self, recv, n, line):
        a = self.args(n)
        if isinstance(recv, OptV) and len(a) == 2:
            d = self.as_int(a[0], "usize")
            f = a[1]
            if isinstance(f, FnRefV) and f.path.endswith("encoded_len") and d is not None:
                i = self.encoded_len_of(recv.inner if recv.inner is not None else Opaque("elem"))
                return IntV(sym.ite(recv.present, i, d, "usize"))
        return NotImplemented

    def m_encoded_len(self, recv, n, line):
        if isinstance(recv, (ObjV, Opaque)):
            return IntV(self.encoded_len_of(recv))
        return NotImplemented

    # -- encode side: writes
    def _put(self, recv, n, line, nbytes, order, api):
        if not isinstance(recv, BufV):
            return NotImplemented
        a = self.args(n)
        ty = f"u{nbytes * 8}"
        e = self.as_int(a[0], ty)
        if e is None:
            self.obl("unmodelled", False, f"{api} of non-integer {a[0]!r}", line)
            e = self.fresh("w", ty)
        self.emit("write", line, nbytes=nbytes, order=order, e=e, api=api, env=self.env)
        self.written.append(const(nbytes, "usize"))
        return UnitV()

    def m_put_u8(self, r, n, l): return self._put(r, n, l, 1, None, "put_u8")
    def m_put_u16(self, r, n, l): return self._put(r, n, l, 2, "big", "put_u16")
    def m_put_u16_le(self, r, n, l): return self._put(r, n, l, 2, "little", "put_u16_le")
    def m_put_u32(self, r, n, l): return self._put(r, n, l, 4, "big", "put_u32")
    def m_put_u32_le(self, r, n, l): return self._put(r, n, l, 4, "little", "put_u32_le")
    def m_put_u64(self, r, n, l): return self._put(r, n, l, 8, "big", "put_u64")
    def m_put_u64_le(self, r, n, l): return self._put(r, n, l, 8, "little", "put_u64_le")

    def _put_uint(self, recv, n, line, order):
        if not isinstance(recv, BufV):
            return NotImplemented
        a = self.args(n)
        e = self.as_int(a[0], "u64")
        k = self.as_int(a[1], "usize")
        if e is None or k is None or not k.is_const():
            self.obl("unmodelled", False, "put_uint with unknown operands", line)
            return UnitV()
        nb = k.cval()
        self.obl("contract", 1 <= nb <= 8, f"put_uint(.., {nb}) requires nbytes <= 8", line, role="put_uint-n")
        lo, hi = self.env.interval(e)
        self.obl("truncation", hi < (1 << (8 * nb)), f"put_uint({e.key()}, {nb}) silently drops bits above {8*nb} "
                 f"(value max {hi})", line, role=f"put_uint-{nb}")
        self.emit("write", line, nbytes=nb, order=order if nb > 1 else None, e=e, api="put_uint", env=self.env)
        self.written.append(const(nb, "usize"))
        return UnitV()

    def m_put_uint(self, r, n, l): return self._put_uint(r, n, l, "big")
    def m_put_uint_le(self, r, n, l): return self._put_uint(r, n, l, "little")

    def m_put_bytes(self, recv, n, line):
        if not isinstance(recv, BufV):
            return NotImplemented
        a = self.args(n)
        v = self.as_int(a[0], "u8")
        cnt = self.as_int(a[1], "usize")
        self.emit("write_fill", line, value=v, count=cnt, env=self.env)
        self.written.append(cnt if cnt is not None else self.fresh("unknown_bytes", "usize"))
        return UnitV()

    def m_put_slice(self, recv, n, line):
        if not isinstance(recv, BufV):
            return NotImplemented
        a = self.args(n)
        v = a[0]
        if isinstance(v, VecV):
            self.emit("write_bytes", line, vec=v)
            self.written.append(v.len)
            return UnitV()
        return NotImplemented

    def m_encode(self, recv, n, line):
        a = self.args(n)
        if a and isinstance(a[0], BufV) and isinstance(recv, (ObjV, Opaque)):
            ln = self.encoded_len_of(recv)
            self.emit("write_nested", line, obj=recv, ty=getattr(recv, "ty", None))
            self.written.append(ln)
            return ResV(UnitV(), err={"kind": "nested_encode"})
        return NotImplemented

    def m_encode_partial(self, recv, n, line):
        a = self.args(n)
        if a and isinstance(a[0], (BufV, VecV)) and isinstance(recv, ObjV):
            self.emit("write_partial", line, obj=recv)
            if isinstance(a[0], BufV):
                self.written.append(sym.sym(f"partial_len({recv.name or recv.ty})", "usize", 0, MEM_MAX))
            if isinstance(a[0], VecV):
                a[0].len = sym.sym(f"partial_len({recv.name or recv.ty})", "usize", 0, MEM_MAX)
            return ResV(UnitV(), err={"kind": "encode_partial"})
        return NotImplemented


class IfV(V):
    def __init__(self, cond, a, b):
        self.cond, self.a, self.b = cond, a, b


class MatchV(V):
    def __init__(self, scrut, arms):
        self.scrut, self.arms = scrut, arms


class BufV(V):
    """the `buf: &mut impl BufMut` parameter of encoders"""
    pass
