import sys, os
from vlib import cxxast, cxxmod
d, idx = cxxast.stage_cxx("quick", 0)
name = sys.argv[1]
only = sys.argv[2:]
cx = cxxmod.Cxx(os.path.join(d, name + ".json"), name)
print("mins", cx.compute_mins())
views, builders, structs = cx.kinds()
for decl, c in list(structs.items()) + list(views.items()):
    if only and decl not in only: continue
    try:
        ev = cx.eval_parse(c)
    except Exception as e:
        import traceback; traceback.print_exc(); print("EXC", decl); continue
    if ev is None: print("no Parse", decl); continue
    bad = [o for o in ev.obls if not o.ok]
    print(f"== {decl}: {len(ev.obls)} obligations, {len(bad)} failed, skipped={ev.was_skipped}")
    for o in bad: print("   ", o)
    for it in ev.items:
        d2 = {k: v for k, v in it.items() if k not in ("uses", "sym", "chunk")}
        if "bits" in d2:
            bs = d2.pop("bits"); d2["bits"] = [b for i, b in enumerate(bs) if i == 0 or bs[i-1][:2] != b[:2]]
        print("    ", d2)
    for g, s in cx.getters(c).items() if c.name.endswith("View") else []:
        gb = [o for o in s["ev"].obls if not o.ok]
        print("    getter", g, {k: v for k, v in s.items() if k not in ("ev",)}, [str(o) for o in gb])
