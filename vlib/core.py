"""Core plumbing: paths, repo content hash, cached stages, findings, evidence."""
import fcntl
import hashlib
import json
import os
import subprocess
import sys
import time

VERIF = os.path.dirname(os.path.dirname(os.path.abspath(__file__)))
REPO = os.environ.get("VERIF_REPO", "/repo")
CACHE = os.path.join(VERIF, ".cache")
TOOLS = os.path.join(VERIF, "tools")
EVIDENCE = os.path.join(VERIF, "evidence")
KNOWN = os.path.join(VERIF, "known_findings.json")

_HASH_EXT = (".rs", ".pest", ".h", ".toml", ".md", ".pdl", ".py", ".lock", ".json")


def repo_hash():
    """Content hash over the sources of /repo's working tree (not git state)."""
    h = hashlib.sha256()
    for root, dirs, files in os.walk(REPO):
        dirs[:] = sorted(d for d in dirs if d not in (".git", "target", "out", "node_modules"))
        for f in sorted(files):
            if f.endswith(_HASH_EXT):
                p = os.path.join(root, f)
                try:
                    with open(p, "rb") as fh:
                        data = fh.read()
                except OSError:
                    continue
                h.update(os.path.relpath(p, REPO).encode())
                h.update(b"\0")
                h.update(hashlib.sha256(data).digest())
    return h.hexdigest()[:20]


def verif_hash():
    h = hashlib.sha256()
    for sub in ("vlib", "tools", "corpus", "spec"):
        base = os.path.join(VERIF, sub)
        for root, dirs, files in os.walk(base):
            dirs[:] = sorted(d for d in dirs if d not in ("target", "__pycache__"))
            for f in sorted(files):
                if f.endswith((".py", ".rs", ".toml", ".json", ".pdl", ".lock")):
                    p = os.path.join(root, f)
                    h.update(os.path.relpath(p, VERIF).encode())
                    with open(p, "rb") as fh:
                        h.update(hashlib.sha256(fh.read()).digest())
    return h.hexdigest()[:12]


_RH = None
_VH = None


def state_key():
    global _RH, _VH
    if _RH is None:
        _RH = repo_hash()
        _VH = verif_hash()
    return f"{_RH}-{_VH}"


def stage_dir(name):
    d = os.path.join(CACHE, state_key(), name)
    return d


class StageError(Exception):
    pass


def run_stage(name, builder):
    """Run `builder(outdir)` once per (repo state, verif state); later callers reuse it.
    The stage is complete when <dir>/.done exists. Protected by a file lock."""
    d = stage_dir(name)
    done = os.path.join(d, ".done")
    if os.path.exists(done):
        return d
    os.makedirs(os.path.dirname(d), exist_ok=True)
    lock_path = os.path.join(CACHE, f".lock-{name.replace('/', '_')}")
    with open(lock_path, "w") as lk:
        fcntl.flock(lk, fcntl.LOCK_EX)
        if os.path.exists(done):
            return d
        if os.path.exists(d):
            subprocess.run(["rm", "-rf", d])
        os.makedirs(d)
        t0 = time.time()
        builder(d)
        with open(done, "w") as f:
            f.write(str(time.time() - t0))
    return d


def prune_cache(keep=2):
    """Keep the cache small: remove all but the most recent `keep` state dirs."""
    if not os.path.isdir(CACHE):
        return
    cur = state_key()
    ents = []
    for e in os.listdir(CACHE):
        p = os.path.join(CACHE, e)
        if os.path.isdir(p) and e != cur and not e.startswith("target"):
            ents.append((os.path.getmtime(p), p))
    ents.sort(reverse=True)
    now = time.time()
    for mt, p in ents[max(0, keep - 1):]:
        if now - mt < 3600:
            continue        # possibly in use by a check started on an earlier state of the trees
        subprocess.run(["rm", "-rf", p])


def sh(cmd, cwd=None, env=None, check=True, timeout=None):
    e = dict(os.environ)
    e["CARGO_NET_OFFLINE"] = "true"
    if env:
        e.update(env)
    p = subprocess.run(cmd, cwd=cwd, env=e, capture_output=True, text=True, timeout=timeout)
    if check and p.returncode != 0:
        raise StageError(f"command failed ({p.returncode}): {' '.join(cmd)}\n{p.stdout[-3000:]}\n{p.stderr[-6000:]}")
    return p


# --------------------------------------------------------------------------------
# findings


class Finding:
    """A violation of a property, with a root-cause key (no line numbers, no corpus names)."""

    def __init__(self, prop, key, what, where="", detail=None):
        self.prop = prop
        self.key = key
        self.what = what
        self.where = where
        self.detail = detail or {}

    def to_json(self):
        return {"property": self.prop, "key": self.key, "what": self.what, "where": self.where,
                "detail": self.detail}


def load_known():
    if not os.path.exists(KNOWN):
        return []
    with open(KNOWN) as f:
        return json.load(f).get("findings", [])


class Report:
    """Collects findings + coverage for one property check and writes evidence."""

    def __init__(self, prop, level, tier, seed):
        self.prop = prop
        self.level = level
        self.tier = tier
        self.seed = seed
        self.findings = []
        self.coverage = {}
        self.assumptions = []
        self.undecided = []
        self.t0 = time.time()
        self.notes = []

    def add(self, key, what, where="", detail=None):
        self.findings.append(Finding(self.prop, key, what, where, detail))

    def finish(self):
        known = [k for k in load_known() if k.get("property") == self.prop and k.get("status") == "known"]
        known_keys = {k["key"]: k for k in known}
        # group by key
        by_key = {}
        for f in self.findings:
            by_key.setdefault(f.key, []).append(f)
        new = {k: v for k, v in by_key.items() if k not in known_keys}
        seen_known = {k: v for k, v in by_key.items() if k in known_keys}
        os.makedirs(os.path.join(EVIDENCE, "replay"), exist_ok=True)
        lines = []
        for k, v in sorted(seen_known.items()):
            lines.append(f"KNOWN-FINDING: property={self.prop} {known_keys[k].get('what', v[0].what)} [key={k}; {len(v)} site(s)]")
        n = 0
        for k, v in sorted(new.items()):
            n += 1
            rp = os.path.join(EVIDENCE, "replay", f"{self.prop}-{n}.json")
            with open(rp, "w") as fh:
                json.dump({"property": self.prop, "key": k, "sites": [x.to_json() for x in v[:20]]}, fh, indent=1)
            lines.append(f"VIOLATION property={self.prop} replay={rp}")
            lines.append(f"  key: {k}")
            for x in v[:5]:
                lines.append(f"  at {x.where}: {x.what}")
            if len(v) > 5:
                lines.append(f"  ... {len(v) - 5} more site(s)")
        # known findings that went quiet: the witness no longer shows the defect
        quiet = [k for k in known_keys if k not in by_key and self.coverage.get("_ran_witnesses", True)]
        for k in quiet:
            self.notes.append(f"known finding not observed on this run: {k}")
        cov = dict(self.coverage)
        cov.pop("_ran_witnesses", None)
        cov["known_findings_observed"] = sorted(seen_known.keys())
        cov["new_violation_keys"] = sorted(new.keys())
        if self.undecided:
            cov["undecided"] = self.undecided[:50]
        if self.notes:
            cov["notes"] = self.notes[:50]
        ev = {
            "property_id": self.prop,
            "tier": self.tier,
            "seed": self.seed,
            "level": self.level,
            "coverage": cov,
            "assumptions": self.assumptions,
            "wall_s": round(time.time() - self.t0, 2),
            "violations": len(new),
        }
        os.makedirs(EVIDENCE, exist_ok=True)
        with open(os.path.join(EVIDENCE, f"{self.prop}.json"), "w") as fh:
            json.dump(ev, fh, indent=1, default=str)
        for l in lines:
            print(l)
        for nte in self.notes[:10]:
            print(f"note: {nte}")
        status = "FAIL" if new else "ok"
        print(f"[{self.prop}] {status}: {len(new)} new violation key(s), {len(seen_known)} known finding(s), "
              f"{ev['wall_s']}s")
        sys.stdout.flush()
        return 1 if new else 0
