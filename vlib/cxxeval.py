"""Abstract evaluation of emitted C++ (clang AST, see cxxast.py): View::Parse, struct Parse, array getters,
Builder::Serialize / GetSize, and the slice / Builder templates of packet_runtime.h.

Values are symbolic integers (sym.E) with clang's own expression types, slices with a symbolic remaining length,
vectors with a symbolic size, objects.  Every operation that is undefined, throws or asserts in C++ raises an
obligation; constructs outside the generator's idiom set are `unmodelled` obligations (fail closed).  The evaluator
also records, in the item format shared with rslayout / pyeval, what the parser reads and what the serializer
writes."""
import re

from . import sym
from .sym import E, Cond, Env, const, binop
from .cxxast import body_of, params_of, walk

INT_TY = {
    "unsigned char": "u8", "uint8_t": "u8", "unsigned short": "u16", "uint16_t": "u16", "unsigned int": "u32",
    "uint32_t": "u32", "unsigned long": "u64", "uint64_t": "u64", "size_t": "u64", "unsigned long long": "u64",
    "std::size_t": "u64", "int": "i32", "long": "i64", "bool": "bool", "char": "i8", "signed char": "i8", "short": "i16",
    "std::vector::size_type": "u64", "size_type": "u64", "long long": "i64",
}


def strip_cv(t):
    t = (t or "").replace("const ", "").replace(" const", "").strip()
    while t.endswith("&"):
        t = t[:-1].strip()
    return t


class Obl:
    def __init__(self, kind, ok, what, line, role=""):
        self.kind, self.ok, self.what, self.line, self.role = kind, ok, what, line, role

    def __repr__(self):
        return f"[{'ok' if self.ok else 'FAIL'}] {self.kind}: {self.what} (line {self.line})"


class SliceV:
    """a pdl::packet::slice value: remaining length (symbolic), identity of the region it was cut from"""
    _n = 0

    def __init__(self, rem, origin="input", label=None):
        SliceV._n += 1
        self.ver = SliceV._n
        self.rem = rem
        self.origin = origin
        self.label = label
        self.start_rem = rem

    def copy(self):
        s = SliceV(self.rem, self.origin, self.label)
        s.start_rem = self.start_rem
        s.src = self
        for a in ("parent", "off", "len_expr", "parent_rem"):
            if hasattr(self, a):
                setattr(s, a, getattr(self, a))
        return s


class VecV:
    def __init__(self, name, size, elem=None, static_n=None):
        self.name, self.size, self.elem, self.static_n = name, size, elem, static_n


class ObjV:
    def __init__(self, ty, fields=None, name=None):
        self.ty, self.fields, self.name = ty, fields if fields is not None else {}, name


class OptV:
    def __init__(self, name, inner=None):
        self.name, self.inner = name, inner


class EnumV:
    def __init__(self, ty, e):
        self.ty, self.e = ty, e


class Opaque:
    def __init__(self, what=""):
        self.what = what


def subst(e, mapping):
    """replace sub-expressions (by key, casts looked through) according to mapping key -> E"""
    if not isinstance(e, E):
        return e
    k = e.key()
    if k in mapping:
        return mapping[k]
    if e.op in ("const", "sym"):
        return e
    if e.op == "ite":
        return E("ite", (e.args[0], subst(e.args[1], mapping), subst(e.args[2], mapping)), e.ty)
    return E(e.op, tuple(subst(a, mapping) for a in e.args), e.ty)


class Ref:
    """an lvalue: (container dict, key) or a variable slot"""

    def __init__(self, get, set_, name=None, kind=None):
        self.get, self.set, self.name, self.kind = get, set_, name, kind


class Ret(Exception):
    def __init__(self, val):
        self.val = val


class Brk(Exception):
    pass


class Abort(Exception):
    pass


class Eval:
    def __init__(self, mod, cls, fn, mode, mins=None):
        """mode: 'parse' (View::Parse / struct Parse), 'getter', 'serialize', 'size', 'runtime'"""
        self.mod, self.cls, self.fn, self.mode = mod, cls, fn, mode
        self.mins = mins or {}
        self.env = Env()
        self.obls = []
        self.vars = {}
        self.nsym = 0
        self.items = []
        self.chunks = {}
        self.roles = {}
        self.var = {}
        self.checks = []
        self.returns = []
        self.always_fails = None
        self.loop = None
        self.written = []            # serializer: symbolic byte counts
        self.members = {}            # this->x_ / output->x_ current values
        self.assigned = set()        # members of *this / *output assigned on some path
        self.member_prefix = None
        self.line = 0
        self.pad_start = {}
        self.struct = False

    # ------------------------------------------------------------------ helpers
    def obl(self, kind, ok, what, role=""):
        self.obls.append(Obl(kind, bool(ok), what, self.line, role))

    def fresh(self, prefix, ty=None, hi=None):
        self.nsym += 1
        if hi is None and ty in sym.TYMAX:
            hi = sym.TYMAX[ty]
        return sym.sym(f"{prefix}#{self.nsym}", ty, 0, hi)

    def ity(self, t):
        t = strip_cv(t)
        if t in INT_TY:
            return INT_TY[t]
        b = t.split("::")[-1]
        if b in INT_TY:
            return INT_TY[b]
        if b in self.mod.enums:
            return self.mod.enums[b].get("uty")
        return None

    # ------------------------------------------------------------------ running
    def run(self):
        ps = params_of(self.fn)
        body = body_of(self.fn)
        if any(n.get("kind") == "RecoveryExpr" or n.get("containsErrors") or n.get("isInvalid") for n in walk(self.fn)) or \
                (self.cls is not None and any(f.get("isInvalid") for f in self.cls.fields.values())):
            self.obl("uncompilable", True, "function contains compile errors (reported by C10); skipped")
            self.was_skipped = True
            return self
        self.was_skipped = False
        self.setup(ps)
        try:
            self.block(body)
        except Ret as r:
            pass
        except Abort:
            pass
        self.finish()
        return self

    def setup(self, ps):
        if self.mode == "parse":
            for p in ps:
                t = strip_cv(p["type"])
                if t.endswith("slice"):
                    s = SliceV(self.fresh("len", "u64"), "input", p["name"])
                    self.input = s
                    self.vars[p["name"]] = s
                elif t.endswith("*"):
                    self.struct = True
                    self.vars[p["name"]] = ObjV(t[:-1].strip().split("::")[-1], self.members, "output")
                elif t.split("::")[-1].endswith("View"):
                    pv = ObjV(t.split("::")[-1], {}, p["name"])
                    pv.is_parent_view = True
                    self.vars[p["name"]] = pv
                    self.parent_view = pv
                else:
                    self.vars[p["name"]] = Opaque("param")
        elif self.mode == "runtime":
            pass
        else:
            for p in ps:
                t = strip_cv(p["type"])
                if "vector" in t:
                    self.vars[p["name"]] = VecV("output", const(0, "u64"))
                else:
                    self.vars[p["name"]] = Opaque("param")

    def block(self, node):
        for s in node.get("inner", []) or []:
            self.stmt(s)

    # ------------------------------------------------------------------ statements
    def stmt(self, s):
        if not s:
            return
        self.line = s.get("line", self.line)
        k = s.get("kind")
        m = getattr(self, "s_" + k, None)
        if m is not None:
            return m(s)
        if k.endswith("Expr") or k.endswith("Operator") or k in ("ExprWithCleanups",):
            self.expr(s)
            return
        self.obl("unmodelled", False, f"statement {k}")

    def s_CompoundStmt(self, s):
        self.block(s)

    def s_NullStmt(self, s):
        pass

    def s_DeclStmt(self, s):
        for v in s.get("inner", []):
            if v.get("kind") != "VarDecl":
                continue
            t = strip_cv(v.get("type"))
            init = (v.get("inner") or [None])[0]
            val = self.expr(init) if init is not None else self.default_value(t, v.get("dtype"), v["name"])
            if isinstance(val, SliceV):
                val = val.copy()
                val.label = v["name"]
            ty = self.ity(v.get("dtype") or t) or self.ity(t)
            if isinstance(val, E) and ty and val.ty != ty:
                val = self.convert(val, ty, f"initialisation of {v['name']}")
            self.vars[v["name"]] = val
            if isinstance(val, E):
                self.var[v["name"]] = self.uncast(val) if hasattr(self, "uncast") else val
                self.use(v["name"], val, field=False)

    def default_value(self, t, dt, name):
        base = (dt or t)
        m = re.search(r"array<(.*), *(\d+)>", base)
        if m:
            return VecV(name, const(int(m.group(2)), "u64"), static_n=int(m.group(2)))
        if "vector" in base:
            return VecV(name, const(0, "u64"))
        if "slice" in base:
            return SliceV(const(0, "u64"), None, name)
        b = strip_cv(t).split("::")[-1]
        if b in self.mod.classes:
            return ObjV(b, {}, name)
        ty = self.ity(t)
        if ty:
            return self.fresh("uninit", ty)
        return Opaque("default")

    def s_ReturnStmt(self, s):
        v = self.expr(s["inner"][0]) if s.get("inner") else None
        self.returns.append((v, self.env.copy(), self.line))
        raise Ret(v)

    def s_BreakStmt(self, s):
        raise Brk()

    def s_IfStmt(self, s):
        inner = s["inner"]
        cnode, then = inner[0], inner[1]
        els = inner[2] if len(inner) > 2 else None
        c = self.cond(cnode)
        known = self.env.cond_value(c) if c is not None else None
        then_returns_false = self.is_return_false(then)
        if els is None and self.is_break(then):
            # `if (!ok) break;` inside an element loop: a guard of the rest of the iteration
            if self.loop is not None:
                self.loop["break_guard"] = c
            if c is not None:
                self.env.assume(c.negate())
            return
        if then_returns_false and els is None:
            # rejection guard
            self.checks.append((self.classify_reject(c), c, self.line))
            if known is True:
                if getattr(self, "depth", 0) == 0 and self.loop is None:
                    self.always_fails = ("reject", self.line)
                self.returns.append((const(0, "bool"), self.env.copy(), self.line))
                raise Ret(const(0, "bool"))
            if c is not None:
                self.note_fixed(c)
                self.env.assume(c.negate())
            return
        if known is True:
            return self.stmt(then)
        if known is False:
            return self.stmt(els) if els is not None else None
        # general two-way branch: optional regions and padding adjustment
        self.depth = getattr(self, "depth", 0) + 1
        try:
            self.two_way(c, then, els)
        finally:
            self.depth -= 1

    def two_way(self, c, then, els):
        snap = self.snapshot()
        if c is not None:
            self.env.assume(c)
        items_before = len(self.items)
        r1 = None
        try:
            self.stmt(then)
        except Ret as r:
            r1 = r
        s1 = self.snapshot()
        then_items = self.items[items_before:]
        self.restore(snap)
        del self.items[items_before:]
        if c is not None:
            self.env.assume(c.negate())
        r2 = None
        if els is not None:
            try:
                self.stmt(els)
            except Ret as r:
                r2 = r
        s2 = self.snapshot()
        else_items = self.items[items_before:]
        del self.items[items_before:]
        if r1 is not None and r2 is not None:
            raise r1
        if r1 is not None:
            self.restore(s2)
            self.items += else_items
            return
        if r2 is not None:
            self.restore(s1)
            self.items += then_items
            return
        self.merge(snap, s1, s2, c, then_items, else_items)

    def is_return_false(self, st):
        if st is None:
            return False
        if st.get("kind") == "CompoundStmt":
            inner = st.get("inner") or []
            if len(inner) != 1:
                return False
            st = inner[0]
        if st.get("kind") != "ReturnStmt" or not st.get("inner"):
            return False
        v = st["inner"][0]
        return v.get("kind") == "CXXBoolLiteralExpr" and v.get("value") is False

    def is_break(self, st):
        if st is None:
            return False
        if st.get("kind") == "CompoundStmt":
            inner = st.get("inner") or []
            return len(inner) == 1 and inner[0].get("kind") == "BreakStmt"
        return st.get("kind") == "BreakStmt"

    def classify_reject(self, c):
        if c is None:
            return "reject"
        k = c.key()
        if "rem(" in k and c.op == "ne":
            return "ArraySizeError"
        if c.op == "lt" and isinstance(c.args[0], E) and c.args[0].key().startswith("len"):
            return "LengthError"
        if c.op == "gt" and isinstance(c.args[0], E) and isinstance(c.args[1], E) and c.args[1].is_const() \
                and c.args[1].cval() == 0:
            return "TrailingBytesError"
        return "reject"

    def note_fixed(self, c):
        """`if (value != K) return false` : the compared bits are fixed"""
        if c.op == "ne" and isinstance(c.args[0], E) and isinstance(c.args[1], E):
            a, b = c.args
            if a.is_const():
                a, b = b, a
            if b.is_const():
                self.use("fixed", a, kind="fixed", value=b.cval())
        if c.op == "not" and isinstance(c.args[0], Cond) and c.args[0].op == "opaque":
            pass

    def snapshot(self):
        return {"env": self.env.copy(), "vars": dict(self.vars), "members": dict(self.members),
                "slices": {k: (v.rem,) for k, v in list(self.vars.items()) + list(self.members.items())
                           if isinstance(v, SliceV)},
                "written": list(self.written)}

    def restore(self, snap):
        self.env = snap["env"].copy()
        self.vars = dict(snap["vars"])
        self.members.clear()
        self.members.update(snap["members"])
        for k, (rem,) in snap["slices"].items():
            v = self.vars.get(k) if k in self.vars else self.members.get(k)
            if isinstance(v, SliceV):
                v.rem = rem
        self.written = list(snap["written"])

    def merge(self, pre, s1, s2, c, items1, items2):
        """join of an if/else without early return"""
        # slices: remaining length becomes ite
        self.restore(s2)
        for k, (rem1,) in s1["slices"].items():
            v = self.vars.get(k) if k in self.vars else self.members.get(k)
            if isinstance(v, SliceV):
                rem2 = v.rem
                if rem1.key() != rem2.key():
                    v.rem = sym.ite(c, rem1, rem2, "u64") if c is not None else self.fresh("len", "u64")
        for k, v1 in s1["members"].items():
            v2 = self.members.get(k)
            if isinstance(v1, E) and isinstance(v2, E) and v1.key() != v2.key():
                self.members[k] = sym.ite(c, v1, v2, v1.ty) if c is not None else self.fresh("phi", v1.ty)
            elif k not in self.members:
                self.members[k] = v1
        for k, v1 in s1["vars"].items():
            v2 = self.vars.get(k)
            if isinstance(v1, E) and isinstance(v2, E) and v1.key() != v2.key():
                self.vars[k] = sym.ite(c, v1, v2, v1.ty) if c is not None else self.fresh("phi", v1.ty)
        if self.mode == "serialize":
            w1, w2 = s1["written"], s2["written"]
            base = len(pre["written"])
            a = w1[base:]
            b = w2[base:]
            self.written = list(pre["written"])
            if a or b:
                pa, pb = self.sum_poly(a), self.sum_poly(b)
                self.written.append(("ite", c, a, b))
        env = pre["env"].copy()
        self.env = env
        # optional region bookkeeping
        if items1 and not items2:
            self.items.append({"k": "cond", "c": c, "items": items1, "neg": False, "line": self.line})
        elif items2 and not items1:
            self.items.append({"k": "cond", "c": c, "items": items2, "neg": True, "line": self.line})
        elif items1 or items2:
            self.items.append({"k": "cond2", "c": c, "then": items1, "else": items2, "line": self.line})

    def sum_poly(self, ws):
        p = {}
        for w in ws:
            if isinstance(w, tuple):
                continue
            p = sym.p_add(p, self.env.poly(w))
        return p

    def s_ForStmt(self, s):
        init, _cv, cnd, inc, body = (s["inner"] + [None] * 5)[:5]
        if init:
            self.stmt(init)
        # constant trip count -> unroll (runtime templates, static arrays of small size); otherwise generic iteration
        ivar, bound = self.loop_header(cnd)
        if ivar is None:
            self.obl("unmodelled", False, "for loop shape")
            return
        start = self.vars.get(ivar)
        if isinstance(bound, E) and bound.is_const() and isinstance(start, E) and start.is_const() and \
                (self.mode == "runtime" or bound.cval() - start.cval() <= 0):
            for i in range(start.cval(), bound.cval()):
                self.vars[ivar] = const(i, start.ty)
                try:
                    self.stmt(body)
                except Brk:
                    break
            self.vars[ivar] = const(max(bound.cval(), start.cval()), start.ty)
            return
        self.generic_loop(body, count=bound, ivar=ivar)

    def loop_header(self, cnd):
        if not cnd or cnd.get("kind") != "BinaryOperator" or cnd.get("opcode") != "<":
            return None, None
        a, b = cnd["inner"]
        n = self.strip(a)
        if n.get("kind") != "DeclRefExpr":
            return None, None
        return n["ref"]["name"], self.expr(b)

    def strip(self, n):
        while n.get("kind") in ("ImplicitCastExpr", "ParenExpr", "MaterializeTemporaryExpr", "CXXBindTemporaryExpr",
                                "ExprWithCleanups", "ConstantExpr"):
            n = n["inner"][0]
        return n

    def s_WhileStmt(self, s):
        cnd, body = s["inner"][0], s["inner"][1]
        self.generic_loop(body, cond_node=cnd)

    def s_CXXForRangeStmt(self, s):
        # for (auto const& element : container)
        inner = s["inner"]
        rng = None
        var = None
        for x in inner:
            if not x:
                continue
            if x.get("kind") == "DeclStmt":
                for v in x.get("inner", []):
                    if v.get("kind") == "VarDecl" and (v.get("name") or "").startswith("__range"):
                        rng = self.expr(v["inner"][0])
                        rng = rng.get() if isinstance(rng, Ref) else rng
                    elif v.get("kind") == "VarDecl" and not (v.get("name") or "").startswith("__"):
                        var = v
        body = inner[-1]
        if not isinstance(rng, VecV) or var is None:
            self.obl("unmodelled", False, "range-for over a non-vector")
            return
        elem = self.elem_value(rng, var)
        self.vars[var["name"]] = elem
        self.generic_loop(body, count=rng.size, over=rng)

    def elem_value(self, vec, var):
        t = strip_cv(var.get("type"))
        dt = strip_cv(var.get("dtype") or "")
        for cand in (dt, t):
            b = cand.split("::")[-1]
            if b in self.mod.classes:
                return ObjV(b, None, f"{vec.name}[]")
            if b in self.mod.enums:
                ty = self.mod.enums[b].get("uty")
                return EnumV(b, sym.sym(f"elem({vec.name})", ty, 0, sym.TYMAX.get(ty)))
            ty = self.ity(cand)
            if ty:
                return sym.sym(f"elem({vec.name})", ty, 0, sym.TYMAX.get(ty))
        if vec.elem is not None:
            return vec.elem
        return Opaque("elem")

    def generic_loop(self, body, count=None, cond_node=None, ivar=None, over=None):
        """Evaluate the body once for an arbitrary iteration."""
        outer = self.loop
        lp = {"reads": [], "items": [], "count": count, "pre": {}, "writes": [], "over": over, "ivar": ivar,
              "line": self.line, "pushes": [], "nested": [], "cond": None}
        # spans alive before the loop
        spans = {k: v for k, v in list(self.vars.items()) + list(self.members.items()) if isinstance(v, SliceV)}
        lp["pre"] = {k: v.rem for k, v in spans.items()}
        self.loop = lp
        snap_env = self.env.copy()
        items_before = len(self.items)
        written_before = len(self.written)
        if ivar is not None:
            self.vars[ivar] = self.fresh("i", "u64")
            if isinstance(count, E):
                self.env.assume(Cond("lt", self.vars[ivar], count))
        # loop-carried slices get a fresh remaining length at the head of an arbitrary iteration
        heads = {}
        for k, v in spans.items():
            heads[k] = self.fresh("len", "u64")
            v.rem = heads[k]
        if cond_node is not None:
            c = self.cond(cond_node)
            lp["cond"] = c
            if c is not None:
                self.env.assume(c)
        broke = False
        try:
            self.stmt(body)
        except Brk:
            broke = True
        except Ret as r:
            pass
        body_items = self.items[items_before:]
        del self.items[items_before:]
        body_written = self.written[written_before:]
        del self.written[written_before:]
        # progress of while loops: some loop-carried slice tested by the condition must shrink
        consumed = {}
        for k, v in spans.items():
            d = sym.p_add(self.env.poly(heads[k]), self.env.poly(v.rem), -1)
            consumed[k] = d
        lp["consumed"] = consumed
        lp["heads"] = heads
        lp["body_items"] = body_items
        lp["body_written"] = body_written
        lp["broke"] = broke
        self.loop = outer
        self.env = snap_env
        # state of the loop-carried slices after the loop
        for k, v in spans.items():
            d = consumed[k]
            if not {m: c_ for m, c_ in d.items() if c_ != 0}:
                v.rem = lp["pre"][k]
                continue
            exit_zero = False
            cnd = lp.get("cond")
            if cnd is not None and cnd.op == "gt" and isinstance(cnd.args[0], E) and cnd.args[0].key() == heads[k].key() \
                    and isinstance(cnd.args[1], E) and cnd.args[1].is_const() and cnd.args[1].cval() == 0:
                exit_zero = True
            if exit_zero:
                v.rem = const(0, "u64")
            else:
                K = self.poly_const(d)
                if K is not None and isinstance(count, E):
                    v.rem = binop("sub", lp["pre"][k], binop("mul", count, const(K, "u64"), "u64"), "u64")
                else:
                    nr = self.fresh("len", "u64")
                    self.env.add_fact_ge(lp["pre"][k], nr)
                    v.rem = nr
        self.after_loop(lp, spans)

    def poly_const(self, p):
        p = {m: c_ for m, c_ in p.items() if c_ != 0}
        if not p:
            return 0
        if list(p.keys()) == [()] and p[()].denominator == 1:
            return int(p[()])
        return None

    def after_loop(self, lp, spans):
        line = lp["line"]
        if self.mode in ("parse", "getter"):
            self.parse_loop_done(lp, spans)
        elif self.mode in ("serialize", "size"):
            self.ser_loop_done(lp)

    # ------------------------------------------------------------------ conditions
    def cond(self, n):
        n0 = n
        n = self.strip(n)
        k = n.get("kind")
        if k == "BinaryOperator":
            op = n["opcode"]
            if op in ("<", "<=", ">", ">=", "==", "!="):
                a = self.expr(n["inner"][0])
                b = self.expr(n["inner"][1])
                a, b = self.as_int(a), self.as_int(b)
                if a is None or b is None:
                    return Cond("opaque", sym.sym(f"cmp@{self.line}"))
                return Cond({"<": "lt", "<=": "le", ">": "gt", ">=": "ge", "==": "eq", "!=": "ne"}[op], a, b)
            if op in ("&&", "||"):
                a = self.cond(n["inner"][0])
                b = self.cond(n["inner"][1])
                if a is None or b is None:
                    return None
                return Cond("and" if op == "&&" else "or", a, b)
        if k == "UnaryOperator" and n.get("opcode") == "!":
            c = self.cond(n["inner"][0])
            return c.negate() if c is not None else None
        if k == "CXXBoolLiteralExpr":
            return Cond("true" if n.get("value") else "false")
        if k == "CXXStaticCastExpr":
            return self.cond(n["inner"][0])
        v = self.expr(n0)
        if isinstance(v, Cond):
            return v
        if isinstance(v, E):
            if v.ty == "bool" and v.op == "sym":
                return Cond("opaque", v)
            return Cond("ne", v, const(0, v.ty))
        if isinstance(v, Opaque):
            return Cond("opaque", sym.sym(f"{v.what}@{self.line}"))
        return None

    def as_int(self, v):
        if isinstance(v, E):
            return v
        if isinstance(v, EnumV):
            return v.e
        if isinstance(v, Cond):
            return None
        return None

    # ------------------------------------------------------------------ expressions
    def expr(self, n):
        if not n:
            return Opaque("empty")
        self.line = n.get("line", self.line)
        k = n["kind"]
        m = getattr(self, "e_" + k, None)
        if m is None:
            self.obl("unmodelled", False, f"expression {k}")
            return Opaque(k)
        return m(n)

    def e_IntegerLiteral(self, n):
        return const(int(n["value"]), self.ity(n.get("type")))

    def e_CXXBoolLiteralExpr(self, n):
        return const(1 if n.get("value") else 0, "bool")

    def e_StringLiteral(self, n):
        return Opaque("string")

    def e_ParenExpr(self, n):
        return self.expr(n["inner"][0])

    e_ConstantExpr = e_ParenExpr
    e_ExprWithCleanups = e_ParenExpr
    e_MaterializeTemporaryExpr = e_ParenExpr
    e_CXXBindTemporaryExpr = e_ParenExpr

    def e_SubstNonTypeTemplateParmExpr(self, n):
        xs = [x for x in n.get("inner", []) if not x.get("kind", "").endswith("Decl")]
        return self.expr(xs[-1]) if xs else Opaque("subst")

    def e_CXXDefaultArgExpr(self, n):
        return Opaque("default-arg")

    def e_CXXNullPtrLiteralExpr(self, n):
        return Opaque("nullptr")

    def e_UnaryExprOrTypeTraitExpr(self, n):
        if n.get("name") == "sizeof" and n.get("argtype"):
            ty = self.ity(n["argtype"])
            if ty in sym.TYBITS:
                return const(max(1, sym.TYBITS[ty] // 8), "u64")
        return Opaque("sizeof")

    def e_CXXThisExpr(self, n):
        return ObjV(self.cls.name if self.cls else "?", self.members, "this")

    def e_ImplicitCastExpr(self, n):
        ck = n.get("castKind")
        v = self.expr(n["inner"][0])
        if ck in ("LValueToRValue", "NoOp", "FunctionToPointerDecay", "UncheckedDerivedToBase", "DerivedToBase",
                  "ArrayToPointerDecay", "ConstructorConversion", "UserDefinedConversion"):
            if isinstance(v, Ref):
                return v.get()
            return v
        if ck == "IntegralCast":
            if isinstance(v, Ref):
                v = v.get()
            ty = self.ity(n.get("dtype") or n.get("type")) or self.ity(n.get("type"))
            if isinstance(v, EnumV):
                v = v.e
            if isinstance(v, E) and ty:
                return self.convert(v, ty, "implicit conversion")
            return v
        if ck == "IntegralToBoolean":
            if isinstance(v, E):
                return Cond("ne", v, const(0, v.ty))
            return v
        if ck == "ToVoid":
            return v
        return v

    def convert(self, v, ty, what, explicit=False):
        """integral conversion to `ty`; value-changing conversions in parsers are reported once per site"""
        if v.ty == ty:
            return v
        if v.is_const():
            return sym.cast(v, ty)
        lo, hi = self.env.interval(v)
        tmax = sym.TYMAX.get(ty)
        fits = tmax is not None and lo >= sym.tymin(ty) and hi <= tmax
        if fits:
            # value-preserving: keep the expression, retyped
            e = E("cast", (v,), ty)
            return e
        if self.mode in ("parse", "getter") and not explicit and not (ty in ("u64", "i64") and hi <= sym.TYMAX["i64"]):
            self.obl("truncation", False, f"{what}: {v.key()} (range {lo}..{hi}) does not fit {ty}: the parser continues "
                     f"with a wrapped value", role="wrap")
        return E("cast", (v,), ty)

    def e_CXXStaticCastExpr(self, n):
        v = self.expr(n["inner"][0])
        if isinstance(v, Ref):
            v = v.get()
        t = strip_cv(n.get("type"))
        b = t.split("::")[-1]
        if b in self.mod.enums:
            e = self.as_int(v)
            return EnumV(b, e) if e is not None else v
        ty = self.ity(n.get("dtype") or t) or self.ity(t)
        e = self.as_int(v)
        if e is not None and ty:
            return self.convert(e, ty, "static_cast", explicit=True)
        return v

    e_CStyleCastExpr = e_CXXStaticCastExpr
    e_CXXFunctionalCastExpr = e_CXXStaticCastExpr

    def e_DeclRefExpr(self, n):
        r = n.get("ref") or {}
        name = r.get("name")
        if r.get("kind") == "EnumConstantDecl":
            ety = strip_cv(n.get("type")).split("::")[-1]
            en = self.mod.enums.get(ety)
            if en and name in en["tags"]:
                return EnumV(ety, const(en["tags"][name], en.get("uty")))
            return Opaque("enumconst")
        if r.get("kind") in ("VarDecl", "ParmVarDecl", "BindingDecl"):
            if name in self.vars:
                return Ref(lambda: self.vars[name], lambda v: self.vars.__setitem__(name, v), name, "var")
            self.obl("unmodelled", False, f"unknown variable {name}")
            return Opaque(name)
        if r.get("kind") in ("FunctionDecl", "CXXMethodDecl"):
            return ("fn", r)
        if r.get("kind") == "NonTypeTemplateParmDecl":
            tv = getattr(self, "targs", {}).get(name)
            if tv is not None:
                return const(tv, "u64")
        return Opaque(name or "ref")

    def e_MemberExpr(self, n):
        base_n = n["inner"][0]
        name = n.get("name")
        if n.get("type") == "<bound member function type>":
            return ("method", name, base_n, n.get("memid"))
        base = self.expr(base_n)
        if isinstance(base, Ref):
            base = base.get()
        if isinstance(base, ObjV):
            if base.fields is None:
                # element of a vector in a serializer: symbolic member
                return self.elem_member(base, name, n)
            flds = base.fields
            if getattr(base, "is_parent_view", False) and name not in flds:
                flds[name] = self.parent_member(base, name, n)
            if name not in flds:
                flds[name] = self.initial_member(base, name, n)

            def setm(v, flds=flds, name=name, own=(flds is self.members)):
                flds[name] = v
                if own:
                    self.assigned.add(name)
            return Ref(lambda: flds[name], setm, name, "member")
        self.obl("unmodelled", False, f"member {name} of {type(base).__name__}")
        return Opaque(name)

    def parent_member(self, base, name, n):
        t = strip_cv(n.get("dtype") or n.get("type"))
        if "slice" in t:
            s = SliceV(self.fresh("len", "u64"), "input", name)
            s.from_parent = True
            if name == "payload_":
                self.input = s
            return s
        ty = self.ity(t)
        if ty:
            return sym.sym(f"parent.{name}", ty, 0, sym.TYMAX.get(ty))
        b = t.split("::")[-1]
        if b in self.mod.enums:
            return EnumV(b, sym.sym(f"parent.{name}", self.mod.enums[b].get("uty")))
        return Opaque(f"parent.{name}")

    def initial_member(self, base, name, n):
        t = strip_cv(n.get("dtype") or n.get("type"))
        if "slice" in t:
            ml = getattr(self, "member_len", {}).get(name)
            if self.mode == "getter" and ml is not None:
                return SliceV(ml, "member", name)
            return SliceV(self.fresh("len", "u64") if self.mode == "getter" else const(0, "u64"), "member", name)
        if "vector" in t:
            if self.mode in ("serialize", "size"):
                return VecV(name, sym.sym(f"len({name})", "u64", 0, 2 ** 48), elem=self.vec_elem(t, name))
            return VecV(name, const(0, "u64"), elem=self.vec_elem(t, name))
        m = re.match(r"(?:std::)?array<(.*), *(\d+)>", t)
        if m:
            return VecV(name, const(int(m.group(2)), "u64"), elem=self.vec_elem(t, name), static_n=int(m.group(2)))
        if "optional" in t:
            return OptV(name)
        ty = self.ity(t)
        if ty:
            if self.mode in ("serialize", "size", "getter"):
                return sym.sym(f"self.{name}", ty, 0, sym.TYMAX.get(ty))
            return const(0, ty)
        b = t.split("::")[-1]
        if b in self.mod.enums:
            return EnumV(b, sym.sym(f"self.{name}", self.mod.enums[b].get("uty"), 0,
                                    sym.TYMAX.get(self.mod.enums[b].get("uty"))))
        if b in self.mod.classes:
            return ObjV(b, None, name)
        return Opaque(f"member {name}")

    def vec_elem(self, t, name):
        m = re.search(r"<\s*([^,<>]+)", t)
        if not m:
            return None
        et = m.group(1).strip()
        b = et.split("::")[-1]
        if b in self.mod.classes:
            return ObjV(b, None, f"{name}[]")
        if b in self.mod.enums:
            ty = self.mod.enums[b].get("uty")
            return EnumV(b, sym.sym(f"elem({name})", ty, 0, sym.TYMAX.get(ty)))
        ty = self.ity(et)
        if ty:
            return sym.sym(f"elem({name})", ty, 0, sym.TYMAX.get(ty))
        return None

    def elem_member(self, base, name, n):
        t = strip_cv(n.get("dtype") or n.get("type"))
        ty = self.ity(t)
        if ty:
            return sym.sym(f"{base.name}.{name}", ty, 0, sym.TYMAX.get(ty))
        return Opaque(f"{base.name}.{name}")

    def e_UnaryOperator(self, n):
        op = n.get("opcode")
        inner = n["inner"][0]
        if op == "!":
            c = self.cond(inner)
            return c.negate() if c is not None else Opaque("not")
        if op == "&":
            v = self.expr(inner)
            if isinstance(v, Ref) and v.kind == "member" and inner.get("kind") == "MemberExpr" \
                    and (inner.get("inner") or [{}])[0].get("kind") == "CXXThisExpr":
                self.assigned.add(v.name)       # &member handed to a callee that fills it (T::Parse(span, &member_))
            return v.get() if isinstance(v, Ref) else v
        if op == "*":
            v = self.expr(inner)
            if isinstance(v, Ref):
                v = v.get()
            if isinstance(v, OptV):
                return self.opt_value(v)
            return v
        if op in ("++", "--"):
            r = self.expr(inner)
            if isinstance(r, Ref):
                old = r.get()
                if isinstance(old, E):
                    r.set(binop("add" if op == "++" else "sub", old, const(1, old.ty), old.ty))
                return old
            return Opaque(op)
        if op == "-":
            v = self.expr(inner)
            if isinstance(v, Ref):
                v = v.get()
            if isinstance(v, E):
                return binop("sub", const(0, v.ty), v, v.ty)
        if op == "__extension__":
            return Opaque("ext")
        if op == "+":
            v = self.expr(inner)
            return v.get() if isinstance(v, Ref) else v
        if op == "~":
            v = self.expr(inner)
            if isinstance(v, Ref):
                v = v.get()
            if isinstance(v, E) and v.is_const() and v.ty in sym.TYMAX:
                return const(sym.TYMAX[v.ty] ^ v.cval(), v.ty)
        self.obl("unmodelled", False, f"unary {op}")
        return Opaque(op)

    def opt_value(self, o):
        if o.inner is None:
            o.inner = self.fresh(f"opt.{o.name}")
        return o.inner

    def e_ConditionalOperator(self, n):
        cn, a, b = n["inner"]
        # assert macro: cond ? void(0) : __assert_fail(...)
        if any(x.get("kind") == "DeclRefExpr" and (x.get("ref") or {}).get("name") == "__assert_fail" for x in walk(b)):
            c = self.cond(cn)
            txt = c.key() if c is not None else "?"
            is_valid = any(x.get("kind") == "MemberExpr" and x.get("name") == "valid_" for x in walk(cn))
            if is_valid:
                self.valid_asserted = True
            else:
                known = self.env.cond_value(c) if c is not None else None
                self.obl("assert", known is True, f"assertion {txt} may fail", role="assert")
                if c is not None:
                    self.env.assume(c)
            return Opaque("assert")
        c = self.cond(cn)
        va, vb = self.expr(a), self.expr(b)
        va = va.get() if isinstance(va, Ref) else va
        vb = vb.get() if isinstance(vb, Ref) else vb
        ea, eb = self.as_int(va), self.as_int(vb)
        if c is not None and ea is not None and eb is not None:
            known = self.env.cond_value(c)
            if known is True:
                return ea
            if known is False:
                return eb
            return sym.ite(c, ea, eb, ea.ty or eb.ty)
        return Opaque("cond")

    def e_BinaryOperator(self, n):
        op = n["opcode"]
        if op == "=":
            return self.assign(n["inner"][0], n["inner"][1], n)
        if op in ("<", "<=", ">", ">=", "==", "!=", "&&", "||"):
            c = self.cond(n)
            return c if c is not None else Opaque("cmp")
        if op == ",":
            self.expr(n["inner"][0])
            return self.expr(n["inner"][1])
        a = self.expr(n["inner"][0])
        b = self.expr(n["inner"][1])
        a = a.get() if isinstance(a, Ref) else a
        b = b.get() if isinstance(b, Ref) else b
        a, b = self.as_int(a), self.as_int(b)
        if a is None or b is None:
            return Opaque(op)
        ty = self.ity(n.get("dtype") or n.get("type")) or a.ty
        return self.arith(op, a, b, ty)

    def arith(self, op, a, b, ty):
        name = {"+": "add", "-": "sub", "*": "mul", "/": "div", "%": "rem", "<<": "shl", ">>": "shr", "&": "and",
                "|": "or", "^": "xor"}.get(op)
        if name is None:
            self.obl("unmodelled", False, f"binary {op}")
            return Opaque(op)
        if name in ("div", "rem"):
            lo, hi = self.env.interval(b)
            ok = lo >= 1
            if not ok:
                self.obl("divzero", False, f"`{a.key()} {op} {b.key()}`: the divisor may be zero (undefined behaviour)",
                         role=f"divisor={self.describe(b)}")
        if name == "rem" and b.is_const() and b.cval() == 1:
            e = const(0, ty)
        elif name in ("shr", "shl") and b.is_const() and b.cval() == 0:
            e = a if a.ty == ty else E("cast", (a,), ty)
        else:
            e = binop(name, a, b, ty)
        if name == "div" and not e.is_const():
            # floor division: a - b*(a/b) >= 0
            self.env.add_fact_poly(sym.p_add(self.env.poly(a), sym.p_mul(self.env.poly(b), self.env.poly(e)), -1))
        if name in ("add", "mul", "sub", "shl") and self.mode in ("parse", "getter") and ty in sym.TYMAX and not e.is_const():
            lo, hi = self.env.interval(e)
            if name == "sub":
                ok = self.env.prove_ge(a, b) or lo >= 0
                if not ok and not ty.startswith("i"):
                    self.obl("overflow", False, f"`{a.key()} - {b.key()}` may wrap below zero in {ty}",
                             role=f"sub|{self.describe(a)}|{self.describe(b)}")
            elif hi > sym.TYMAX[ty]:
                kind = "signed overflow (undefined behaviour)" if ty.startswith("i") else f"wraps in {ty}"
                self.obl("overflow", False, f"`{e.key()}` {kind}: range up to {hi}",
                         role=f"{name}|{self.describe(a)}|{self.describe(b)}")
        if name == "shl" and b.is_const() and ty in sym.TYBITS and b.cval() >= sym.TYBITS[ty]:
            self.obl("shift", False, f"shift by {b.cval()} in a {sym.TYBITS[ty]}-bit type is undefined", role="shift-count")
        return e

    def describe(self, e):
        """stable description of a value for keys: which member / role it comes from"""
        k = e.key()
        r = self.roles.get(k)
        if r:
            return r[0]
        for nm, v in self.var.items():
            if isinstance(v, E) and v.key() == k:
                m = re.search(r"(count|element_size|size)_?$", nm)
                return m.group(1) if m else "var"
        if e.is_const():
            return "const"
        if e.op == "cast":
            return self.describe(e.args[0])
        return e.op

    def e_CompoundAssignOperator(self, n):
        op = n["opcode"][:-1]
        r = self.expr(n["inner"][0])
        b = self.expr(n["inner"][1])
        b = b.get() if isinstance(b, Ref) else b
        if isinstance(r, Ref):
            a = r.get()
            ea, eb = self.as_int(a), self.as_int(b)
            if ea is not None and eb is not None:
                v = self.arith(op, ea, eb, ea.ty)
                r.set(v)
                return v
        self.obl("unmodelled", False, f"compound assignment {op}=")
        return Opaque("cassign")

    def assign(self, lhs_n, rhs_n, n):
        lhs = self.expr(lhs_n)
        rhs = self.expr(rhs_n)
        rhs = rhs.get() if isinstance(rhs, Ref) else rhs
        if not isinstance(lhs, Ref):
            if isinstance(lhs, Opaque) and lhs.what == "vec-elem":
                if self.loop is not None:
                    self.loop["elem_value"] = rhs
                return rhs
            self.obl("unmodelled", False, "assignment to a non-lvalue")
            return rhs
        if isinstance(rhs, SliceV):
            rhs = rhs.copy()
            rhs.label = lhs.name
        ty = self.ity(lhs_n.get("dtype") or lhs_n.get("type"))
        if isinstance(rhs, E) and ty and rhs.ty != ty:
            rhs = self.convert(rhs, ty, f"assignment to {lhs.name}")
        lhs.set(rhs)
        if lhs.kind == "member":
            self.bind_member(lhs.name, rhs)
        elif isinstance(rhs, E):
            self.var[lhs.name] = rhs
            self.use(lhs.name, rhs, field=False)
        return rhs

    def is_field(self, fname):
        c = self.cls
        if c is None:
            return True
        fs = getattr(c, "_field_names", None)
        if fs is None:
            fs = set()
            for m in c.methods:
                if m.startswith("Get") and len(m) > 3:
                    fs.add(m[3:].lower())
            for ct in c.ctors:
                for p_ in params_of(ct):
                    if p_.get("name"):
                        fs.add(p_["name"].replace("_", "").lower())
            c._field_names = fs
        return fname.replace("_", "").lower() in fs

    def bind_member(self, name, v):
        """a member of the view / struct receives a parsed value"""
        fname = name[:-1] if name.endswith("_") else name
        if isinstance(v, (E, EnumV)) and not self.is_field(fname):
            e = v.e if isinstance(v, EnumV) else v
            self.var[fname] = e
            self.use(fname, e, field=False)
            return
        if isinstance(v, EnumV):
            self.var[fname] = v.e
            self.use(fname, v.e, field=True, enum=v.ty)
        elif isinstance(v, E):
            self.var[fname] = v
            self.use(fname, v, field=True)
        elif isinstance(v, SliceV):
            self.slice_member(fname, v)

    # ------------------------------------------------------------------ calls
    def e_CXXOperatorCallExpr(self, n):
        inner = n["inner"]
        callee = self.strip(inner[0])
        opname = (callee.get("ref") or {}).get("name", "")
        args = inner[1:]
        if opname == "operator=":
            return self.assign(args[0], args[1], n)
        if opname == "operator[]":
            base = self.expr(args[0])
            base = base.get() if isinstance(base, Ref) else base
            idx = self.expr(args[1])
            idx = idx.get() if isinstance(idx, Ref) else idx
            if isinstance(base, VecV) and isinstance(idx, E):
                ok = self.env.prove_ge(base.size, binop("add", idx, const(1, "u64"), "u64")) if not base.size.is_const() or \
                    base.size.cval() > 0 else False
                if base.size.is_const() and idx.is_const():
                    ok = idx.cval() < base.size.cval()
                if not ok and self.loop is not None and self.loop.get("ivar") and isinstance(self.loop.get("count"), E):
                    # index is the loop variable: i < count and count <= size ?
                    ok = self.env.prove_ge(base.size, self.loop["count"]) and idx.key() == self.vars.get(self.loop["ivar"], idx).key()
                kind = "array" if base.static_n is not None else "vector"
                self.obl("index", ok, f"{base.name}[{idx.key()}] on a {kind} of size {base.size.key()}: out of bounds "
                         f"(undefined behaviour)", role=f"{kind}-index")
                if self.loop is not None:
                    self.loop["pushes"].append(base.name)
                return Opaque("vec-elem") if self.mode == "parse" else (base.elem if base.elem is not None else Opaque("vec-elem"))
            self.obl("unmodelled", False, "operator[] on an unmodelled value")
            return Opaque("index")
        if opname in ("operator*", "operator->"):
            base = self.expr(args[0])
            base = base.get() if isinstance(base, Ref) else base
            if isinstance(base, OptV):
                return self.opt_value(base)
            return base
        if opname in ("operator==", "operator!="):
            return Opaque("cmp")
        if opname in ("operator+", "operator-", "operator<<"):
            for a in args:
                self.expr(a)
            return Opaque("op")
        if opname == "operator()":
            return Opaque("call")
        self.obl("unmodelled", False, f"{opname}")
        return Opaque(opname)

    def e_CXXConstructExpr(self, n):
        args = n.get("inner") or []
        t = strip_cv(n.get("dtype") or n.get("type"))
        if "iterator" in t and len(args) == 1:
            v = self.expr(args[0])
            return v.get() if isinstance(v, Ref) else v
        if "slice" in t:
            if len(args) == 1:
                v = self.expr(args[0])
                v = v.get() if isinstance(v, Ref) else v
                if isinstance(v, SliceV):
                    return v.copy()
            if not args:
                return SliceV(const(0, "u64"), None)
            return SliceV(self.fresh("len", "u64"), None)
        m = re.search(r"array<(.*), *(\d+)>", t)
        if m and not args:
            return VecV("tmp", const(int(m.group(2)), "u64"), static_n=int(m.group(2)))
        if "vector" in t or "array<" in t:
            if len(args) == 1:
                v = self.expr(args[0])
                v = v.get() if isinstance(v, Ref) else v
                if isinstance(v, VecV):
                    return v
            if not args:
                return VecV("tmp", const(0, "u64"))
            for a in args:
                self.expr(a)
            return VecV("tmp", self.fresh("veclen", "u64"))
        b = t.split("::")[-1]
        if b in self.mod.classes:
            if len(args) == 1:
                v = self.expr(args[0])
                v = v.get() if isinstance(v, Ref) else v
                if isinstance(v, ObjV):
                    return v
            return ObjV(b, {}, "tmp")
        if "optional" in t:
            if len(args) == 1:
                v = self.expr(args[0])
                return v.get() if isinstance(v, Ref) else v
            return OptV("tmp")
        vals = []
        for a in args:
            v = self.expr(a)
            vals.append(v.get() if isinstance(v, Ref) else v)
        if len(vals) == 1 and isinstance(vals[0], tuple) and vals[0] and vals[0][0] == "iter":
            return vals[0]
        return Opaque("construct")

    e_CXXTemporaryObjectExpr = e_CXXConstructExpr

    def e_InitListExpr(self, n):
        for a in n.get("inner") or []:
            self.expr(a)
        return Opaque("initlist")

    def e_LambdaExpr(self, n):
        return ("lambda", n)

    def e_CallExpr(self, n):
        inner = n["inner"]
        callee = self.strip(inner[0])
        args = inner[1:]
        r = callee.get("ref") or {}
        name = r.get("name")
        if name in ("move", "forward"):
            v = self.expr(args[0])
            return v.get() if isinstance(v, Ref) else v
        if name == "__assert_fail":
            self.obl("assert", False, "unconditional assertion failure")
            raise Abort()
        if name == "Parse" and r.get("kind") == "CXXMethodDecl":
            return self.call_struct_parse(r, args)
        if name and name.startswith("IsValid") and name[7:] in self.mod.enums:
            v = self.expr(args[0])
            v = v.get() if isinstance(v, Ref) else v
            e = self.as_int(v)
            if e is not None:
                self.use("raw_value", e, field=False, valid=name[7:])
            return Cond("opaque", sym.sym(f"{name}({e.key() if e is not None else '?'})", "bool"))
        if name in ("write_le", "write_be"):
            return self.call_write(r, args)
        if name == "accumulate":
            return self.call_accumulate(args)
        if name in ("max", "min") and len(args) == 2:
            a, b = [self.expr(x) for x in args]
            a = a.get() if isinstance(a, Ref) else a
            b = b.get() if isinstance(b, Ref) else b
            ea, eb = self.as_int(a), self.as_int(b)
            if ea is not None and eb is not None:
                if ea.is_const() and eb.is_const():
                    return const(max(ea.cval(), eb.cval()) if name == "max" else min(ea.cval(), eb.cval()), ea.ty or eb.ty)
                if name == "max" and self.mode in ("serialize", "size") and (ea.is_const() != eb.is_const()):
                    # max(bytes of a padded array, padded size): in-range builder arguments fit the padding
                    self.__dict__.setdefault("assumed", []).append("padded arrays fit their declared padding")
                    return ea if ea.is_const() else eb
                c = Cond("ge", ea, eb)
                return sym.ite(c, ea, eb, ea.ty) if name == "max" else sym.ite(c, eb, ea, ea.ty)
        if name in ("to_string",):
            for a in args:
                self.expr(a)
            return Opaque("string")
        if name in self.mod.functions and name.endswith("Text"):
            return Opaque("string")
        self.obl("unmodelled", False, f"call of {name}")
        return Opaque(name or "call")

    def e_CXXMemberCallExpr(self, n):
        inner = n["inner"]
        callee = inner[0]
        args = inner[1:]
        me = self.strip(callee)
        if me.get("kind") != "MemberExpr":
            self.obl("unmodelled", False, "member call through a non-member callee")
            return Opaque("mcall")
        name = me.get("name")
        base_n = me["inner"][0]
        base = self.expr(base_n)
        base = base.get() if isinstance(base, Ref) else base
        av = []
        for a in args:
            v = self.expr(a)
            av.append(v.get() if isinstance(v, Ref) else v)
        if isinstance(base, SliceV):
            return self.slice_call(base, name, av, me, n)
        if isinstance(base, VecV):
            return self.vec_call(base, name, av, n)
        if isinstance(base, OptV):
            if name == "has_value":
                nm = base.name if base.name.startswith("self.") else f"self.{base.name.rstrip('_')}"
                return Cond("opaque", sym.sym(f"is_some({nm})", "bool"))
            if name in ("value",):
                return self.opt_value(base)
            if name == "emplace":
                base.inner = ObjV("?", {}, base.name)
                return base.inner
            if name in ("reset",):
                return Opaque("reset")
        if isinstance(base, ObjV):
            return self.obj_call(base, name, av, n, me)
        if isinstance(base, Opaque) and name in ("size", "begin", "end", "cbegin", "cend", "data", "str", "c_str"):
            return Opaque(name)
        self.obl("unmodelled", False, f"method {name} on {type(base).__name__}")
        return Opaque(name)

    # ---- slices
    def slice_call(self, s, name, av, me, n):
        if name == "size":
            return s.rem
        if name in ("read_le", "read_be"):
            sp = self.mod.spec.get(me.get("memid"))
            if not sp:
                self.obl("unmodelled", False, f"{name} specialisation not found")
                return Opaque(name)
            tname, nbytes = sp[1][0], int(sp[1][1])
            ty = self.ity(tname)
            self.need(s, const(nbytes, "u64"), f"{name}<{tname}, {nbytes}>()", "read")
            order = None if nbytes == 1 else ("little" if name == "read_le" else "big")
            v = self.read(s, nbytes, order, ty)
            s.rem = binop("sub", s.rem, const(nbytes, "u64"), "u64")
            return v
        if name == "skip":
            nb = self.as_int(av[0])
            if nb is None:
                self.obl("unmodelled", False, "skip of a non-integer")
                return Opaque("skip")
            self.need(s, nb, f"skip({nb.key()})", "skip")
            self.skipped(s, nb)
            s.rem = binop("sub", s.rem, nb, "u64")
            return Opaque("void")
        if name == "subrange":
            off, ln = self.as_int(av[0]), self.as_int(av[1])
            if off is None or ln is None:
                self.obl("unmodelled", False, "subrange of non-integers")
                return SliceV(self.fresh("len", "u64"), None)
            tot = binop("add", off, ln, "u64")
            self.need(s, tot, f"subrange({off.key()}, {ln.key()})", "subrange")
            r = SliceV(ln, "sub")
            self.__dict__.setdefault("local_subs", []).append((s, ln))
            r.parent = s
            r.off = off
            r.len_expr = ln
            r.parent_rem = s.rem
            return r
        if name == "clear":
            self.cleared(s)
            s.rem = const(0, "u64")
            return Opaque("void")
        if name == "bytes":
            return VecV("bytes", s.rem)
        if name == "at":
            i = self.as_int(av[0])
            ok = i is not None and self.env.prove_ge(s.rem, binop("add", i, const(1, "u64"), "u64"))
            self.obl("bounds", ok, f"at({i.key() if i is not None else '?'}) beyond the slice (vector::at throws)", role="at")
            return self.fresh("byte", "u8")
        self.obl("unmodelled", False, f"slice method {name}")
        return Opaque(name)

    def need(self, s, nbytes, what, role):
        ok = self.env.prove_ge(s.rem, nbytes)
        self.obl("bounds", ok, f"{what} needs {nbytes.key()} byte(s); the slice is only known to hold {s.rem.key()} "
                 f"(assert / out-of-range access otherwise)", role=role + ("|loop" if self.loop is not None else ""))
        if not ok:
            # continue as if it held
            self.env.assume(Cond("ge", s.rem, nbytes))

    # ---- vectors
    def vec_call(self, v, name, av, n):
        if name == "size":
            return v.size
        if name in ("push_back", "emplace_back"):
            if self.loop is not None:
                self.loop["pushes"].append(v.name)
                if av:
                    self.loop["elem_value"] = av[0]
            else:
                v.size = binop("add", v.size, const(1, "u64"), "u64")
            return Opaque("void")
        if name in ("begin", "end", "cbegin", "cend"):
            return ("iter", v, name)
        if name == "empty":
            return Cond("eq", v.size, const(0, "u64"))
        if name == "insert":
            # output.insert(output.end(), x.begin(), x.end())
            its = [a for a in av if isinstance(a, tuple) and a and a[0] == "iter"]
            if len(its) >= 3 and its[1][1] is its[2][1]:
                src = its[1][1]
                self.emit_bytes(src)
                return Opaque("void")
            self.obl("unmodelled", False, "vector insert form")
            return Opaque("void")
        if name == "resize":
            self.emit_resize(v, av)
            return Opaque("void")
        if name == "reserve":
            return Opaque("void")
        if name == "at":
            i = self.as_int(av[0])
            ok = i is not None and self.env.prove_ge(v.size, binop("add", i, const(1, "u64"), "u64"))
            self.obl("index", ok, f"{v.name}.at({i.key() if i is not None else '?'}) may throw std::out_of_range", role="vector-at")
            return v.elem if v.elem is not None else Opaque("elem")
        if name in ("data", "clear", "back", "front"):
            return Opaque(name)
        self.obl("unmodelled", False, f"vector method {name}")
        return Opaque(name)

    # hooks overridden by modes ------------------------------------------------
    def read(self, s, nbytes, order, ty):
        return self.fresh("rd", ty)

    def skipped(self, s, nb):
        pass

    def cleared(self, s):
        pass

    def slice_member(self, fname, v):
        pass

    def use(self, name, e, field=False, kind="var", **kw):
        pass

    def parse_loop_done(self, lp, spans):
        pass

    def ser_loop_done(self, lp):
        pass

    def call_struct_parse(self, r, args):
        return Opaque("parse")

    def call_write(self, r, args):
        return Opaque("write")

    def call_accumulate(self, args):
        return Opaque("acc")

    def emit_bytes(self, src):
        pass

    def emit_resize(self, v, av):
        pass

    def obj_call(self, base, name, av, n, me):
        if name in ("IsValid",):
            return Cond("opaque", sym.sym(f"{base.name}.IsValid()", "bool"))
        if name == "GetSize":
            return sym.sym(f"size({base.name})", "u64", 0, 2 ** 48)
        if name == "Serialize":
            self.emit_nested(base)
            return Opaque("void")
        if name in ("bytes",):
            return Opaque("bytes")
        self.obl("unmodelled", False, f"method {name} on object {base.ty}")
        return Opaque(name)

    def emit_nested(self, base):
        pass

    def finish(self):
        pass


# ====================================================================================== parser side
class ParseEval(Eval):
    """View::Parse / struct Parse / array getter."""

    def __init__(self, mod, cls, fn, mode="parse", mins=None, member_len=None, getters=None):
        super().__init__(mod, cls, fn, mode, mins)
        self.member_len = member_len or {}     # getter: slice member -> length invariant over member symbols
        self.getters = getters or {}           # parse: field name -> getter summary
        self.getter = None
        self.pending_array = None
        self.undecided = []

    # ---- reads
    def carried(self, s):
        return self.loop is not None and any(v is s for v in self.loop_spans().values())

    def loop_spans(self):
        return {k: v for k, v in list(self.vars.items()) + list(self.members.items()) if isinstance(v, SliceV)}

    def need(self, s, nbytes, what, role):
        if self.loop is not None and s.rem.key().startswith("len#") is False and False:
            pass
        ok = self.env.prove_ge(s.rem, nbytes)
        if not ok and self.loop is not None:
            self.loop.setdefault("needs", []).append((s, s.rem, nbytes, what, role, self.line))
            self.env.assume(Cond("ge", s.rem, nbytes))
            return
        self.obl("bounds", ok, f"{what} needs {nbytes.key()} byte(s); the slice is only known to hold {s.rem.key()} "
                 f"(assert / out-of-range access otherwise)", role=role)
        if not ok:
            self.env.assume(Cond("ge", s.rem, nbytes))

    def read(self, s, nbytes, order, ty):
        if self.loop is not None:
            self.loop["reads"].append((nbytes, order, ty))
            return self.fresh("elem", ty)
        sm = self.fresh("rd", ty, (1 << (8 * nbytes)) - 1)
        it = {"k": "chunk", "n": nbytes, "order": order, "sym": sm, "line": self.line, "uses": []}
        self.chunks[sm.key()] = it
        self.items.append(it)
        return sm

    def skipped(self, s, nb):
        if self.loop is not None:
            return
        if nb.is_const():
            if getattr(self, "just_sliced", None) is not None and self.just_sliced[0] is s:
                self.just_sliced = None
                return
            self.items.append({"k": "chunk", "n": nb.cval(), "order": None, "sym": None, "line": self.line, "uses": [],
                               "skipped": True})
            return
        js = getattr(self, "just_sliced", None)
        if js is not None and js[0] is s and js[1] is not None and js[1].key() == nb.key():
            self.just_sliced = None
            return
        if any(ps is s and ln.key() == nb.key() for ps, ln in getattr(self, "local_subs", [])):
            return
        for nm, v in self.vars.items():
            if isinstance(v, SliceV) and getattr(v, "parent", None) is s and v.rem.key() == nb.key() and \
                    getattr(v, "len_expr", None) is not None and v.len_expr.key() != nb.key():
                self.obl("advance", False, f"after parsing a field from the sub-slice `{nm}`, span.skip({nm}.size()) advances "
                         f"by what is LEFT of `{nm}` (the field parser already moved it), not by what was consumed: the next "
                         f"field is read from the wrong offset", role="subspan-remainder")
                return
        # padding: skip(P - (start - size))
        if nb.op == "sub" and nb.args[0].is_const():
            for it in reversed(self.items):
                if it["k"] == "array":
                    it["pad"] = nb.args[0].cval()
                    return
        self.obl("unmodelled", False, f"skip({nb.key()}) not tied to a field", role="skip-form")

    def cleared(self, s):
        js = getattr(self, "just_sliced", None)
        if js is not None and js[0] is s:
            self.just_sliced = None

    def use(self, name, e, field=False, kind="var", **kw):
        if not isinstance(e, E):
            return
        bits = sym._bits_of(e, self.env, 64, structural=True)
        for j, b in enumerate(bits):
            if isinstance(b, tuple) and len(b) == 2 and isinstance(b[0], str) and b[0] in self.chunks:
                self.chunks[b[0]]["uses"].append({"name": name, "kind": kind, "j": j, "i": b[1], "e": e, "field": field, **kw})

    def role(self, e, r):
        e = self.uncast(e)
        if r[0] == "size" and e.op == "sub" and e.args[1].is_const() and r[2] == 0:
            self.roles[self.uncast(e.args[0]).key()] = (r[0], r[1], e.args[1].cval())
            return
        if r[0] == "size" and e.op == "add" and e.args[1].is_const() and r[2] == 0:
            self.roles[self.uncast(e.args[0]).key()] = (r[0], r[1], -e.args[1].cval())
            return
        self.roles[e.key()] = r

    def uncast(self, e):
        while isinstance(e, E) and e.op == "cast":
            e = e.args[0]
        return e

    # ---- slice members: arrays and payload
    def slice_member(self, fname, v):
        if self.mode != "parse":
            return
        if fname == "bytes":
            return
        src = getattr(v, "src", None)
        base = src if src is not None else v
        if getattr(base, "from_parent", False):
            return          # a field copied from the parent view
        parent = getattr(base, "parent", None)
        if fname in ("payload",):
            if parent is not None:
                L = base.len_expr
                shape = self.payload_shape(L, base.parent_rem)
                self.just_sliced = (parent, L)
            else:
                shape = {"k": "rest", "tail": 0}
                self.just_sliced = (base, None)
            self.items.append({"k": "payload", "shape": shape, "line": self.line})
            return
        # x_ = x_.subrange(0, x_.size() - span.size())  after an element loop
        for it in self.items:
            if it["k"] == "array" and it["name"] == fname and it.get("open"):
                it["open"] = False
                return
        if parent is not None:
            it = {"k": "array", "name": fname, "L": base.len_expr, "pre_rem": base.parent_rem, "pad": None, "line": self.line,
                  "elem": None, "shape": None}
            self.just_sliced = (parent, base.len_expr)
        else:
            it = {"k": "array", "name": fname, "L": None, "pre_rem": base.rem, "pad": None, "line": self.line, "elem": None,
                  "shape": None, "open": True}
            self.just_sliced = (base, None)
            self.open_array = it
        self.items.append(it)

    def payload_shape(self, L, pre_rem):
        Lu = self.uncast(L)
        if Lu.op == "sub" and Lu.args[0].key() == pre_rem.key() and Lu.args[1].is_const():
            return {"k": "rest", "tail": Lu.args[1].cval()}
        self.role(L, ("size", "_payload_", 0))
        r = self.roles.get(self.uncast(L).key()) or next((r for k, r in self.roles.items() if r[1] == "_payload_"), None)
        return {"k": "size", "mod": r[2] if r else 0, "v": L}

    # ---- nested struct parse
    def call_struct_parse(self, r, args):
        span = self.expr(args[0])
        span = span.get() if isinstance(span, Ref) else span
        out_n = self.strip(args[1])
        out = self.expr(args[1])
        ty = (r.get("type") or "")
        m = re.search(r"(\w+) \*\)$", ty)
        tname = m.group(1) if m else "?"
        target = None
        if out_n.get("kind") == "UnaryOperator" and out_n.get("opcode") == "&":
            t = self.strip(out_n["inner"][0])
            if t.get("kind") == "MemberExpr":
                target = t.get("name")
            elif t.get("kind") == "DeclRefExpr":
                target = t["ref"]["name"]
                v = self.vars.get(target)
                if isinstance(v, ObjV) and v.name and v.name.endswith("_"):
                    target = v.name
        if not isinstance(span, SliceV):
            self.obl("unmodelled", False, "struct Parse on a non-slice")
            return Cond("opaque", sym.sym(f"parse@{self.line}", "bool"))
        mn = self.mins.get(tname, 0) or 0
        new = self.fresh("len", "u64")
        self.env.add_fact_poly(sym.p_add(sym.p_add(self.env.poly(span.rem), self.env.poly(new), -1), sym.p_const(-mn)))
        self.env.add_fact_ge(span.rem, new)
        old = span.rem
        span.rem = new
        if self.loop is not None:
            self.loop["nested"].append((tname, span, target))
        elif self.mode == "parse":
            fname = target[:-1] if target and target.endswith("_") else target
            self.items.append({"k": "typedef", "name": fname, "type": tname, "tk": "struct", "line": self.line,
                               "span": getattr(span, "label", None)})
        return Cond("opaque", sym.sym(f"parse_ok({tname})@{self.line}#{self.nsym}", "bool"))

    # ---- loops
    def parse_loop_done(self, lp, spans):
        line = lp["line"]
        # which slice does the loop consume
        consumed = {k: d for k, d in lp["consumed"].items() if d}
        cnt = lp["count"]
        c = lp["cond"]
        # the iteration count implied by a while condition
        rem_guard = None
        vec_bound = None
        if c is not None:
            for a in (c.args if c.op == "and" else (c,)):
                if a.op in ("gt", "ge") and isinstance(a.args[0], E) and a.args[0].key() in [h.key() for h in lp["heads"].values()]:
                    rem_guard = a
                if a.op == "lt" and isinstance(a.args[0], E) and isinstance(a.args[1], E):
                    vec_bound = a.args[1]
        per_iter = None
        carried = None
        for k, d in consumed.items():
            carried = k
            per_iter = d
        # termination of rest-loops: each iteration must consume at least one byte
        if cnt is None and vec_bound is None:
            ok = False
            if per_iter is not None:
                ok = self.env.prove_nonneg(sym.p_add(per_iter, sym.p_const(-1)))
                if not ok and lp["nested"]:
                    ok = all((self.mins.get(t, 0) or 0) >= 1 for t, _, _ in lp["nested"])
            if not ok and any(self.mins.get(t, 0) is None for t, _, _ in lp["nested"]):
                self.undecided.append("progress of a loop over elements whose parser could not be evaluated")
                ok = True
            zs = [t for t, _, _ in lp["nested"] if (self.mins.get(t, 0) or 0) < 1]
            Kp = self.poly_to_expr(per_iter) if per_iter else None
            if not ok and Kp is not None and not Kp.is_const() and "element_size" in Kp.key():
                self.obl("progress", False, f"the loop advances by the element size {Kp.key()}, which may be zero: it never "
                         f"terminates", role="zero-element-size")
                ok = True
            self.obl("progress", ok, "a `while (span.size() > 0)` loop may not consume input"
                     + (f" (elements of type {zs[0]} can be empty)" if zs else ""), role="zero-sized-element" if zs else "loop")
        bound = cnt if cnt is not None else vec_bound
        # pending bounds needs inside the loop
        for (s, rem, nbytes, what, role, ln) in lp.get("needs", []):
            ok = False
            why = ""
            key = next((k for k, v in spans.items() if v is s), None)
            pre = lp["pre"].get(key) if key else None
            if pre is not None and bound is not None and per_iter is not None:
                # invariant: head = pre - i*K, i < bound; need K' <= head for the last iteration: pre >= bound*K
                K = self.poly_to_expr(per_iter)
                if K is not None and self.same_or_le(nbytes, K):
                    tot = binop("mul", bound, K, "u64")
                    ok = self.env.prove_ge(pre, tot) or self.poly_eq(pre, tot)
                    why = f"loop invariant: {pre.key()} >= {bound.key()} * {K.key()}"
            if not ok and pre is not None and bound is not None:
                # subrange(i*K, K) on a slice that is not consumed in the loop
                nb = self.uncast(nbytes)
                iv = self.vars.get(lp["ivar"]) if lp.get("ivar") else None
                if nb.op == "add" and iv is not None:
                    a, b = nb.args
                    au = self.uncast(a)
                    if au.op == "mul" and any(self.uncast(x).key() == iv.key() for x in au.args):
                        Kx = [x for x in au.args if self.uncast(x).key() != iv.key()]
                        if Kx and self.uncast(Kx[0]).key() == self.uncast(b).key():
                            tot = binop("mul", bound, Kx[0], "u64")
                            ok = self.env.prove_ge(pre, tot) or self.poly_eq(pre, tot)
            if not ok and getattr(self, "mode", "") == "getter" and pre is None:
                pass
            self.line = ln
            if not ok and self.mode == "getter" and lp.get("cond") is not None and per_iter is not None and \
                    self.poly_eq(nbytes, self.poly_to_expr(per_iter) or const(-1)):
                # `while (span.size() > 0) { take K; }`: sound iff the view invariant makes the length a multiple of K
                # (Parse's `% K` rejection); that cross-function divisibility fact is not derived here
                self.undecided.append(f"{what} in a getter loop relies on the length being a multiple of {nbytes.key()}")
                continue
            self.obl("bounds", ok, f"{what} inside a loop needs {nbytes.key()} byte(s) per iteration; not covered by the "
                     f"check before the loop", role=role + "|loop")
        # layout
        if self.mode == "getter":
            self.getter_summary(lp, vec_bound, rem_guard, per_iter)
            return
        self.array_from_loop(lp, bound, rem_guard, per_iter, carried, spans)

    def poly_to_expr(self, p):
        """constant or single-atom polynomial -> E"""
        if not p:
            return const(0, "u64")
        if len(p) == 1:
            (mono, c), = p.items()
            if c.denominator != 1:
                return None
            if mono == ():
                return const(int(c), "u64")
            e = None
            for a in mono:
                at = self.env.atoms.get(a)
                if at is None:
                    return None
                e = at if e is None else binop("mul", e, at, "u64")
            if c != 1:
                e = binop("mul", const(int(c), "u64"), e, "u64")
            return e
        return None

    def same_or_le(self, a, b):
        return self.poly_eq(a, b) or self.env.prove_ge(b, a)

    def poly_eq(self, a, b):
        d = sym.p_add(self.env.poly(a), self.env.poly(b), -1)
        return not {k: v for k, v in d.items() if v != 0}

    def elem_from_loop(self, lp):
        if lp["nested"]:
            return {"k": "struct", "type": lp["nested"][0][0]}
        if lp["reads"]:
            nbytes, order, ty = lp["reads"][0]
            ev = lp.get("elem_value")
            el = {"k": "scalar", "w": nbytes * 8, "order": order}
            if isinstance(ev, EnumV):
                el = {"k": "enum", "w": nbytes * 8, "order": order, "type": ev.ty}
            return el
        return None

    def getter_summary(self, lp, vec_bound, rem_guard, per_iter):
        el = self.elem_from_loop(lp)
        g = {"elem": el, "count": vec_bound if vec_bound is not None else lp["count"], "guard": rem_guard, "per_iter": per_iter, "line": lp["line"],
             "elemsize": None}
        # element_span = span.subrange(0, ES): the per-iteration consumption is the element size member
        K = self.poly_to_expr(per_iter) if per_iter else None
        if K is not None and not K.is_const() and lp["nested"]:
            g["elemsize"] = K
        self.getter = g

    def array_from_loop(self, lp, bound, rem_guard, per_iter, carried, spans):
        """struct Parse: an element loop is an array; View::Parse: an element loop after `x_ = span`"""
        el = self.elem_from_loop(lp)
        name = None
        for p in lp["pushes"]:
            name = p[:-1] if p.endswith("_") else p
        it = None
        if name is None and getattr(self, "open_array", None) is not None:
            it = self.open_array
            name = it["name"]
        if name is None:
            self.obl("unmodelled", False, "element loop that fills no field", role="loop-form")
            return
        K = self.poly_to_expr(per_iter) if per_iter else None
        if bound is not None:
            if bound.is_const():
                shape = {"k": "static", "n": bound.cval()}
            else:
                pre_c = lp["pre"].get(carried)
                if pre_c is None:
                    # the loop indexes into the slice (subrange(n * es, es)) instead of consuming it
                    bu = self.uncast(bound)
                    for pv in lp["pre"].values():
                        if bu.op == "div" and self.uncast(bu.args[0]).key() == self.uncast(pv).key():
                            pre_c = pv
                shape = self.classify_count(bound, name, pre_c,
                                            K.cval() if K is not None and K.is_const() else None)
        else:
            shape = {"k": "rest", "elem_bytes": K.cval() if K is not None and K.is_const() else None}
            sl = spans.get(carried) if carried else None
            src = getattr(sl, "src", None) or sl
            if src is not None and getattr(src, "len_expr", None) is not None and getattr(src, "parent", None) is not None:
                # elements parsed until a sub-slice delimited by a size is exhausted
                self.role(src.len_expr, ("size", name, 0))
                shape = {"k": "size", "f": name, "v": src.len_expr, "elem_bytes": shape["elem_bytes"]}
        if it is None:
            it = {"k": "array", "name": name, "pad": None, "line": lp["line"]}
            self.items.append(it)
        it["elem"] = el
        it["shape"] = shape
        if shape.get("elemsize"):
            it["elemsize"] = True
        if K is not None and not K.is_const() and lp["nested"] is not None and el and el["k"] == "struct" and per_iter:
            # chunks of a dynamic element size
            self.role(K, ("elemsize", name, 0))
            it["elemsize"] = True

    def classify_count(self, cnt, name, pre_rem, elem_bytes=None):
        cu = self.uncast(cnt)
        if pre_rem is not None and cu.key() == self.uncast(pre_rem).key():
            return {"k": "rest", "elem_bytes": 1}
        if cu.op == "div" and self.uncast(cu.args[1]).is_const():
            v = cu.args[0]
            eb = self.uncast(cu.args[1]).cval()
            if pre_rem is not None and self.uncast(v).key() == pre_rem.key():
                return {"k": "rest", "elem_bytes": eb}
            self.role(v, ("size", name, 0))
            return {"k": "size", "f": name, "elem_bytes": eb, "v": v}
        if cu.op == "div":
            v, es = cu.args
            if pre_rem is not None and self.uncast(v).key() == self.uncast(pre_rem).key():
                self.role(es, ("elemsize", name, 0))
                return {"k": "rest", "elem_bytes": None, "elemsize": True}
            self.role(v, ("size", name, 0))
            self.role(es, ("elemsize", name, 0))
            return {"k": "size", "f": name, "elem_bytes": None, "v": v}
        self.role(cnt, ("count|size1" if elem_bytes == 1 else "count", name, 0))
        return {"k": "count", "f": name, "v": cnt}

    # ---- finish: resolve arrays of views through their getters, optionals, chunk bits
    def finish(self):
        if self.mode == "getter":
            return
        out = []
        for it in self.items:
            if it["k"] == "array" and it.get("shape") is None:
                self.resolve_view_array(it)
            if it["k"] in ("cond", "cond2"):
                out += self.resolve_cond(it)
            else:
                out.append(it)
        self.items = out
        for it in self.items:
            self.chunk_bits(it)
            if it["k"] == "optional" and it.get("chunk"):
                self.chunk_bits(it["chunk"])

    def chunk_bits(self, it):
        if it["k"] != "chunk":
            return
        bits = [("ignored",)] * (it["n"] * 8)
        for u in it["uses"]:
            i = u["i"]
            if i >= len(bits):
                continue
            e = u["e"]
            role = self.roles.get(self.uncast(e).key())
            if u["kind"] == "fixed":
                v = u.get("value")
                d = ("fixed", (v >> u["j"]) & 1 if v is not None else None)
            elif role is not None:
                d = role + (u["j"],)
            elif u.get("field"):
                d = ("f", u["name"], u["j"])
            elif self.uncast(e).key() in self.chunks:
                continue        # the whole group bound to a local (`chunk0`): not a use of its bits
            else:
                d = ("var", u["name"], u["j"])
            cur = bits[i]
            if cur == ("ignored",) or cur[0] == "var" or (cur[0] == "f" and d[0] not in ("var", "f")):
                bits[i] = d
        it["bits"] = bits

    def resolve_view_array(self, it):
        name = it["name"]
        g = self.getters.get(name)
        el = g["elem"] if g else None
        it["elem"] = el or {"k": "unknown"}
        eb = el["w"] // 8 if el and el.get("k") in ("scalar", "enum") else None
        L = it.get("L")
        if L is None:
            it["shape"] = {"k": "rest", "elem_bytes": eb}
            self.getter_elemsize(it, g)
            return
        Lu = self.uncast(L)
        if Lu.is_const():
            n = Lu.cval()
            if eb:
                it["shape"] = {"k": "static", "n": n // eb}
            else:
                cnt = g.get("count") if g else None
                it["shape"] = {"k": "static", "n": cnt.cval() if isinstance(cnt, E) and cnt.is_const() else None, "bytes": n}
            return
        if Lu.op == "mul":
            a, b = Lu.args
            au, bu = self.uncast(a), self.uncast(b)
            if au.is_const() or bu.is_const():
                c_, v = (au, b) if au.is_const() else (bu, a)
                if g and g.get("elemsize") is not None and not (el and el["k"] != "struct"):
                    # element size * static count
                    self.role(v, ("elemsize", name, 0))
                    it["shape"] = {"k": "static", "n": c_.cval()}
                    it["elemsize"] = True
                    return
                self.role(v, ("count", name, 0))
                it["shape"] = {"k": "count", "f": name, "v": v, "elem_bytes": c_.cval()}
                return
            # element size * count: the getter says which member is which
            es_m = g.get("elemsize") if g else None
            ms = {k: v for k, v in self.members.items() if isinstance(v, E)}
            def member_of(x):
                xs = self.uncast(x).key()
                return next((k for k, v in ms.items() if self.uncast(v).key() == xs), None)
            ma, mb = member_of(a), member_of(b)
            es_name = es_m.key().replace("self.", "") if isinstance(es_m, E) else None
            if es_name is not None and ma == es_name:
                es, cn = a, b
            elif es_name is not None and mb == es_name:
                es, cn = b, a
            else:
                es, cn = a, b
                self.undecided.append(f"array {name}: element-size / count operands not told apart by the getter")
            self.role(es, ("elemsize", name, 0))
            self.role(cn, ("count", name, 0))
            it["shape"] = {"k": "count", "f": name, "v": cn}
            it["elemsize"] = True
            return
        gc = g.get("count") if g else None
        ges = g.get("elemsize") if g else None

        def member_val(me):
            if not isinstance(me, E):
                return None
            v = self.members.get(self.uncast(me).key().replace("self.", ""))
            return self.uncast(v).key() if isinstance(v, E) else None
        Lk = self.uncast(L)
        if Lk.op == "mul" and self.uncast(Lk.args[1]).is_const() and self.uncast(Lk.args[1]).cval() == 1:
            Lk = self.uncast(Lk.args[0])
        if member_val(ges) is not None and member_val(ges) == Lk.key():
            self.role(Lk, ("elemsize", name, 0))
            it["shape"] = {"k": "static", "n": 1}
            it["elemsize"] = True
            return
        if member_val(gc) is not None and member_val(gc) == Lk.key() and eb != 1:
            self.role(Lk, ("count", name, 0))
            it["shape"] = {"k": "count", "f": name, "v": Lk}
            return
        if isinstance(gc, E) and not gc.is_const() and eb == 1:
            # `1 * count` bytes, and the getter stops at `count` elements
            self.role(L, ("count|size1", name, 0))
            it["shape"] = {"k": "count", "f": name, "v": L, "elem_bytes": 1}
            return
        # a size
        self.role(L, ("size", name, 0))
        it["shape"] = {"k": "size", "f": name, "v": L, "elem_bytes": eb}
        self.getter_elemsize(it, g)

    def getter_elemsize(self, it, g):
        es = g.get("elemsize") if g else None
        if isinstance(es, E):
            mname = self.uncast(es).key().replace("self.", "")
            v = self.members.get(mname)
            if isinstance(v, E):
                self.role(v, ("elemsize", it["name"], 0))
            it["elemsize"] = True

    def resolve_cond(self, it):
        """`if (flag == v) { guard; read }`  -> optional item;  padding adjustment -> nothing"""
        c = it["c"]
        items = it.get("items") if it["k"] == "cond" else (it["then"] or it["else"])
        if c is None:
            return items
        cc = c.negate() if it.get("neg") else c
        if cc.op == "eq" and isinstance(cc.args[0], E) and isinstance(cc.args[1], E) and cc.args[1].is_const():
            flag, val = cc.args
            flag = self.uncast(flag)
            inner = None
            name = None
            chunk = None
            for x in items:
                if x["k"] == "chunk":
                    chunk = x
                    self.chunk_bits(x)
                    fu = [u for u in x["uses"] if u.get("field")]
                    name = fu[0]["name"] if fu else None
                    en = next((u.get("enum") for u in x["uses"] if u.get("enum")), None)
                    inner = {"k": "enum" if en else "scalar", "w": x["n"] * 8, "order": x["order"]}
                    if en:
                        inner["type"] = en
                elif x["k"] == "typedef":
                    name = x["name"]
                    inner = {"k": "struct", "type": x["type"]}
            if inner is not None:
                self.role(flag, ("flag", name, val.cval()))
                return [{"k": "optional", "name": name, "flag": (flag, val.cval()), "inner": inner, "line": it["line"],
                         "chunk": chunk}]
        if not items:
            return []
        return items


# ====================================================================================== runtime templates
class RuntimeEval(Eval):
    """One instantiation of slice::read_le/read_be or Builder::write_le/write_be: the constant loop is unrolled and the
    result (resp. the pushed bytes) is compared bit by bit with the reference byte order."""

    def __init__(self, mod, cls, name, targs, fn):
        super().__init__(mod, cls, fn, "runtime")
        self.tname, self.nbytes = targs[0], int(targs[1])
        self.fname = name
        self.pushed = []
        self.skips = []
        self.result = None
        self.problems = []

    def setup(self, ps):
        for p in ps:
            t = strip_cv(p["type"])
            if "vector" in t:
                self.vars[p["name"]] = VecV("output", const(0, "u64"))
            else:
                ty = self.ity(p.get("dtype") or t) or self.ity(self.tname)
                self.vars[p["name"]] = sym.sym("value", ty, 0, sym.TYMAX.get(ty))

    def e_ConditionalOperator(self, n):
        cn, a, b = n["inner"]
        if any(x.get("kind") == "DeclRefExpr" and (x.get("ref") or {}).get("name") == "__assert_fail" for x in walk(b)):
            return Opaque("precondition")
        return super().e_ConditionalOperator(n)

    def obj_call(self, base, name, av, n, me):
        if name == "at":
            i = self.as_int(av[0])
            if i is None or not i.is_const():
                self.problems.append("at() with a non-constant index")
                return self.fresh("byte", "u8")
            return sym.sym(f"byte{i.cval()}", "u8", 0, 255)
        if name == "skip":
            self.skips.append(self.as_int(av[0]))
            return Opaque("void")
        return super().obj_call(base, name, av, n, me)

    def vec_call(self, v, name, av, n):
        if name == "push_back":
            e = self.as_int(av[0])
            self.pushed.append(e)
            return Opaque("void")
        return super().vec_call(v, name, av, n)

    def convert(self, v, ty, what, explicit=False):
        if v.ty == ty:
            return v
        if v.is_const():
            return sym.cast(v, ty)
        return E("cast", (v,), ty)

    def s_ReturnStmt(self, s):
        v = self.expr(s["inner"][0]) if s.get("inner") else None
        v = v.get() if isinstance(v, Ref) else v
        self.result = v
        raise Ret(v)

    def verdict(self):
        """-> list of problems (empty if the instantiation is the reference byte order)"""
        out = list(self.problems)
        n = self.nbytes
        le = self.fname.endswith("_le")
        if self.fname.startswith("read"):
            if not isinstance(self.result, E):
                return out + ["no integer result"]
            width = sym.TYBITS.get(self.result.ty or self.ity(self.tname), 64)
            bits = sym._bits_of(self.result, self.env, 64, structural=True)
            for i in range(n):
                pos = 8 * i if le else 8 * (n - 1 - i)
                for j in range(8):
                    b = bits[pos + j] if pos + j < len(bits) else 0
                    if b != (f"byte{i}", j):
                        out.append(f"bit {pos + j} of the result is {b}, expected bit {j} of input byte {i}")
                        return out
            for k in range(8 * n, width):
                if bits[k] != 0:
                    out.append(f"bit {k} of the result above the {n} bytes read is {bits[k]}")
                    return out
            if not self.skips or not all(isinstance(s, E) and s.is_const() and s.cval() == n for s in self.skips):
                out.append(f"the slice is not advanced by exactly {n} byte(s)")
        else:
            if len(self.pushed) != n:
                return out + [f"{len(self.pushed)} byte(s) appended instead of {n}"]
            for i, e in enumerate(self.pushed):
                if not isinstance(e, E):
                    out.append(f"byte {i} is not an integer expression")
                    return out
                bits = sym._bits_of(e, self.env, 64, structural=True)
                pos = 8 * i if le else 8 * (n - 1 - i)
                for j in range(8):
                    if bits[j] != ("value", pos + j):
                        out.append(f"output byte {i} bit {j} is {bits[j]}, expected bit {pos + j} of the value")
                        return out
        return out


# ====================================================================================== serializer side
class SerEval(Eval):
    """Builder::Serialize / struct Serialize / GetSize: items in the format of rslayout.encoder_items; atoms are named as
    in the Rust evaluator (self.x, int(self.e), len(self.x), sum_encoded_len(self.x), encoded_len(self.x), is_some(..))
    so that the comparators of C03 apply unchanged."""

    def __init__(self, mod, cls, fn, mode="serialize", statics=None):
        super().__init__(mod, cls, fn, mode)
        self.statics = statics or {}
        self.size_value = None
        self.ref_chunks = None

    def fname(self, name):
        return name[:-1] if name.endswith("_") else name

    def initial_member(self, base, name, n):
        t = strip_cv(n.get("dtype") or n.get("type"))
        f = self.fname(name)
        if "vector" in t or re.match(r"(?:std::)?array<", t):
            m = re.match(r"(?:std::)?array<(.*), *(\d+)>", t)
            if m:
                v = VecV(f"self.{f}", const(int(m.group(2)), "u64"), static_n=int(m.group(2)))
            else:
                v = VecV(f"self.{f}", sym.sym(f"len(self.{f})", "u64", 0, 2 ** 48))
            v.elem_t = t
            return v
        if "optional" in t:
            o = OptV(f"self.{f}")
            m = re.search(r"optional<\s*([^<>]+)>", t)
            it = m.group(1).strip() if m else ""
            b = it.split("::")[-1]
            if b in self.mod.enums:
                ty = self.mod.enums[b].get("uty")
                o.inner = EnumV(b, sym.sym(f"int(self.{f}?)", ty, 0, sym.TYMAX.get(ty)))
            elif b in self.mod.classes:
                o.inner = ObjV(b, None, f"self.{f}")
            else:
                ty = self.ity(it)
                o.inner = sym.sym(f"self.{f}?", ty, 0, sym.TYMAX.get(ty))
            return o
        ty = self.ity(t)
        b = t.split("::")[-1]
        if b in self.mod.enums:
            uty = self.mod.enums[b].get("uty")
            return EnumV(b, sym.sym(f"int(self.{f})", uty, 0, sym.TYMAX.get(uty)))
        if ty:
            return sym.sym(f"self.{f}", ty, 0, sym.TYMAX.get(ty))
        if b in self.mod.classes:
            return ObjV(b, None, f"self.{f}")
        if "slice" in t:
            return SliceV(sym.sym(f"len(self.{f})", "u64", 0, 2 ** 48), "member", name)
        return Opaque(f"member {name}")

    def elem_value(self, vec, var):
        t = strip_cv(var.get("dtype") or var.get("type") or "")
        cands = [t, getattr(vec, "elem_t", "")]
        for cand in cands:
            m = re.search(r"<\s*([^,<>]+)", cand) if "<" in cand else None
            et = m.group(1).strip() if m else cand
            b = et.split("::")[-1]
            if b in self.mod.classes:
                return ObjV(b, None, f"{vec.name}[]")
            if b in self.mod.enums:
                ty = self.mod.enums[b].get("uty")
                return EnumV(b, sym.sym(f"int({vec.name}[])", ty, 0, sym.TYMAX.get(ty)))
            ty = self.ity(et)
            if ty:
                return sym.sym(f"{vec.name}[]", ty, 0, sym.TYMAX.get(ty))
        return Opaque("elem")

    def convert(self, v, ty, what, explicit=False):
        if v.ty == ty:
            return v
        if v.is_const():
            return sym.cast(v, ty)
        return E("cast", (v,), ty)

    def arith(self, op, a, b, ty):
        name = {"+": "add", "-": "sub", "*": "mul", "/": "div", "%": "rem", "<<": "shl", ">>": "shr", "&": "and",
                "|": "or", "^": "xor"}.get(op)
        if name is None:
            self.obl("unmodelled", False, f"binary {op}")
            return Opaque(op)
        return binop(name, a, b, ty)

    def cond(self, n):
        c = super().cond(n)
        # (x.has_value() ? 1 : 0) == 1   ->   is_some(x)
        if c is not None and c.op in ("eq", "ne") and isinstance(c.args[0], E) and isinstance(c.args[1], E):
            a, b = c.args
            au = a
            while au.op == "cast":
                au = au.args[0]
            if au.op == "ite" and b.is_const() and au.args[1].is_const() and au.args[2].is_const():
                t_, f_ = au.args[1].cval() == b.cval(), au.args[2].cval() == b.cval()
                if c.op == "ne":
                    t_, f_ = not t_, not f_
                if t_ and not f_:
                    return au.args[0]
                if f_ and not t_:
                    return au.args[0].negate()
        return c

    def s_DeclStmt(self, s):
        super().s_DeclStmt(s)
        if self.mode != "serialize":
            return
        for v in s.get("inner", []):
            if v.get("kind") == "VarDecl" and strip_cv(v.get("type")) in ("size_t", "unsigned long"):
                val = self.vars.get(v["name"])
                if isinstance(val, E) and not val.is_const() and not val.key().startswith("span_len@"):
                    w = sym.sym(f"szv({v['name']})", "u64", 0, 2 ** 48)
                    self.env.defs[w.key()] = val
                    self.vars[v["name"]] = w

    def in_range(self, e, nbytes):
        """in-range builder arguments: each OR-ed term of a group fits the reference width of the bit-field at its shift"""
        rc = getattr(self, "ref_chunks", None)
        if rc is None or self.loop is not None or getattr(self, "depth", 0) > 0:
            return
        i = getattr(self, "ref_i", 0)
        while i < len(rc) and rc[i][0] != nbytes:
            i += 1
        if i >= len(rc):
            return
        self.ref_i = i + 1
        fields = rc[i][1]

        def leaves(x, shift):
            if x.op == "or":
                for a in x.args:
                    yield from leaves(a, shift)
            elif x.op == "cast":
                yield from leaves(x.args[0], shift)
            elif x.op == "shl" and x.args[1].is_const():
                yield from leaves(x.args[0], shift + x.args[1].cval())
            else:
                yield x, shift
        for leaf, sh in leaves(e, 0):
            if leaf.is_const():
                continue
            for (fs, fw, fk) in fields:
                if fs == sh and fk in ("size", "count", "elemsize", "enum", "scalar", "flag"):
                    self.env.refine(leaf, hi=(1 << fw) - 1)

    # ---- emitting
    def emit(self, it):
        if self.loop is not None:
            self.loop["items"].append(it)
        else:
            self.items.append(it)

    def call_write(self, r, args):
        spid = r.get("id")
        sp = self.mod.spec.get(spid)
        if not sp:
            self.obl("unmodelled", False, "write_* specialisation not found")
            return Opaque("write")
        name, targs = sp[0], sp[1]
        n = int(targs[1])
        self.expr(args[0])
        v = self.expr(args[1])
        v = v.get() if isinstance(v, Ref) else v
        e = self.as_int(v)
        if e is None:
            self.obl("unmodelled", False, f"{name} of a non-integer value")
            return Opaque("write")
        class _W:
            pass
        w = _W()
        w.nbytes, w.order, w.e, w.env, w.line, w.api = n, (None if n == 1 else ("little" if name.endswith("_le") else "big")), \
            e, self.env, self.line, name
        from . import rslayout
        self.in_range(e, n)
        self.emit(rslayout.write_item(w))
        return Opaque("void")

    def emit_bytes(self, src):
        self.emit({"k": "bytes", "src": src.name, "line": self.line})

    def emit_nested(self, base):
        self.emit({"k": "nested", "src": base.name, "type": base.ty, "line": self.line, "static": self.statics.get(base.ty)})

    def obj_call(self, base, name, av, n, me):
        if name == "GetSize":
            st = self.statics.get(base.ty)
            if st is not None:
                return const(st, "u64")
            return sym.sym(f"encoded_len({base.name})", "u64", 0, 2 ** 48)
        return super().obj_call(base, name, av, n, me)

    def vec_call(self, v, name, av, n):
        if name == "size" and v.name == "output":
            return sym.sym(f"span_len@{len(self.items)}", "u64", 0, 2 ** 48)
        return super().vec_call(v, name, av, n)

    def emit_resize(self, v, av):
        if v.name != "output" or not av:
            self.obl("unmodelled", False, "resize of a vector other than output")
            return
        tgt = self.as_int(av[0])
        val = self.as_int(av[1]) if len(av) > 1 else const(0)
        cur = sym.sym(f"span_len@{len(self.items)}", "u64", 0, 2 ** 48)
        cnt = self.resolve_markers(sym.p_add(self.env.poly(tgt), self.env.poly(cur), -1))
        self.emit({"k": "fill", "value": val.cval() if isinstance(val, E) and val.is_const() else None, "count": cnt,
                   "line": self.line})

    def resolve_markers(self, p):
        from . import rslayout
        plus = minus = None
        rest = {}
        for mono, c in p.items():
            m = re.fullmatch(r"span_len@(\d+)", mono[0]) if len(mono) == 1 else None
            if m and c == 1:
                plus = int(m.group(1))
            elif m and c == -1:
                minus = int(m.group(1))
            else:
                rest[mono] = c
        if plus is None or minus is None:
            return p
        lo, hi = sorted((plus, minus))
        tot = {}
        for it in self.items[lo:hi]:
            tot = sym.p_add(tot, rslayout.item_bytes(it, self.env))
        sign = 1 if plus > minus else -1
        return sym.p_add(rest, tot, sign)

    def call_accumulate(self, args):
        vs = [self.expr(a) for a in args]
        vec = next((v[1] for v in vs if isinstance(v, tuple) and v and v[0] == "iter"), None)
        lam = next((v[1] for v in vs if isinstance(v, tuple) and v and v[0] == "lambda"), None)
        if vec is None or lam is None:
            self.obl("unmodelled", False, "std::accumulate form")
            return Opaque("acc")
        if any(x.get("kind") == "MemberExpr" and x.get("name") == "GetSize" for x in walk(lam)) or \
                any(x.get("kind") == "CXXDependentScopeMemberExpr" for x in walk(lam)):
            b = (getattr(vec, "elem_t", "") or "")
            m = re.search(r"<\s*([^,<>]+)", b)
            et = m.group(1).strip().split("::")[-1] if m else None
            st = self.statics.get(et)
            if st is not None:
                return binop("mul", vec.size, const(st, "u64"), "u64")
            return sym.sym(f"sum_encoded_len({vec.name})", "u64", 0, 2 ** 48)
        self.obl("unmodelled", False, "std::accumulate with an unrecognised lambda")
        return Opaque("acc")

    def e_ConditionalOperator(self, n):
        cn, a, b = n["inner"]
        c = self.cond(cn)
        va, vb = self.expr(a), self.expr(b)
        va = va.get() if isinstance(va, Ref) else va
        vb = vb.get() if isinstance(vb, Ref) else vb
        ea, eb = self.as_int(va), self.as_int(vb)
        if c is not None and ea is not None and eb is not None:
            # x.empty() ? 0 : x[0].GetSize()  ->  ite(len > 0, size, 0)
            if c.op == "eq" and isinstance(c.args[1], E) and c.args[1].is_const() and c.args[1].cval() == 0 and ea.is_const() \
                    and ea.cval() == 0:
                return sym.ite(Cond("gt", c.args[0], const(0, "u64")), eb, ea, eb.ty)
            return sym.ite(c, ea, eb, ea.ty or eb.ty)
        return Opaque("cond")

    def e_CXXOperatorCallExpr(self, n):
        inner = n["inner"]
        callee = self.strip(inner[0])
        opname = (callee.get("ref") or {}).get("name", "")
        if opname == "operator[]":
            base = self.expr(inner[1])
            base = base.get() if isinstance(base, Ref) else base
            if isinstance(base, VecV):
                self.expr(inner[2])
                b = getattr(base, "elem_t", "") or ""
                m = re.search(r"<\s*([^,<>]+)", b)
                et = m.group(1).strip().split("::")[-1] if m else None
                if et in self.mod.classes:
                    return ObjV(et, None, f"{base.name}[]")
                return Opaque("vec-elem")
        return super().e_CXXOperatorCallExpr(n)

    # ---- control flow
    def two_way(self, c, then, els):
        if els is not None:
            self.obl("unmodelled", False, "if/else in a serializer")
            return
        saved = self.env
        self.env = saved.copy()
        if c is not None:
            self.env.assume(c)
        before = len(self.items)
        lp_before = len(self.loop["items"]) if self.loop is not None else None
        try:
            self.stmt(then)
        except Ret:
            pass
        self.env = saved
        tgt = self.loop["items"] if self.loop is not None else self.items
        start = lp_before if self.loop is not None else before
        inner = tgt[start:]
        del tgt[start:]
        if not inner:
            return
        if all(x["k"] == "fill" for x in inner):
            for x in inner:
                tgt.append(x)
            return
        src = None
        for x in inner:
            if x["k"] == "chunk":
                nm = next((b[1] for b in x["bits"] if isinstance(b, tuple) and b[0] == "optval"), None)
                if nm:
                    src = "self." + nm
            elif x["k"] == "nested":
                src = x.get("src")
        if src is None:
            m = re.search(r"is_some\((self\.\w+)\)", c.key()) if c is not None else None
            if m:
                src = m.group(1)
        tgt.append({"k": "optional", "src": src, "cond": c, "items": inner, "line": self.line})

    def ser_loop_done(self, lp):
        over = lp.get("over")
        inner = lp["items"]
        if not inner:
            return
        it = {"k": "array", "src": over.name if over is not None else None, "count": lp["count"], "line": lp["line"]}
        if len(inner) == 1 and inner[0]["k"] == "chunk":
            it["elem"] = inner[0]
        elif len(inner) == 1 and inner[0]["k"] == "nested":
            it["elem"] = {"k": "nested", "type": inner[0].get("type"), "static": inner[0].get("static")}
        else:
            it["elem"] = {"k": "unknown", "n": len(inner)}
        self.emit(it)

    def s_ReturnStmt(self, s):
        v = self.expr(s["inner"][0]) if s.get("inner") else None
        v = v.get() if isinstance(v, Ref) else v
        self.size_value = v
        raise Ret(v)
