"""Cached build stages: tools, corpus, generation (pdlgen), syntax dumps."""
import glob
import json
import os
import re
import shutil
import subprocess

from . import core, pdl
from .core import VERIF, REPO, TOOLS, run_stage, sh, StageError

TOOLBIN = os.path.join(TOOLS, "target", "debug")

RUST_EXCLUDE_CANON = [
    "UnsizedCustomField", "Packet_Custom_Field_VariableSize", "Struct_Custom_Field_VariableSize_",
    "Struct_Custom_Field_VariableSize", "Checksum", "Packet_Checksum_Field_FromStart",
    "Packet_Checksum_Field_FromEnd", "Struct_Checksum_Field_FromStart_", "Struct_Checksum_Field_FromStart",
    "Struct_Checksum_Field_FromEnd_", "Struct_Checksum_Field_FromEnd",
    "Packet_Array_Field_UnsizedElement_SizeModifier", "Struct_Array_Field_UnsizedElement_SizeModifier_",
    "Struct_Array_Field_UnsizedElement_SizeModifier", "Packet_Array_ElementSize_UnsizedCustomField",
    "Packet_Array_ElementSize_SizedCustomField",
]
PY_EXCLUDE_CANON = [
    "Packet_Array_Field_VariableElementSize_ConstantSize", "Packet_Array_Field_VariableElementSize_VariableSize",
    "Packet_Array_Field_VariableElementSize_VariableCount", "Packet_Array_Field_VariableElementSize_UnknownSize",
]


JAVADUMP = os.path.join(TOOLS, "javadump", "classes")


def build_tools():
    """(Re)build the three dumpers; pdlgen links /repo/pdl-compiler by path so cargo
    rebuilds it whenever /repo's sources changed."""
    lock = os.path.join(TOOLS, "Cargo.lock")
    if not os.path.exists(lock):
        shutil.copy(os.path.join(REPO, "Cargo.lock"), lock)
    p = sh(["cargo", "build", "--offline", "--quiet"], cwd=TOOLS, check=False,
           env={"CARGO_TARGET_DIR": os.path.join(TOOLS, "target")})
    if p.returncode != 0:
        raise StageError("tools build failed (does /repo still compile?):\n" + p.stderr[-4000:])
    return TOOLBIN


class Entry:
    def __init__(self, name, text, opts=None, group="fixed", origin=""):
        self.name = name
        self.text = text
        self.opts = opts or {}
        self.group = group
        self.origin = origin


def _both_endian(name, text, opts, group, origin):
    out = []
    for end, suf in (("little", "le"), ("big", "be")):
        t = pdl.with_endianness(text, end)
        out.append(Entry(f"{name}_{suf}", t, opts, group, origin))
    return out


def corpus_fixed():
    out = []
    for p in sorted(glob.glob(os.path.join(VERIF, "corpus", "fixed", "*.pdl"))):
        name = os.path.basename(p)[:-4]
        opts = {}
        op = p[:-4] + ".opts.json"
        if os.path.exists(op):
            opts = json.load(open(op))
        out += _both_endian("f_" + name, open(p, newline="").read(), opts, "fixed", p)
    return out


def corpus_witness():
    out = []
    for p in sorted(glob.glob(os.path.join(VERIF, "corpus", "witness", "*.pdl"))):
        name = os.path.basename(p)[:-4]
        opts = {}
        op = p[:-4] + ".opts.json"
        if os.path.exists(op):
            opts = json.load(open(op))
        out += _both_endian("w_" + name, open(p).read(), opts, "witness", p)
    return out


def corpus_borderline():
    """Descriptions the reference calls ill-formed, one defect each, in forms the repository's own tests do not pin.
    They are subjects only if /repo's analyzer accepts them (then every generated-code check applies to them)."""
    out = []
    for p in sorted(glob.glob(os.path.join(VERIF, "corpus", "borderline", "*.pdl"))):
        name = os.path.basename(p)[:-4]
        out.append(Entry("b_" + name, open(p).read(), {}, "borderline", p))
    return out


def corpus_repo():
    """Every description the repository itself ships."""
    out = []
    canon = os.path.join(REPO, "pdl-compiler/tests/canonical/le_test_file.pdl")
    if os.path.exists(canon):
        t = open(canon).read()
        opts = {"exclude": {"rust": RUST_EXCLUDE_CANON, "python": PY_EXCLUDE_CANON, "cxx": []},
                "python_custom": "tests.custom_types", "canonical": True}
        out.append(Entry("r_canon_le", t, opts, "repo", canon))
        be = re.sub(r"// Start: little_endian_only.*?// End: little_endian_only", "", t, flags=re.S)
        be = be.replace("little_endian_packets", "big_endian_packets", 1)
        out.append(Entry("r_canon_be", be, opts, "repo", canon))
    for p in sorted(glob.glob(os.path.join(REPO, "examples", "*.pdl"))):
        name = re.sub(r"\W", "_", os.path.basename(p)[:-4])
        out += [Entry(f"r_ex_{name}", open(p).read(), {}, "repo", p)]
    src = os.path.join(REPO, "pdl-compiler/src/backends/rust/mod.rs")
    if os.path.exists(src):
        s = open(src).read()
        for m in re.finditer(r'test_pdl!\(\s*(\w+)\s*,\s*(?:r#"(.*?)"#|"((?:[^"\\]|\\.)*)")', s, re.S):
            code = m.group(2) if m.group(2) is not None else m.group(3)
            out += _both_endian("r_t_" + m.group(1), "little_endian_packets\n" + code, {"backends": ["rust"]}, "repo",
                                src)
    for p in sorted(glob.glob(os.path.join(REPO, "pdl-tests/tests/*.rs"))):
        s = open(p).read()
        base = os.path.basename(p)[:-3]
        for i, m in enumerate(re.finditer(r'pdl_inline\(\s*r#"(.*?)"#', s, re.S)):
            out.append(Entry(f"r_i_{base}_{i}", m.group(1).lstrip(), {"backends": ["rust"]}, "repo", p))
    return out


def java_canon_exclusions():
    """the declarations of the canonical test file that the repository's own Java test script excludes"""
    p = os.path.join(REPO, "pdl-compiler/tests/run_java_generator_tests.sh")
    if not os.path.exists(p):
        return []
    return re.findall(r"--exclude-declaration (\w+)", open(p).read())


def java_exclusions(text):
    """declarations outside the Java backend's supported constructs (optional fields, padding, element sizes, custom and
    checksum fields, per its own documentation), plus everything that depends on them"""
    try:
        m = pdl.parse(text, "x")
    except Exception:
        return None
    decls = {d.name: d for d in m.decls if isinstance(d, pdl.Decl)}
    bad = set()
    for d in decls.values():
        if d.kind in ("custom", "checksum"):
            bad.add(d.name)
    changed = True
    while changed:
        changed = False
        for d in decls.values():
            if d.name in bad or d.kind in ("custom", "checksum"):
                continue
            why = False
            if d.parent in bad:
                why = True
            for f in d.fields:
                if f.cond is not None or f.kind in ("padding", "elementsize", "checksum_start", "body"):
                    why = True      # (the repository's own Java test script also leaves _body_ packets out)
                if f.type in bad:
                    why = True
            if why:
                bad.add(d.name)
                changed = True
    return sorted(bad)


def corpus(tier, seed=0):
    ents = corpus_fixed() + corpus_repo() + corpus_witness() + corpus_borderline()
    if tier == "thorough":
        from . import corpusgen
        ents += corpusgen.generate(seed)
    for e in ents:
        only = e.opts.get("backends")
        if only is not None and "java" not in only:
            continue
        if e.group in ("borderline", "witness", "generated"):
            # the Java backend is exercised on the hand-written and repository-shipped descriptions only: the generated
            # (seeded) corpus would make the set of its known compile failures depend on the seed
            e.opts = dict(e.opts, backends=[b for b in (only or ["rust", "python", "cxx"])])
            continue
        ex = java_exclusions(e.text)
        if ex is not None and e.opts.get("canonical"):
            ex = sorted(set(ex) | set(java_canon_exclusions()))
        if ex is None:
            e.opts = dict(e.opts, backends=[b for b in (only or ["rust", "python", "cxx"])])
            continue
        excl = dict(e.opts.get("exclude") or {})
        excl["java"] = sorted(set(excl.get("java", [])) | set(ex))
        e.opts = dict(e.opts, exclude=excl)
    return ents


def stage_gen(tier, seed=0):
    """Render the corpus, run /repo's generators over it, dump syntax trees."""
    name = f"gen-{tier}-{seed}"

    def build(d):
        build_tools()
        src = os.path.join(d, "pdl")
        out = os.path.join(d, "out")
        os.makedirs(src)
        ents = corpus(tier, seed)
        index = []
        for e in ents:
            with open(os.path.join(src, e.name + ".pdl"), "w", newline="") as f:
                f.write(e.text)
            if e.opts:
                with open(os.path.join(src, e.name + ".opts.json"), "w") as f:
                    json.dump(e.opts, f)
            index.append({"name": e.name, "group": e.group, "origin": e.origin, "opts": e.opts})
        with open(os.path.join(d, "index.json"), "w") as f:
            json.dump(index, f)
        sh([os.path.join(TOOLBIN, "pdlgen"), src, out], timeout=1800)
        sh([os.path.join(TOOLBIN, "syn2json"), "--dir", out, os.path.join(d, "rsjson")], timeout=1800)

    return run_stage(name, build)


class Gen:
    """Accessor over a finished gen stage."""

    def __init__(self, tier, seed=0):
        self.dir = stage_gen(tier, seed)
        self.index = json.load(open(os.path.join(self.dir, "index.json")))
        self.status = json.load(open(os.path.join(self.dir, "out", "status.json")))
        self._models = {}
        self._mods = {}

    def names(self, group=None):
        return [e["name"] for e in self.index if group is None or e["group"] == group]

    def entry(self, name):
        return next(e for e in self.index if e["name"] == name)

    def text(self, name):
        return open(os.path.join(self.dir, "pdl", name + ".pdl"), newline="").read()

    def model(self, name):
        if name not in self._models:
            self._models[name] = pdl.parse(self.text(name), name)
        return self._models[name]

    def path(self, name, ext):
        return os.path.join(self.dir, "out", f"{name}.{ext}")

    def ok(self, name, backend):
        st = self.status.get(name, {})
        return st.get(backend) == "ok"

    def rust_module(self, name):
        if name not in self._mods:
            from . import rsmod
            p = os.path.join(self.dir, "rsjson", name + ".json")
            if not os.path.exists(p):
                self._mods[name] = None
            else:
                m = rsmod.Module(p, name)
                if not m.error:
                    m.compute_sizes()
                self._mods[name] = m
        return self._mods[name]


# ------------------------------------------------------------------------------------ MIR of /repo's crates
MIR_TARGETS = {
    "runtime": ["-p", "pdl-runtime", "--lib"],
    "compiler": ["-p", "pdl-compiler", "--lib"],
    "compiler_java": ["-p", "pdl-compiler", "--lib", "--features", "java"],
    "pdlc": ["-p", "pdl-compiler", "--bin", "pdlc"],
    "derive": ["-p", "pdl-derive", "--lib"],
}
_FP = {"runtime": "pdl-runtime-*", "compiler": "pdl-compiler-*", "compiler_java": "pdl-compiler-*",
       "pdlc": "pdl-compiler-*", "derive": "pdl-derive-*"}


def stage_mir(which):
    """rustc's own MIR (resolved callees, generic arguments) for one crate of /repo, built
    with the real build's flags by cargo; cargo's freshness cache is defeated by removing the
    crate's fingerprints first."""
    name = f"mir-{which}"

    def build(d):
        import fcntl
        tdir = os.path.join(core.CACHE, "target-nightly")
        os.makedirs(core.CACHE, exist_ok=True)
        # the MIR dumps of the different crates share one target directory and remove each other's fingerprints:
        # checks started in parallel must not interleave them
        with open(os.path.join(core.CACHE, ".lock-mir-target"), "w") as lk:
            fcntl.flock(lk, fcntl.LOCK_EX)
            for fp in glob.glob(os.path.join(tdir, "debug", ".fingerprint", _FP[which])):
                shutil.rmtree(fp, ignore_errors=True)
            cmd = ["cargo", "+nightly", "rustc", "--offline"] + MIR_TARGETS[which] + \
                  ["--", "-Zunpretty=mir", "-Zmir-opt-level=0", "-Awarnings"]
            p = sh(cmd, cwd=REPO, env={"CARGO_TARGET_DIR": tdir}, check=False, timeout=3600)
        if p.returncode != 0:
            raise StageError(f"MIR dump of {which} failed:\n" + p.stderr[-4000:])
        if "fn " not in p.stdout:
            raise StageError(f"MIR dump of {which} is empty (cargo freshness?)")
        with open(os.path.join(d, "mir.txt"), "w") as f:
            f.write(p.stdout)

    return os.path.join(run_stage(name, build), "mir.txt")


def mir_bodies(which):
    from . import mirfacts
    return mirfacts.parse(open(stage_mir(which)).read())


def stage_syn_repo():
    """syn JSON of every .rs file under /repo's crates (source rules)."""
    def build(d):
        build_tools()
        files = []
        for crate in ("pdl-compiler/src", "pdl-runtime/src", "pdl-derive/src"):
            for root, dirs, fs in os.walk(os.path.join(REPO, crate)):
                for f in fs:
                    if f.endswith(".rs"):
                        files.append(os.path.join(root, f))
        idx = {}
        for f in sorted(files):
            rel = os.path.relpath(f, REPO)
            out = os.path.join(d, rel.replace("/", "__") + ".json")
            p = sh([os.path.join(TOOLBIN, "syn2json"), f, out], check=False)
            if p.returncode == 0:
                idx[rel] = out
            else:
                idx[rel] = None
        json.dump(idx, open(os.path.join(d, "index.json"), "w"))
    d = run_stage("syn-repo", build)
    return d


def repo_syn(rel):
    d = stage_syn_repo()
    idx = json.load(open(os.path.join(d, "index.json")))
    p = idx.get(rel)
    if not p:
        return None
    return json.load(open(p))


# ------------------------------------------------------------------------------------ compile witnesses
STUB = '''
    #[derive(Debug, Clone, PartialEq, Eq, Default)]
    pub struct {name}(pub Vec<u8>);
    impl pdl_runtime::Packet for {name} {{
        fn decode(buf: &[u8]) -> Result<(Self, &[u8]), pdl_runtime::DecodeError> {{
            if buf.is_empty() {{ return Err(pdl_runtime::DecodeError::TrailingBytesError); }}
            Ok(({name}(buf[..1].to_vec()), &buf[1..]))
        }}
        fn encode(&self, buf: &mut impl bytes::BufMut) -> Result<(), pdl_runtime::EncodeError> {{
            buf.put_slice(&self.0);
            Ok(())
        }}
        fn encoded_len(&self) -> usize {{ self.0.len() }}
    }}
'''


def stage_harness(tier, seed=0):
    """Type-check all emitted Rust against pdl-runtime/bytes under #![forbid(unsafe_code)]
    (stable toolchain, deny-by-default lints on). Per-module error attribution."""
    g = Gen(tier, seed)

    def build(d):
        src = os.path.join(d, "src")
        os.makedirs(src)
        lock = os.path.join(REPO, "Cargo.lock")
        shutil.copy(lock, os.path.join(d, "Cargo.lock"))
        with open(os.path.join(d, "Cargo.toml"), "w") as f:
            f.write('[package]\nname = "pdlharness"\nversion = "0.0.0"\nedition = "2021"\n\n[workspace]\n\n'
                    '[dependencies]\npdl-runtime = { path = "%s/pdl-runtime" }\nbytes = "1"\n' % REPO)
        mods = []
        names = [nm for nm in g.names() if g.ok(nm, "rust")]
        for nm in names:
            stubs = ""
            try:
                model = g.model(nm)
                for dd in model.decls:
                    if getattr(dd, "kind", "") == "custom" and dd.width is None:
                        stubs += STUB.format(name=dd.name)
            except Exception:
                pass
            mods.append("pub mod %s {\n%s\n    include!(%s);\n}\n" % (nm, stubs, json.dumps(g.path(nm, "rs"))))
        with open(os.path.join(src, "lib.rs"), "w") as f:
            f.write("#![forbid(unsafe_code)]\n#![allow(warnings)]\n#![allow(non_camel_case_types, non_snake_case)]\n" + "\n".join(mods))
        tdir = os.path.join(core.CACHE, "target-harness")
        p = sh(["cargo", "check", "--offline", "--message-format=json", "--quiet"], cwd=d,
               env={"CARGO_TARGET_DIR": tdir}, check=False, timeout=3600)
        errors = []
        for line in p.stdout.splitlines():
            try:
                m = json.loads(line)
            except Exception:
                continue
            if m.get("reason") != "compiler-message":
                continue
            msg = m["message"]
            if msg.get("level") != "error":
                continue
            spans = msg.get("spans") or []
            fname = None
            lineno = 0
            for sp in spans:
                if sp.get("is_primary"):
                    fname = sp["file_name"]
                    lineno = sp["line_start"]
                    # errors inside include!d files are reported with the included file name
            code = (msg.get("code") or {}).get("code")
            errors.append({"file": fname, "line": lineno, "code": code, "message": msg.get("message", "")[:300]})
        with open(os.path.join(d, "result.json"), "w") as f:
            json.dump({"modules": names, "errors": errors, "rc": p.returncode, "stderr": p.stderr[-2000:]}, f)

    d = run_stage(f"harness-{tier}-{seed}", build)
    return json.load(open(os.path.join(d, "result.json")))


def stage_java(tier, seed=0):
    """javac syntax trees (attributed) of every emitted Java class, per corpus description."""
    from concurrent.futures import ThreadPoolExecutor
    g = Gen(tier, seed)

    def build(d):
        names = [nm for nm in g.names() if g.status.get(nm, {}).get("java") == "ok"]
        res = {}

        def one(nm):
            src = os.path.join(g.dir, "out", nm + ".java.d")
            out = os.path.join(d, nm)
            p = subprocess.run(["java", "-cp", JAVADUMP, "JavaDump", src, out], capture_output=True, text=True, timeout=600)
            errs = []
            ef = os.path.join(out, "_errors.json")
            if os.path.exists(ef):
                errs = json.load(open(ef))
            return nm, p.returncode, errs, p.stderr[-300:]
        with ThreadPoolExecutor(max_workers=12) as ex:
            for nm, rc_, errs, err in ex.map(one, names):
                res[nm] = {"rc": rc_, "errors": errs, "stderr": err}
        with open(os.path.join(d, "index.json"), "w") as f:
            json.dump(res, f)

    d = run_stage(f"java-{tier}-{seed}", build)
    return d, json.load(open(os.path.join(d, "index.json")))
