"""Facts from rustc's MIR text dumps (-Zunpretty=mir -Zmir-opt-level=0): per body the
basic blocks, statements, terminators (calls with resolved callee paths incl. generic
arguments), CFG, dominators, and value origins (def-use through moves/projections)."""
import re


class Term:
    def __init__(self, kind, text):
        self.kind = kind          # call goto switch return drop assert unreachable resume other
        self.text = text
        self.callee = None
        self.args = []
        self.dest = None
        self.targets = []         # [(label, bb)]
        self.discr = None


class Block:
    def __init__(self, idx, cleanup=False):
        self.idx = idx
        self.cleanup = cleanup
        self.stmts = []           # [(lhs, rhs, raw)]
        self.term = None
        self.succs = []
        self.preds = []


class Body:
    def __init__(self, name, sig, line):
        self.name = name
        self.sig = sig
        self.line = line
        self.locals = {}          # _n -> type
        self.debug = {}           # source name -> _n
        self.blocks = {}
        self.params = []
        self.span = None          # (file, line) of impl if present in name

    def __repr__(self):
        return f"Body({self.name})"


_FN = re.compile(r"^fn (.+?)\((.*)\)(?: -> (.*))? \{$")
_LET = re.compile(r"^\s+let (?:mut )?(_\d+): (.*);$")
_DEBUG = re.compile(r"^\s+debug (\S+) => (.*);$")
_BB = re.compile(r"^\s+bb(\d+)( \(cleanup\))?: \{$")
_CALL = re.compile(r"^(.*?) = (.+?)\((.*)\) -> (.*);$")
_CALL_NORET = re.compile(r"^(.*?) = (.+?)\((.*)\) -> (unwind .*);$")


def split_args(s):
    out, depth, cur = [], 0, ""
    for ch in s:
        if ch in "([{<":
            depth += 1
        elif ch in ")]}>":
            depth -= 1
        if ch == "," and depth == 0:
            out.append(cur.strip())
            cur = ""
        else:
            cur += ch
    if cur.strip():
        out.append(cur.strip())
    return out


def parse_targets(s):
    """'[return: bb1, unwind: bb8]' or 'bb3' or '[0: bb4, 1: bb5, otherwise: bb3]'"""
    out = []
    s = s.strip()
    if s.startswith("["):
        s = s[1:s.rindex("]")]
        for part in split_args(s):
            if ":" in part:
                lab, tgt = part.split(":", 1)
                m = re.search(r"bb(\d+)", tgt)
                if m:
                    out.append((lab.strip(), int(m.group(1))))
    else:
        m = re.match(r"bb(\d+)", s)
        if m:
            out.append(("goto", int(m.group(1))))
    return out


def parse(text):
    bodies = []
    cur = None
    blk = None
    lines = text.split("\n")
    i = 0
    n = len(lines)
    while i < n:
        ln = lines[i]
        if cur is None:
            m = _FN.match(ln)
            if m:
                cur = Body(m.group(1), ln, i + 1)
                cur.params = [p.split(":")[0].strip() for p in split_args(m.group(2))]
                cur.ret = m.group(3)
            i += 1
            continue
        if ln == "}":
            bodies.append(cur)
            cur = None
            blk = None
            i += 1
            continue
        m = _LET.match(ln)
        if m and blk is None:
            cur.locals[m.group(1)] = m.group(2)
            i += 1
            continue
        m = _DEBUG.match(ln)
        if m:
            cur.debug[m.group(1)] = m.group(2)
            i += 1
            continue
        m = _BB.match(ln)
        if m:
            blk = Block(int(m.group(1)), bool(m.group(2)))
            cur.blocks[blk.idx] = blk
            i += 1
            continue
        if blk is not None:
            s = ln.strip()
            if s == "}":
                blk = None
                i += 1
                continue
            if not s:
                i += 1
                continue
            # multi-line statements (rare): join until ';'
            while not s.endswith(";") and i + 1 < n and not s.endswith("{"):
                i += 1
                s += " " + lines[i].strip()
            _stmt(cur, blk, s)
        i += 1
    for b in bodies:
        for blk in b.blocks.values():
            if blk.term:
                blk.succs = [t for _, t in blk.term.targets]
        for blk in b.blocks.values():
            for s in blk.succs:
                if s in b.blocks:
                    b.blocks[s].preds.append(blk.idx)
    return bodies


def _stmt(body, blk, s):
    if s.startswith(("StorageLive", "StorageDead", "FakeRead", "PlaceMention", "AscribeUserType", "Coverage", "nop",
                     "ConstEvalCounter", "Retag", "BackwardIncompatibleDropHint")):
        return
    if s == "return;":
        blk.term = Term("return", s)
        return
    if s == "unreachable;":
        blk.term = Term("unreachable", s)
        return
    if s.startswith("resume") or s.startswith("terminate"):
        blk.term = Term("resume", s)
        return
    if s.startswith("goto -> "):
        t = Term("goto", s)
        t.targets = parse_targets(s[len("goto -> "):-1])
        blk.term = t
        return
    if s.startswith("switchInt("):
        t = Term("switch", s)
        inner = s[len("switchInt("):s.index(") -> ")]
        t.discr = inner.replace("move ", "").replace("copy ", "").strip()
        t.targets = parse_targets(s[s.index(") -> ") + 5:-1])
        blk.term = t
        return
    if s.startswith("drop("):
        t = Term("drop", s)
        t.targets = parse_targets(s[s.index(") -> ") + 5:-1])
        blk.term = t
        return
    if s.startswith("assert("):
        t = Term("assert", s)
        t.targets = parse_targets(s[s.rindex(" -> ") + 4:-1])
        blk.term = t
        return
    if s.startswith("falseEdge") or s.startswith("falseUnwind"):
        t = Term("goto", s)
        t.targets = parse_targets(s[s.index("->") + 2:-1])[:1]
        blk.term = t
        return
    if " -> " in s and " = " in s and s.endswith(";"):
        head, tg = s[:-1].rsplit(" -> ", 1)
        if (tg.startswith("[") or tg.startswith("unwind") or tg.startswith("bb")) and head.endswith(")"):
            lhs, rest = head.split(" = ", 1)
            # the argument list is the last balanced (...) group of `rest`
            depth = 0
            j = len(rest) - 1
            while j >= 0:
                ch = rest[j]
                if ch == ")":
                    depth += 1
                elif ch == "(":
                    depth -= 1
                    if depth == 0:
                        break
                j -= 1
            if j > 0:
                t = Term("call", s)
                t.dest = lhs.strip()
                t.callee = rest[:j].strip()
                t.args = split_args(rest[j + 1:-1])
                t.targets = parse_targets(tg) if tg.startswith("[") else []
                blk.term = t
                return
    if " = " in s:
        lhs, rhs = s[:-1].split(" = ", 1)
        blk.stmts.append((lhs.strip(), rhs.strip(), s))
        return
    blk.stmts.append((None, None, s))


# ------------------------------------------------------------------------------------ analyses


def dominators(body, entry=0):
    blocks = body.blocks
    allb = set(blocks)
    dom = {b: set(allb) for b in blocks}
    dom[entry] = {entry}
    changed = True
    while changed:
        changed = False
        for b in blocks:
            if b == entry:
                continue
            preds = [p for p in blocks[b].preds]
            if not preds:
                new = {b}
            else:
                new = set.intersection(*[dom[p] for p in preds]) | {b}
            if new != dom[b]:
                dom[b] = new
                changed = True
    return dom


def reachable(body, start, avoid=()):
    seen = set()
    stack = [start]
    while stack:
        b = stack.pop()
        if b in seen or b in avoid or b not in body.blocks:
            continue
        seen.add(b)
        stack += body.blocks[b].succs
    return seen


_LOCAL = re.compile(r"_\d+")


def strip_op(x):
    x = x.strip()
    changed = True
    while changed:
        changed = False
        for p in ("move ", "copy ", "no_retag ", "const "):
            if x.startswith(p):
                x = x[len(p):].strip()
                changed = True
    return x


def origins(body):
    """For each local: a symbolic description of where its value comes from, following
    moves, copies, reborrows and projections.  Calls create 'call<callee>@bbN(args)' nodes."""
    org = {}
    for p in body.params:
        org[p] = f"param{p}"
    # iterate to a fixpoint over assignments (MIR before optimisation is close to SSA for temporaries)
    defs = {}
    for b in body.blocks.values():
        for lhs, rhs, raw in b.stmts:
            if lhs and re.fullmatch(r"_\d+", lhs):
                defs.setdefault(lhs, []).append((b.idx, rhs))
        t = b.term
        if t and t.kind == "call" and t.dest and re.fullmatch(r"_\d+", t.dest):
            defs.setdefault(t.dest, []).append((b.idx, ("call", t)))

    def resolve(expr, depth=0):
        if depth > 30:
            return "?"
        expr = strip_op(expr)
        m = re.fullmatch(r"_\d+", expr)
        if m:
            return of(expr, depth + 1)
        m = re.fullmatch(r"&(?:mut )?(?:raw )?\(\*(_\d+)\)", expr)
        if m:
            return of(m.group(1), depth + 1)
        m = re.fullmatch(r"\(\*(_\d+)\)", expr)
        if m:
            return "deref(" + of(m.group(1), depth + 1) + ")"
        m = re.fullmatch(r"&(?:mut )?(_\d+)", expr)
        if m:
            return "ref(" + of(m.group(1), depth + 1) + ")"
        m = re.fullmatch(r"\(\((_\d+) as (\w+)\)\.(\d+): .*\)", expr)
        if m:
            return of(m.group(1), depth + 1) + f" as {m.group(2)}.{m.group(3)}"
        m = re.fullmatch(r"\((_\d+)\.(\d+): .*\)", expr)
        if m:
            return of(m.group(1), depth + 1) + f".{m.group(2)}"
        if depth < 12 and _LOCAL.search(expr):
            return "expr(" + _LOCAL.sub(lambda mm: of(mm.group(0), depth + 2), expr) + ")"
        return "expr(" + expr + ")"

    def of(local, depth=0):
        if local in org:
            return org[local]
        ds = defs.get(local, [])
        if not ds:
            org[local] = f"undef{local}"
            return org[local]
        org[local] = "..."      # cycle guard
        outs = []
        for bidx, rhs in ds:
            if isinstance(rhs, tuple):
                t = rhs[1]
                args = ",".join(resolve(a, depth + 1) for a in t.args)
                outs.append(f"call<{t.callee}>@bb{bidx}({args})")
            else:
                outs.append(resolve(rhs, depth + 1))
        res = outs[0] if len(set(outs)) == 1 else "phi[" + " | ".join(sorted(set(outs))) + "]"
        org[local] = res
        return res

    for l in list(body.locals) + body.params:
        of(l)
    org["__resolve"] = resolve
    return org


def calls(body):
    out = []
    for b in body.blocks.values():
        t = b.term
        if t and t.kind == "call":
            out.append((b.idx, t))
    return out


def find(bodies, suffix):
    return [b for b in bodies if b.name == suffix or b.name.endswith("::" + suffix) or b.name.endswith(suffix)]
