"""Reference model of doc/reference.md over the independent PDL model (pdl.py):
group inlining, wire layout, enum value sets, inheritance, static sizes.
Nothing here reads /repo's analyzer output."""
from . import pdl
from .pdl import Field, Decl, Enum


class RefError(Exception):
    pass


class Ref:
    def __init__(self, file: pdl.File):
        self.file = file
        self.enums = {d.name: d for d in file.decls if isinstance(d, Enum)}
        self.decls = {d.name: d for d in file.decls if isinstance(d, Decl)}
        self.big = file.endianness == "big"
        self._inlined = {}
        self._size = {}

    # ------------------------------------------------------------------ groups
    def inlined(self, name):
        """Fields of packet/struct `name` with groups expanded (constrained scalar ->
        fixed_scalar, constrained enum typedef -> fixed_enum)."""
        if name in self._inlined:
            return self._inlined[name]
        d = self.decls[name]
        out = self._inline(d.fields, {})
        self._inlined[name] = out
        return out

    def _inline(self, fields, constraints):
        out = []
        for f in fields:
            if f.kind == "group":
                g = self.decls.get(f.type)
                if g is None or g.kind != "group":
                    raise RefError(f"unknown group {f.type}")
                cs = dict(constraints)
                cs.update(f.constraints)
                out += self._inline(g.fields, cs)
            elif f.kind == "scalar" and f.name in constraints and isinstance(constraints[f.name], int):
                out.append(Field("fixed_scalar", width=f.width, value=constraints[f.name]))
            elif f.kind == "typedef" and f.name in constraints and f.type in self.enums:
                out.append(Field("fixed_enum", type=f.type, value=constraints[f.name]))
            else:
                out.append(f)
        return out

    # ------------------------------------------------------------------ enums
    def tag_value(self, enum_name, tag):
        e = self.enums[enum_name]
        for t in e.tags:
            if t.name == tag and t.value is not None:
                return t.value
            for s in t.subtags:
                if s.name == tag:
                    return s.value
        raise RefError(f"no tag {enum_name}::{tag}")

    def enum_table(self, name):
        """Reference conversion function of an enum: a list of disjoint closed intervals
        (lo, hi, tag_name, carries_value) covering exactly the accepted integers."""
        e = self.enums[name]
        mx = (1 << e.width) - 1
        named = []     # (value, name)
        ranges = []    # (lo, hi, name)
        default = None
        for t in e.tags:
            if t.default:
                default = t.name
            elif t.lo is not None:
                ranges.append((t.lo, t.hi, t.name))
                for s in t.subtags:
                    named.append((s.value, s.name))
            else:
                named.append((t.value, t.name))
        pts = sorted(named)
        out = []
        for v, n in pts:
            out.append((v, v, n, False))
        named_vals = {v for v, _ in pts}
        for lo, hi, n in ranges:
            cur = lo
            for v in sorted(x for x in named_vals if lo <= x <= hi):
                if cur <= v - 1:
                    out.append((cur, v - 1, n, True))
                cur = v + 1
            if cur <= hi:
                out.append((cur, hi, n, True))
        out.sort()
        if default is not None:
            # fill the holes up to 2^w - 1 with the default tag
            filled = []
            cur = 0
            for lo, hi, n, c in out:
                if cur <= lo - 1:
                    filled.append((cur, lo - 1, default, True))
                filled.append((lo, hi, n, c))
                cur = hi + 1
            if cur <= mx:
                filled.append((cur, mx, default, True))
            out = filled
        return out

    def enum_max(self, name):
        return (1 << self.enums[name].width) - 1

    # ------------------------------------------------------------------ widths / sizes
    def field_width(self, f):
        """bit width when the field is a bit-field, else None"""
        k = f.kind
        if f.cond is not None:
            return None
        if k in ("scalar", "reserved", "size", "count", "elementsize", "fixed_scalar"):
            return f.width
        if k == "fixed_enum":
            return self.enums[f.type].width
        if k == "typedef" and f.type in self.enums:
            return self.enums[f.type].width
        return None

    def is_bitfield(self, f):
        return self.field_width(f) is not None

    def parent_chain(self, name):
        out = []
        d = self.decls[name]
        while d.parent:
            d = self.decls[d.parent]
            out.append(d.name)
        return out

    def children(self, name):
        return [d.name for d in self.file.decls if isinstance(d, Decl) and d.parent == name]

    def all_constraints(self, name):
        """constraints of name and its ancestors (nearest wins)"""
        cs = {}
        for n in reversed([name] + self.parent_chain(name)):
            cs.update(self.decls[n].constraints)
        return cs

    def elem_static_bytes(self, f):
        """static octet size of one array element, or None"""
        if f.width is not None:
            return f.width // 8
        if f.type in self.enums:
            return self.enums[f.type].width // 8
        d = self.decls.get(f.type)
        if d is None:
            return None
        if d.kind == "custom":
            return d.width // 8 if d.width is not None else None
        s = self.total_static_bits(f.type)
        return s // 8 if s is not None else None

    def own_static_bits(self, name, with_payload=False):
        """static size in bits of the fields declared by `name` itself (payload counted as 0
        when with_payload is False -> None if dynamic)."""
        tot = 0
        fs = self.inlined(name)
        for i, f in enumerate(fs):
            k = f.kind
            if f.cond is not None:
                return None
            w = self.field_width(f)
            if w is not None:
                tot += w
            elif k in ("payload", "body"):
                if not with_payload:
                    continue
                return None
            elif k == "padding":
                continue
            elif k == "array":
                nxt = fs[i + 1] if i + 1 < len(fs) else None
                if nxt is not None and nxt.kind == "padding":
                    tot += nxt.value * 8
                    continue
                es = self.elem_static_bytes(f)
                if f.count is not None and es is not None:
                    tot += f.count * es * 8
                else:
                    return None
            elif k == "typedef":
                d = self.decls.get(f.type)
                if d is None:
                    raise RefError(f"unknown type {f.type}")
                if d.kind in ("custom", "checksum"):
                    if d.width is None:
                        return None
                    tot += d.width
                else:
                    s = self.total_static_bits(f.type)
                    if s is None:
                        return None
                    tot += s
            elif k == "checksum_start":
                continue
            else:
                raise RefError(f"field kind {k}")
        return tot

    def has_payload(self, name):
        return any(f.kind in ("payload", "body") for f in self.inlined(name))

    def total_static_bits(self, name):
        """static size of a complete encoding of `name` (including inherited parent fields);
        None if any part is dynamic or open ended."""
        key = ("total", name)
        if key in self._size:
            return self._size[key]
        self._size[key] = None    # recursion guard
        d = self.decls[name]
        own = self.own_static_bits(name)
        res = None
        if own is not None and not self.has_payload(name):
            tot = own
            ok = True
            for p in self.parent_chain(name):
                po = self.own_static_bits(p)
                if po is None:
                    ok = False
                    break
                tot += po
            if ok:
                res = tot
        self._size[key] = res
        return res

    # ------------------------------------------------------------------ layout
    def layout(self, name):
        """Wire layout of the fields declared by `name` (groups inlined)."""
        fs = self.inlined(name)
        flags = {}
        for f in fs:
            if f.cond is not None:
                flags.setdefault(f.cond[0], []).append((f.name, f.cond[1]))
        items = []
        chunk = []
        shift = 0
        i = 0
        # payload delimitation
        size_targets = {f.target: f for f in fs if f.kind == "size"}
        count_targets = {f.target: f for f in fs if f.kind == "count"}
        es_targets = {f.target: f for f in fs if f.kind == "elementsize"}

        def flush():
            nonlocal chunk, shift
            if shift % 8 != 0:
                raise RefError(f"{name}: bit-field group of {shift} bits does not end on a byte boundary")
            if chunk:
                items.append({"k": "chunk", "n": shift // 8, "fields": chunk})
            chunk = []
            shift = 0

        while i < len(fs):
            f = fs[i]
            k = f.kind
            w = self.field_width(f)
            if w is not None:
                bf = {"shift": shift, "width": w}
                if k == "scalar":
                    if f.name in flags:
                        bf.update(k="flag", name=f.name, opt=sorted(flags[f.name]))
                    else:
                        bf.update(k="scalar", name=f.name)
                elif k == "typedef":
                    bf.update(k="enum", name=f.name, type=f.type)
                elif k == "reserved":
                    bf.update(k="reserved")
                elif k == "fixed_scalar":
                    bf.update(k="fixed", value=f.value)
                elif k == "fixed_enum":
                    bf.update(k="fixed", value=self.tag_value(f.type, f.value), type=f.type, tag=f.value)
                elif k == "size":
                    mod = 0
                    tgt = f.target
                    for g in fs:
                        if g.kind == "payload" and tgt == "_payload_" and g.size_modifier:
                            mod = g.size_modifier
                        if g.kind == "array" and g.name == tgt and g.size_modifier:
                            mod = g.size_modifier
                    bf.update(k="size", target=tgt, mod=mod)
                elif k == "count":
                    bf.update(k="count", target=f.target)
                elif k == "elementsize":
                    bf.update(k="elemsize", target=f.target)
                chunk.append(bf)
                shift += w
                if shift % 8 == 0:
                    flush()
                i += 1
                continue
            if shift != 0:
                raise RefError(f"{name}: field {f.name or k} does not start on a byte boundary")
            if f.cond is not None:
                if k == "scalar":
                    inner = {"k": "scalar", "w": f.width}
                elif k == "typedef" and f.type in self.enums:
                    inner = {"k": "enum", "type": f.type, "w": self.enums[f.type].width}
                else:
                    inner = {"k": "struct", "type": f.type}
                items.append({"k": "optional", "name": f.name, "flag": f.cond[0], "value": f.cond[1], "inner": inner})
            elif k == "array":
                if f.width is not None:
                    elem = {"k": "scalar", "w": f.width}
                elif f.type in self.enums:
                    elem = {"k": "enum", "type": f.type, "w": self.enums[f.type].width}
                else:
                    d = self.decls.get(f.type)
                    elem = {"k": "custom" if d is not None and d.kind == "custom" else "struct", "type": f.type}
                if f.count is not None:
                    shape = {"k": "static", "n": f.count}
                elif f.name in count_targets:
                    shape = {"k": "count", "f": f.name}
                elif f.name in size_targets:
                    shape = {"k": "size", "f": f.name, "mod": f.size_modifier or 0}
                else:
                    shape = {"k": "rest"}
                pad = None
                if i + 1 < len(fs) and fs[i + 1].kind == "padding":
                    pad = fs[i + 1].value
                items.append({"k": "array", "name": f.name, "elem": elem, "shape": shape, "pad": pad,
                              "elemsize": f.name in es_targets, "elem_bytes": self.elem_static_bytes(f)})
            elif k == "padding":
                pass
            elif k in ("payload", "body"):
                tgt = "_payload_" if k == "payload" else "_body_"
                if tgt in size_targets:
                    shape = {"k": "size", "mod": f.size_modifier or 0}
                else:
                    # open ended: everything but the static tail
                    tail = 0
                    ok = True
                    j = i + 1
                    while j < len(fs):
                        g = fs[j]
                        gw = self.field_width(g)
                        if gw is not None:
                            tail += gw
                        elif g.kind == "array" and j + 1 < len(fs) and fs[j + 1].kind == "padding":
                            tail += fs[j + 1].value * 8
                        elif g.kind == "padding":
                            pass
                        elif g.kind == "array" and g.count is not None and self.elem_static_bytes(g) is not None:
                            tail += g.count * self.elem_static_bytes(g) * 8
                        elif g.kind == "typedef" and g.cond is None:
                            d = self.decls.get(g.type)
                            s = (d.width if d is not None and d.kind in ("custom", "checksum") else
                                 self.total_static_bits(g.type))
                            if s is None:
                                ok = False
                            else:
                                tail += s
                        else:
                            ok = False
                        j += 1
                    shape = {"k": "rest", "tail": tail // 8} if ok else {"k": "unknown"}
                items.append({"k": "payload", "shape": shape, "body": k == "body"})
            elif k == "typedef":
                d = self.decls.get(f.type)
                if d is None:
                    raise RefError(f"unknown type {f.type}")
                if d.kind == "custom":
                    items.append({"k": "typedef", "name": f.name, "type": f.type, "tk": "custom", "w": d.width})
                elif d.kind == "checksum":
                    items.append({"k": "typedef", "name": f.name, "type": f.type, "tk": "checksum", "w": d.width})
                else:
                    items.append({"k": "typedef", "name": f.name, "type": f.type, "tk": "struct",
                                  "static": self.total_static_bits(f.type)})
            elif k == "checksum_start":
                items.append({"k": "checksum_start", "target": f.target})
            else:
                raise RefError(f"field kind {k}")
            i += 1
        if shift != 0:
            raise RefError(f"{name}: trailing bit-field group of {shift} bits")
        return items

    def full_layout(self, name):
        """Layout of a complete encoding of `name`: the root ancestor's items with each
        payload replaced by the next descendant's items; constrained parent fields become
        fixed values."""
        chain = list(reversed(self.parent_chain(name))) + [name]
        cs = self.all_constraints(name)

        def build(idx):
            items = []
            for it in self.layout(chain[idx]):
                if it["k"] == "payload" and idx + 1 < len(chain):
                    items.append({"k": "child", "shape": it["shape"], "items": build(idx + 1), "decl": chain[idx + 1]})
                elif it["k"] == "chunk":
                    fields = []
                    for bf in it["fields"]:
                        if bf["k"] in ("scalar", "enum") and bf["name"] in cs and idx + 1 < len(chain):
                            v = cs[bf["name"]]
                            if bf["k"] == "enum":
                                nb = {"k": "fixed", "shift": bf["shift"], "width": bf["width"],
                                      "value": self.tag_value(bf["type"], v), "type": bf["type"], "tag": v,
                                      "constraint": bf["name"]}
                            else:
                                nb = {"k": "fixed", "shift": bf["shift"], "width": bf["width"], "value": v,
                                      "constraint": bf["name"]}
                            fields.append(nb)
                        else:
                            fields.append(bf)
                    items.append({"k": "chunk", "n": it["n"], "fields": fields})
                else:
                    items.append(it)
            return items

        return build(0)

    def packets(self):
        return [d.name for d in self.file.decls if isinstance(d, Decl) and d.kind in ("packet", "struct")]
