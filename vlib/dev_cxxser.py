import sys, os
from vlib import cxxast, cxxmod, rslayout, sym
d, idx = cxxast.stage_cxx("quick", 0)
name = sys.argv[1]; only = sys.argv[2:]
cx = cxxmod.Cxx(os.path.join(d, name + ".json"), name)
print("statics", cx.statics())
views, builders, structs = cx.kinds()
for decl, c in list(structs.items()) + list(builders.items()):
    if only and decl not in only: continue
    try:
        ev = cx.eval_serialize(c)
        sz = cx.eval_getsize(c)
    except Exception as e:
        import traceback; traceback.print_exc(); print("EXC", decl); continue
    if ev is None: continue
    bad = [o for o in ev.obls if not o.ok] + [o for o in (sz.obls if sz else []) if not o.ok]
    print(f"== {decl}: skipped={ev.was_skipped} size={sz.size_value if sz else None}")
    for o in bad: print("   ", o)
    for it in ev.items:
        d2 = {k: v for k, v in it.items() if k not in ("his", "keys", "env", "enum_fields", "api")}
        if "bits" in d2:
            bs = d2.pop("bits"); d2["bits"] = [b for i, b in enumerate(bs) if i == 0 or (bs[i-1][:2] if isinstance(bs[i-1], tuple) else bs[i-1]) != (b[:2] if isinstance(b, tuple) else b)]
        if "elem" in d2 and isinstance(d2["elem"], dict): d2["elem"] = {k: v for k, v in d2["elem"].items() if k in ("k","n","order","type","static")}
        print("    ", str(d2)[:300])
