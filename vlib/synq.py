"""Structural queries over syn2json trees."""


def walk(n, fn, parent=None):
    if isinstance(n, dict):
        fn(n, parent)
        for v in n.values():
            if isinstance(v, (dict, list)):
                walk(v, fn, n)
    elif isinstance(n, list):
        for v in n:
            walk(v, fn, parent)


def find_all(n, pred):
    out = []
    walk(n, lambda x, p: out.append(x) if pred(x) else None)
    return out


def functions(tree):
    """{qualified name: fn json}: free fns, impl methods (Type::name / <Trait for Type>::name), nested fns,
    and fns inside inline modules (mod::name)."""
    out = {}

    def items(its, prefix):
        for it in its:
            k = it.get("k")
            if k == "Fn":
                out[prefix + it["name"]] = it
                nested(it, prefix + it["name"] + "::")
            elif k == "Impl":
                st = it["self_ty"].replace(" ", "")
                tr = it["trait"]["full"].replace(" ", "") if it.get("trait") else None
                for f in it["items"]:
                    if f.get("k") == "Fn":
                        nm = f"{st}::{f['name']}"
                        out[prefix + nm] = f
                        if tr:
                            out[prefix + f"<{tr} for {st}>::{f['name']}"] = f
                        nested(f, prefix + nm + "::")
            elif k == "Mod" and "items" in it:
                items(it["items"], prefix + it["name"] + "::")
            elif k == "Trait":
                for f in it["items"]:
                    if f.get("k") == "Fn" and f.get("body") is not None:
                        out[prefix + f"{it['name']}::{f['name']}"] = f

    def nested(fn, prefix):
        def visit(stmts):
            for s in stmts or []:
                if isinstance(s, dict) and s.get("k") == "Fn":
                    out[prefix + s["name"]] = s
                    nested(s, prefix + s["name"] + "::")
        body = fn.get("body")
        if isinstance(body, list):
            visit(body)

    items(tree["items"], "")
    return out


def match_arms(fn_or_node):
    """all Match nodes in a subtree"""
    return find_all(fn_or_node, lambda x: x.get("k") == "Match")


def pat_paths(p, out=None):
    """all path strings mentioned in a pattern (or-patterns, tuple structs, struct patterns)"""
    if out is None:
        out = []
    k = p.get("k")
    if k in ("PPath", "PTupleStruct", "PStruct"):
        out.append(p["path"]["s"])
    for key in ("cases", "elems"):
        for c in p.get(key, []) or []:
            pat_paths(c, out)
    if k == "PStruct":
        for f in p.get("fields", []):
            pat_paths(f["pat"], out)
    if k in ("PRef", "PType", "PIdent") and p.get("pat"):
        pat_paths(p["pat"], out)
    if k == "PIdent" and p.get("sub"):
        pat_paths(p["sub"], out)
    return out


def paths_in(n):
    """all expression/pattern path strings in a subtree"""
    out = []

    def f(x, p):
        k = x.get("k")
        if k in ("Path", "PPath", "PTupleStruct", "PStruct", "Struct"):
            out.append(x["path"]["s"])
    walk(n, f)
    return out


def method_calls(n, name=None):
    return find_all(n, lambda x: x.get("k") == "MethodCall" and (name is None or x["method"] == name))


def calls(n, path_suffix=None):
    def pred(x):
        if x.get("k") != "Call" or x["func"].get("k") != "Path":
            return False
        return path_suffix is None or x["func"]["path"]["s"].endswith(path_suffix)
    return find_all(n, pred)


def str_lits(n):
    return [x["v"] for x in find_all(n, lambda x: x.get("k") == "Lit" and x.get("ty") == "str")]


def macros(n, name=None):
    return find_all(n, lambda x: x.get("k") == "Macro" and (name is None or x["path"] == name))


# ------------------------------------------------------------------------------------ skeletons
NOOP_METHODS = {"clone", "to_owned", "as_ref", "iter", "copied", "cloned", "as_str", "to_string", "into", "borrow",
                "as_deref", "into_iter", "by_ref", "as_mut"}
FLIP = {">": "<", ">=": "<="}


def pat_skel(p):
    k = p.get("k")
    if k == "PIdent":
        if p["id"] in ("None",) or p["id"][:1].isupper():
            return p["id"]          # unit variants / constants parse as identifiers
        return "_" if not p.get("sub") else pat_skel(p["sub"])
    if k == "PWild" or k == "PRest":
        return "_"
    if k == "PLit":
        l = p["lit"]
        return repr(l.get("v"))
    if k == "PPath":
        return p["path"]["s"]
    if k == "PTupleStruct":
        return p["path"]["s"] + "(" + ",".join(pat_skel(e) for e in p["elems"]) + ")"
    if k == "PStruct":
        fs = []
        for f in p["fields"]:
            s = pat_skel(f["pat"])
            if s != "_":
                fs.append(f"{f['name']}:{s}")
        return p["path"]["s"] + "{" + ",".join(sorted(fs)) + "}"
    if k == "POr":
        return "|".join(pat_skel(c) for c in p["cases"])
    if k == "PTuple":
        return "(" + ",".join(pat_skel(e) for e in p["elems"]) + ")"
    if k in ("PRef", "PType"):
        return pat_skel(p["pat"])
    if k == "PRange":
        return (expr_skel(p["lo"]) if "lo" in p else "") + ("..=" if p.get("closed") else "..") + \
               (expr_skel(p["hi"]) if "hi" in p else "")
    if k == "PSlice":
        return "[" + ",".join(pat_skel(e) for e in p["elems"]) + "]"
    return k or "?"


def expr_skel(e):
    if e is None:
        return ""
    k = e.get("k")
    if k == "Path":
        p = e["path"]
        return "_" if len(p["segs"]) == 1 and p["s"][:1].islower() else p["s"]
    if k == "Lit":
        return repr(e.get("v"))
    if k in ("Paren", "Ref", "Group"):
        return expr_skel(e["e"])
    if k == "Unary":
        if e["op"] == "*":
            return expr_skel(e["e"])
        return e["op"] + expr_skel(e["e"])
    if k == "Cast":
        return expr_skel(e["e"])
    if k == "Field":
        return expr_skel(e["base"]) + "." + e["member"]
    if k == "MethodCall":
        r = expr_skel(e["recv"])
        if e["method"] in NOOP_METHODS and not e["args"]:
            return r
        return r + "." + e["method"] + "(" + ",".join(expr_skel(a) for a in e["args"]) + ")"
    if k == "Call":
        return expr_skel(e["func"]) if e["func"].get("k") != "Path" else \
            e["func"]["path"]["s"] + "(" + ",".join(expr_skel(a) for a in e["args"]) + ")"
    if k == "Binary":
        op = e["op"]
        a, b = expr_skel(e["lhs"]), expr_skel(e["rhs"])
        if op in FLIP:
            op, a, b = FLIP[op], b, a
        if op in ("&&", "||", "==", "!=", "+", "*", "|", "&"):
            a, b = sorted([a, b])
        return f"({a} {op} {b})"
    if k == "Range":
        return (expr_skel(e["lo"]) if "lo" in e else "") + ("..=" if e.get("closed") else "..") + \
               (expr_skel(e["hi"]) if "hi" in e else "")
    if k == "Macro":
        if e["path"] in ("matches",):
            return "matches!(" + _tok_skel(e["tokens"]) + ")"
        if e["path"] in ("format", "vec", "println", "unreachable", "todo", "panic"):
            return e["path"] + "!"
        return e["path"] + "!(" + _tok_skel(e["tokens"]) + ")"
    if k == "Closure":
        return "|" + ",".join(pat_skel(p) for p in e["params"]) + "|" + expr_skel(e["body"])
    if k == "Match":
        return "match " + expr_skel(e["e"]) + "{" + ";".join(
            pat_skel(a["pat"]) + ("?" + expr_skel(a["guard"]) if a.get("guard") else "") + "=>" + expr_skel(a["body"])
            for a in e["arms"]) + "}"
    if k == "If":
        return "if " + expr_skel(e["cond"]) + "{" + block_skel(e["then"]) + "}" + \
               ("else{" + expr_skel(e["else"]) + "}" if "else" in e else "")
    if k == "LetCond":
        return "let " + pat_skel(e["pat"]) + "=" + expr_skel(e["e"])
    if k == "Block":
        return "{" + block_skel(e["stmts"]) + "}"
    if k == "Tuple":
        return "(" + ",".join(expr_skel(x) for x in e["elems"]) + ")"
    if k == "Struct":
        return e["path"]["s"] + "{..}"
    if k == "Index":
        return expr_skel(e["base"]) + "[" + expr_skel(e["index"]) + "]"
    if k == "Try":
        return expr_skel(e["e"]) + "?"
    if k == "Return":
        return "return " + expr_skel(e.get("e"))
    if k == "Array":
        return "[" + ",".join(expr_skel(x) for x in e["elems"]) + "]"
    if k == "Assign":
        return expr_skel(e["lhs"]) + "=" + expr_skel(e["rhs"])
    return k or "?"


def block_skel(stmts):
    out = []
    for s in stmts:
        if s.get("k") == "ExprStmt":
            out.append(expr_skel(s["e"]))
        elif s.get("k") == "Let":
            out.append("let " + pat_skel(s["pat"]) + "=" + expr_skel(s.get("init")))
    return ";".join(out)


def _tok_skel(t):
    import re
    t = re.sub(r"\s+", "", t)
    # local identifiers (lower-case, not followed by ::, ( or :) -> _
    return re.sub(r"(?<![\w:.])([a-z_][a-z0-9_]*)(?![\w:(]|::)", lambda m: m.group(0) if m.group(1) in ("matches",) else "_", t)


def guard_chains(fn, want):
    """For every node satisfying want(node) inside fn: the list of enclosing conditions
    (skeletons) from the function root. Returns [(node, [ctx...])]."""
    out = []

    def visit(n, ctx):
        if isinstance(n, list):
            for x in n:
                visit(x, ctx)
            return
        if not isinstance(n, dict):
            return
        k = n.get("k")
        if want(n):
            out.append((n, list(ctx)))
        if k == "If":
            c = n["cond"]
            if c.get("k") == "LetCond":
                visit(c["e"], ctx)
                cs = "if let " + pat_skel(c["pat"]) + " = " + expr_skel(c["e"])
            else:
                visit(c, ctx)
                cs = "if " + expr_skel(c)
            visit(n["then"], ctx + [cs])
            if "else" in n:
                visit(n["else"], ctx + ["else-of " + cs])
            return
        if k == "Match":
            visit(n["e"], ctx)
            prev = []
            for a in n["arms"]:
                ps = pat_skel(a["pat"]) + (" if " + expr_skel(a["guard"]) if a.get("guard") else "")
                head = "match " + expr_skel(n["e"]) + " { after[" + ";".join(prev) + "] arm " + ps + " }"
                if a.get("guard"):
                    visit(a["guard"], ctx)
                visit(a["body"], ctx + [head])
                prev.append(ps)
            return
        if k == "For":
            visit(n["iter"], ctx)
            visit(n["body"], ctx + ["for " + pat_skel(n["pat"]) + " in " + expr_skel(n["iter"])])
            return
        if k == "While":
            visit(n["cond"], ctx)
            visit(n["body"], ctx + ["while " + expr_skel(n["cond"])])
            return
        if k == "Closure":
            visit(n["body"], ctx + ["closure"])
            return
        if k == "Fn":
            return      # nested fns are handled as separate functions
        for key, v in n.items():
            if isinstance(v, (dict, list)):
                visit(v, ctx)

    visit(fn.get("body"), [])
    return out
