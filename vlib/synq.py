"""Structural queries over syn2json trees."""


def walk(n, fn, parent=None):
    if isinstance(n, dict):
        fn(n, parent)
        for v in n.values():
            if isinstance(v, (dict, list)):
                walk(v, fn, n)
    elif isinstance(n, list):
        for v in n:
            walk(v, fn, parent)


def find_all(n, pred):
    out = []
    walk(n, lambda x, p: out.append(x) if pred(x) else None)
    return out


def functions(tree):
    """{qualified name: fn json}: free fns, impl methods (Type::name / <Trait for Type>::name), nested fns,
    and fns inside inline modules (mod::name)."""
    out = {}

    def items(its, prefix):
        for it in its:
            k = it.get("k")
            if k == "Fn":
                out[prefix + it["name"]] = it
                nested(it, prefix + it["name"] + "::")
            elif k == "Impl":
                st = it["self_ty"].replace(" ", "")
                tr = it["trait"]["full"].replace(" ", "") if it.get("trait") else None
                for f in it["items"]:
                    if f.get("k") == "Fn":
                        nm = f"{st}::{f['name']}"
                        out[prefix + nm] = f
                        if tr:
                            out[prefix + f"<{tr} for {st}>::{f['name']}"] = f
                        nested(f, prefix + nm + "::")
            elif k == "Mod" and "items" in it:
                items(it["items"], prefix + it["name"] + "::")
            elif k == "Trait":
                for f in it["items"]:
                    if f.get("k") == "Fn" and f.get("body") is not None:
                        out[prefix + f"{it['name']}::{f['name']}"] = f

    def nested(fn, prefix):
        def visit(stmts):
            for s in stmts or []:
                if isinstance(s, dict) and s.get("k") == "Fn":
                    out[prefix + s["name"]] = s
                    nested(s, prefix + s["name"] + "::")
        body = fn.get("body")
        if isinstance(body, list):
            visit(body)

    items(tree["items"], "")
    return out


def match_arms(fn_or_node):
    """all Match nodes in a subtree"""
    return find_all(fn_or_node, lambda x: x.get("k") == "Match")


def pat_paths(p, out=None):
    """all path strings mentioned in a pattern (or-patterns, tuple structs, struct patterns)"""
    if out is None:
        out = []
    k = p.get("k")
    if k in ("PPath", "PTupleStruct", "PStruct"):
        out.append(p["path"]["s"])
    for key in ("cases", "elems"):
        for c in p.get(key, []) or []:
            pat_paths(c, out)
    if k == "PStruct":
        for f in p.get("fields", []):
            pat_paths(f["pat"], out)
    if k in ("PRef", "PType", "PIdent") and p.get("pat"):
        pat_paths(p["pat"], out)
    if k == "PIdent" and p.get("sub"):
        pat_paths(p["sub"], out)
    return out


def paths_in(n):
    """all expression/pattern path strings in a subtree"""
    out = []

    def f(x, p):
        import re
        k = x.get("k")
        if k in ("Path", "PPath", "PTupleStruct", "PStruct", "Struct"):
            out.append(x["path"]["s"])
        elif k == "Macro" and x.get("tokens"):
            # paths inside macro invocations (matches!(x, A::B { .. })) arrive as unparsed tokens
            out.extend(re.findall(r"\b[A-Za-z_]\w*(?:\s*::\s*[A-Za-z_]\w*)+", x["tokens"].replace(" ", "")))
    walk(n, f)
    return out


def method_calls(n, name=None):
    return find_all(n, lambda x: x.get("k") == "MethodCall" and (name is None or x["method"] == name))


def calls(n, path_suffix=None):
    def pred(x):
        if x.get("k") != "Call" or x["func"].get("k") != "Path":
            return False
        return path_suffix is None or x["func"]["path"]["s"].endswith(path_suffix)
    return find_all(n, pred)


def str_lits(n):
    import re
    out = [x["v"] for x in find_all(n, lambda x: x.get("k") == "Lit" and x.get("ty") == "str")]
    # string literals inside macro invocations (matches!, assert!, ...) arrive as unparsed tokens
    for m in find_all(n, lambda x: x.get("k") == "Macro" and x.get("tokens")):
        out += re.findall(r'"((?:[^"\\]|\\.)*)"', m["tokens"])
    return out


def macros(n, name=None):
    return find_all(n, lambda x: x.get("k") == "Macro" and (name is None or x["path"] == name))


# ------------------------------------------------------------------------------------ skeletons
NOOP_METHODS = {"clone", "to_owned", "as_ref", "iter", "copied", "cloned", "as_str", "to_string", "into", "borrow",
                "as_deref", "into_iter", "by_ref", "as_mut"}
FLIP = {">": "<", ">=": "<="}


LETS = {}             # name -> initialiser of the single immutable `let` of that name (set per function by guard_literals)
_LET_DEPTH = []
INLINE_METHODS = {}   # method name -> single-expression body; set only by rules that look at one impl block
INLINE_FNS = {}      # name -> the single expression that is the body of that function (set by guards.inventory)
_INLINING = []


def single_expression_fns(tree):
    """functions of a file whose body is one expression: candidates for inlining into skeletons"""
    out = {}
    for name, f in functions(tree).items():
        if name.startswith("test::") or name.startswith("<"):
            continue
        body = f.get("body") or []
        stmts = body if isinstance(body, list) else body.get("stmts", [])
        if len(stmts) == 1 and stmts[0].get("k") == "ExprStmt" and not stmts[0].get("semi"):
            short = name.split("::")[-1]
            if short in out:
                out[short] = None       # ambiguous
            else:
                out[short] = stmts[0]["e"]
    return {k: v for k, v in out.items() if v is not None}


def pat_skel(p):
    k = p.get("k")
    if k == "PIdent":
        if p["id"] in ("None",) or p["id"][:1].isupper():
            return p["id"]          # unit variants / constants parse as identifiers
        return "_" if not p.get("sub") else pat_skel(p["sub"])
    if k == "PWild" or k == "PRest":
        return "_"
    if k == "PLit":
        l = p["lit"]
        return repr(l.get("v"))
    if k == "PPath":
        return p["path"]["s"]
    if k == "PTupleStruct":
        return p["path"]["s"] + "(" + ",".join(pat_skel(e) for e in p["elems"]) + ")"
    if k == "PStruct":
        fs = []
        for f in p["fields"]:
            s = pat_skel(f["pat"])
            if s != "_":
                fs.append(f"{f['name']}:{s}")
        return p["path"]["s"] + "{" + ",".join(sorted(fs)) + "}"
    if k == "POr":
        return "|".join(pat_skel(c) for c in p["cases"])
    if k == "PTuple":
        return "(" + ",".join(pat_skel(e) for e in p["elems"]) + ")"
    if k in ("PRef", "PType"):
        return pat_skel(p["pat"])
    if k == "PRange":
        return (expr_skel(p["lo"]) if "lo" in p else "") + ("..=" if p.get("closed") else "..") + \
               (expr_skel(p["hi"]) if "hi" in p else "")
    if k == "PSlice":
        return "[" + ",".join(pat_skel(e) for e in p["elems"]) + "]"
    return k or "?"


def expr_skel(e):
    if e is None:
        return ""
    k = e.get("k")
    if k == "Path":
        p = e["path"]
        if len(p["segs"]) == 1 and p["s"] in LETS and len(_LET_DEPTH) < 4 and p["s"] not in _LET_DEPTH:
            # a local with a single, immutable definition stands for that definition
            _LET_DEPTH.append(p["s"])
            try:
                return expr_skel(LETS[p["s"]])
            finally:
                _LET_DEPTH.pop()
        return "_" if len(p["segs"]) == 1 and p["s"][:1].islower() else p["s"]
    if k == "Lit":
        return repr(e.get("v"))
    if k in ("Paren", "Ref", "Group"):
        return expr_skel(e["e"])
    if k == "Unary":
        if e["op"] == "*":
            return expr_skel(e["e"])
        return e["op"] + expr_skel(e["e"])
    if k == "Cast":
        return expr_skel(e["e"])
    if k == "Field":
        return expr_skel(e["base"]) + "." + e["member"]
    if k == "MethodCall":
        if e["method"] in INLINE_METHODS and not e["args"] and e["method"] not in _INLINING and len(_INLINING) < 4:
            # `self.helper()` with a single-expression helper of the same impl stands for that expression
            _INLINING.append(e["method"])
            try:
                return expr_skel(INLINE_METHODS[e["method"]])
            finally:
                _INLINING.pop()
        r = expr_skel(e["recv"])
        if e["method"] in NOOP_METHODS and not e["args"]:
            return r
        return r + "." + e["method"] + "(" + ",".join(expr_skel(a) for a in e["args"]) + ")"
    if k == "Call":
        if e["func"].get("k") == "Path" and e["func"]["path"]["s"] in INLINE_FNS and len(_INLINING) < 4 \
                and e["func"]["path"]["s"] not in _INLINING:
            # a call to a single-expression helper of the same file stands for that expression (locals are erased
            # anyway, so no substitution is needed)
            nm = e["func"]["path"]["s"]
            _INLINING.append(nm)
            try:
                return expr_skel(INLINE_FNS[nm])
            finally:
                _INLINING.pop()
        return expr_skel(e["func"]) if e["func"].get("k") != "Path" else \
            e["func"]["path"]["s"] + "(" + ",".join(expr_skel(a) for a in e["args"]) + ")"
    if k == "Binary":
        op = e["op"]
        a, b = expr_skel(e["lhs"]), expr_skel(e["rhs"])
        if op in FLIP:
            op, a, b = FLIP[op], b, a
        if op in ("&&", "||", "==", "!=", "+", "*", "|", "&"):
            a, b = sorted([a, b])
        return f"({a} {op} {b})"
    if k == "Range":
        return (expr_skel(e["lo"]) if "lo" in e else "") + ("..=" if e.get("closed") else "..") + \
               (expr_skel(e["hi"]) if "hi" in e else "")
    if k == "Macro":
        if e["path"] in ("matches",):
            return "matches!(" + _tok_skel(e["tokens"]) + ")"
        if e["path"] in ("format", "vec", "println", "unreachable", "todo", "panic"):
            return e["path"] + "!"
        return e["path"] + "!(" + _tok_skel(e["tokens"]) + ")"
    if k == "Closure":
        return "|" + ",".join(pat_skel(p) for p in e["params"]) + "|" + expr_skel(e["body"])
    if k == "Match":
        return "match " + expr_skel(e["e"]) + "{" + ";".join(
            pat_skel(a["pat"]) + ("?" + expr_skel(a["guard"]) if a.get("guard") else "") + "=>" + expr_skel(a["body"])
            for a in e["arms"]) + "}"
    if k == "If":
        return "if " + expr_skel(e["cond"]) + "{" + block_skel(e["then"]) + "}" + \
               ("else{" + expr_skel(e["else"]) + "}" if "else" in e else "")
    if k == "LetCond":
        return "let " + pat_skel(e["pat"]) + "=" + expr_skel(e["e"])
    if k == "Block":
        return "{" + block_skel(e["stmts"]) + "}"
    if k == "Tuple":
        return "(" + ",".join(expr_skel(x) for x in e["elems"]) + ")"
    if k == "Struct":
        return e["path"]["s"] + "{..}"
    if k == "Index":
        return expr_skel(e["base"]) + "[" + expr_skel(e["index"]) + "]"
    if k == "Try":
        return expr_skel(e["e"]) + "?"
    if k == "Return":
        return "return " + expr_skel(e.get("e"))
    if k == "Array":
        return "[" + ",".join(expr_skel(x) for x in e["elems"]) + "]"
    if k == "Assign":
        return expr_skel(e["lhs"]) + "=" + expr_skel(e["rhs"])
    return k or "?"


def block_skel(stmts):
    out = []
    for s in stmts:
        if s.get("k") == "ExprStmt":
            out.append(expr_skel(s["e"]))
        elif s.get("k") == "Let":
            out.append("let " + pat_skel(s["pat"]) + "=" + expr_skel(s.get("init")))
    return ";".join(out)


def _tok_skel(t):
    import re
    t = re.sub(r"\s+", "", t)
    # local identifiers (lower-case, not followed by ::, ( or :) -> _
    return re.sub(r"(?<![\w:.])([a-z_][a-z0-9_]*)(?![\w:(]|::)", lambda m: m.group(0) if m.group(1) in ("matches",) else "_", t)


def guard_chains(fn, want):
    """For every node satisfying want(node) inside fn: the list of enclosing conditions
    (skeletons) from the function root. Returns [(node, [ctx...])]."""
    out = []

    def visit(n, ctx):
        if isinstance(n, list):
            for x in n:
                visit(x, ctx)
            return
        if not isinstance(n, dict):
            return
        k = n.get("k")
        if want(n):
            out.append((n, list(ctx)))
        if k == "If":
            c = n["cond"]
            if c.get("k") == "LetCond":
                visit(c["e"], ctx)
                cs = "if let " + pat_skel(c["pat"]) + " = " + expr_skel(c["e"])
            else:
                visit(c, ctx)
                cs = "if " + expr_skel(c)
            visit(n["then"], ctx + [cs])
            if "else" in n:
                visit(n["else"], ctx + ["else-of " + cs])
            return
        if k == "Match":
            visit(n["e"], ctx)
            prev = []
            for a in n["arms"]:
                ps = pat_skel(a["pat"]) + (" if " + expr_skel(a["guard"]) if a.get("guard") else "")
                head = "match " + expr_skel(n["e"]) + " { after[" + ";".join(prev) + "] arm " + ps + " }"
                if a.get("guard"):
                    visit(a["guard"], ctx)
                visit(a["body"], ctx + [head])
                prev.append(ps)
            return
        if k == "For":
            visit(n["iter"], ctx)
            visit(n["body"], ctx + ["for " + pat_skel(n["pat"]) + " in " + expr_skel(n["iter"])])
            return
        if k == "While":
            visit(n["cond"], ctx)
            visit(n["body"], ctx + ["while " + expr_skel(n["cond"])])
            return
        if k == "Closure":
            visit(n["body"], ctx + ["closure"])
            return
        if k == "Fn":
            return      # nested fns are handled as separate functions
        for key, v in n.items():
            if isinstance(v, (dict, list)):
                visit(v, ctx)

    visit(fn.get("body"), [])
    return out


# ------------------------------------------------------------------ path conditions in a normal form
_NEG_VARIANT = {"None": "Some(_)", "Some(_)": "None", "Ok(_)": "Err(_)", "Err(_)": "Ok(_)"}


def _split_top(tokens):
    """split a macro token string at its first top-level comma"""
    depth = 0
    for i, ch in enumerate(tokens):
        if ch in "([{":
            depth += 1
        elif ch in ")]}":
            depth -= 1
        elif ch == "," and depth == 0:
            return tokens[:i], tokens[i + 1:]
    return tokens, ""


def _pat_tok(t):
    import re
    t = _tok_skel(t)
    t = t.replace("{..}", "{}").replace("(..)", "(_)").replace(",..}", "}").replace(",..)", ")")
    return re.sub(r"\b_\b(?=[\w])", "_", t)


def _variants(ps):
    """last path segments of the alternatives of a pattern skeleton; None for a catch-all"""
    import re
    out = set()
    for alt in ps.split("|"):
        alt = alt.strip()
        if alt in ("_", "") or alt.startswith("("):
            return None
        m = re.match(r"([\w:]+)", alt)
        if not m:
            return None
        out.add(m.group(1).split("::")[-1])
    return out


def pat_disjoint(p, q):
    """True when no value can match both patterns (same scrutinee type assumed); False when unsure"""
    def strip(x):
        while x.get("k") in ("PRef", "PType") or (x.get("k") == "PIdent" and x.get("sub")):
            x = x.get("pat") or x.get("sub")
        return x
    p, q = strip(p), strip(q)

    def catch_all(x):
        return x.get("k") in ("PWild", "PRest") or (x.get("k") == "PIdent" and not (x["id"][:1].isupper() or x["id"] == "None"))
    if catch_all(p) or catch_all(q):
        return False
    if p.get("k") == "POr":
        return all(pat_disjoint(a, q) for a in p["cases"])
    if q.get("k") == "POr":
        return all(pat_disjoint(p, a) for a in q["cases"])

    def ctor(x):
        if x.get("k") == "PIdent":
            return x["id"]
        if x.get("k") in ("PPath", "PTupleStruct", "PStruct"):
            return x["path"]["s"].split("::")[-1]
        return None
    cp, cq = ctor(p), ctor(q)
    if cp is not None and cq is not None:
        if cp != cq:
            return True
        if p.get("k") == "PTupleStruct" and q.get("k") == "PTupleStruct" and len(p["elems"]) == len(q["elems"]):
            return any(pat_disjoint(a, b) for a, b in zip(p["elems"], q["elems"]))
        if p.get("k") == "PStruct" and q.get("k") == "PStruct":
            fq = {f["name"]: f["pat"] for f in q["fields"] if "pat" in f}
            return any(f["name"] in fq and pat_disjoint(f["pat"], fq[f["name"]]) for f in p["fields"] if "pat" in f)
        return False
    if p.get("k") == "PLit" and q.get("k") == "PLit":
        return p["lit"].get("v") != q["lit"].get("v")
    if p.get("k") == "PTuple" and q.get("k") == "PTuple" and len(p["elems"]) == len(q["elems"]):
        return any(pat_disjoint(a, b) for a, b in zip(p["elems"], q["elems"]))
    return False


# ---- finite pattern spaces: `match (a, b) { (Some(0), _) | .. }` as sets of cells
class _NoCells(Exception):
    pass


def _pstrip(p):
    while p.get("k") in ("PRef", "PType") or (p.get("k") == "PIdent" and p.get("sub")):
        p = p.get("pat") or p.get("sub")
    return p


def _is_bind(p):
    return p.get("k") in ("PWild", "PRest") or (p.get("k") == "PIdent" and not (p["id"][:1].isupper() or p["id"] == "None"))


def _alts(p):
    p = _pstrip(p)
    if p.get("k") == "POr":
        out = []
        for c in p["cases"]:
            out += _alts(c)
        return out
    return [p]


def _pat_domain(pats):
    """abstract values distinguishing everything the patterns distinguish"""
    alts = [a for p in pats for a in _alts(p)]
    conc = [a for a in alts if not _is_bind(a)]
    if not conc:
        return ["*"]
    kinds = {a.get("k") for a in conc}
    if kinds <= {"PTuple"}:
        n = {len(a["elems"]) for a in conc}
        if len(n) != 1:
            raise _NoCells()
        n = n.pop()
        doms = [_pat_domain([a["elems"][i] for a in conc]) for i in range(n)]
        out = [()]
        for d in doms:
            out = [x + (v,) for x in out for v in d]
            if len(out) > 512:
                raise _NoCells()
        return out
    if kinds <= {"PLit"}:
        vals = sorted({repr(a["lit"].get("v")) for a in conc})
        return vals + ["<other>"]
    if kinds <= {"PTupleStruct", "PPath", "PIdent"}:
        by = {}
        for a in conc:
            nm = a["id"] if a.get("k") == "PIdent" else a["path"]["s"].split("::")[-1]
            by.setdefault(nm, []).append(a)
        out = []
        for nm in sorted(by):
            subs = [a for a in by[nm] if a.get("k") == "PTupleStruct"]
            if subs:
                if any(len(a["elems"]) != 1 for a in subs):
                    raise _NoCells()
                for v in _pat_domain([a["elems"][0] for a in subs]):
                    out.append((nm, v))
            else:
                out.append((nm,))
        closed = {"Some": {"Some", "None"}, "None": {"Some", "None"}, "Ok": {"Ok", "Err"}, "Err": {"Ok", "Err"}}
        universe = set()
        for nm in by:
            universe |= closed.get(nm, set())
        for nm in sorted(universe - set(by)):
            out.append((nm, "*") if nm in ("Some", "Ok", "Err") else (nm,))
        if not universe:
            out.append(("<other>",))
        return out
    raise _NoCells()


def _pat_matches(p, v):
    p = _pstrip(p)
    if _is_bind(p):
        return True
    k = p.get("k")
    if k == "POr":
        return any(_pat_matches(c, v) for c in p["cases"])
    if k == "PTuple":
        return isinstance(v, tuple) and len(v) == len(p["elems"]) and all(_pat_matches(a, b) for a, b in zip(p["elems"], v))
    if k == "PLit":
        return v == repr(p["lit"].get("v"))
    if k in ("PTupleStruct", "PPath", "PIdent"):
        nm = p["id"] if k == "PIdent" else p["path"]["s"].split("::")[-1]
        if not (isinstance(v, tuple) and v and v[0] == nm):
            return False
        if k == "PTupleStruct":
            if len(v) < 2:
                return False
            return v[1] == "*" and all(_is_bind(_pstrip(e)) for e in p["elems"]) or (v[1] != "*" and _pat_matches(p["elems"][0], v[1])) \
                or (v[1] == "*" and _is_bind(_pstrip(p["elems"][0])))
        return True
    raise _NoCells()


def match_cells(arms):
    """per arm, the cells of the scrutinee's abstract space for which it is the first match; None when the patterns
    are outside the finite fragment (struct patterns, ranges, guards)"""
    if any(a.get("guard") for a in arms):
        return None
    try:
        dom = _pat_domain([a["pat"] for a in arms])
        if dom == ["*"]:
            return None
        out = [[] for _ in arms]
        for v in dom:
            for i, a in enumerate(arms):
                if _pat_matches(a["pat"], v):
                    out[i].append(v)
                    break
        return out
    except _NoCells:
        return None


def cond_literals(c, sign, lets, depth=0):
    """the literals (strings) of the conjunction that `c` (sign True) or its negation (sign False) stands for.
    && / || / ! are taken apart, `matches!`, `if let`, `.is_none()` & co. become `E ~ P`, comparisons are oriented,
    single-assignment boolean locals are replaced by their definitions; anything else is one opaque literal."""
    k = c.get("k")
    if k in ("Paren", "Group"):
        return cond_literals(c["e"], sign, lets, depth)
    if k == "Unary" and c["op"] == "!":
        return cond_literals(c["e"], not sign, lets, depth)
    if k == "Binary" and c["op"] in ("&&", "||"):
        conj = (c["op"] == "&&") == sign
        parts = cond_literals(c["lhs"], sign, lets, depth) , cond_literals(c["rhs"], sign, lets, depth)
        if conj:
            return parts[0] | parts[1]
        # a disjunction: one compound literal, order-insensitive
        alts = sorted(" & ".join(sorted(p)) for p in parts)
        return {"(" + " | ".join(alts) + ")"}
    if k == "LetCond":
        return {_lit_match(_scrut(c["e"], lets), pat_skel(c["pat"]), sign)}
    if k == "Macro" and c.get("path") == "matches":
        e, p = _split_top(c.get("tokens") or "")
        e = _tok_skel(e).lstrip("&")
        guard = None
        if " if " in (c.get("tokens") or ""):
            pass
        return {_lit_match(e, _pat_tok(p), sign)}
    if k == "MethodCall" and not c["args"] and c["method"] in ("is_none", "is_some", "is_ok", "is_err"):
        pat = {"is_none": "None", "is_some": "Some(_)", "is_ok": "Ok(_)", "is_err": "Err(_)"}[c["method"]]
        return {_lit_match(expr_skel(c["recv"]), pat, sign)}
    if k == "Binary" and c["op"] in ("==", "!=", "<", "<=", ">", ">="):
        op = c["op"]
        a, b = expr_skel(c["lhs"]), expr_skel(c["rhs"])
        if not sign:
            op = {"==": "!=", "!=": "==", "<": ">=", ">=": "<", ">": "<=", "<=": ">"}[op]
        if op in (">", ">="):
            op, a, b = {">": "<", ">=": "<="}[op], b, a
        if op in ("==", "!="):
            a, b = sorted([a, b])
        return {f"({a} {op} {b})"}
    if k == "Path" and len(c["path"]["segs"]) == 1 and depth < 4:
        d = lets.get(c["path"]["s"])
        if d is not None:
            return cond_literals(d, sign, lets, depth + 1)
    if k == "Lit" and str(c.get("v")).lower() in ("true", "false"):
        return set() if (str(c.get("v")).lower() == "true") == sign else {"false"}
    s = expr_skel(c)
    return {s if sign else "!" + s}


def _scrut(e, lets, depth=0):
    """skeleton of a scrutinee; a local with a single definition stands for that definition"""
    x = e
    while x.get("k") in ("Paren", "Ref", "Group") or (x.get("k") == "Unary" and x.get("op") == "*"):
        x = x["e"]
    if x.get("k") == "Path" and len(x["path"]["segs"]) == 1 and depth < 4:
        d = lets.get(x["path"]["s"])
        if d is not None:
            return _scrut(d, lets, depth + 1)
    return expr_skel(e)


def _lit_match(e, p, sign):
    e = e.lstrip("&")
    if "|" in p and "(" not in p.split("|")[0]:
        p = "|".join(sorted(x.strip() for x in p.split("|")))
    if not sign:
        if p in _NEG_VARIANT:
            return f"{e} ~ {_NEG_VARIANT[p]}"
        return f"!({e} ~ {p})"
    return f"{e} ~ {p}"


def single_lets(fn):
    """immutable `let x = <expr>;` bindings of a function with exactly one definition of that name"""
    seen, out = {}, {}
    for n in find_all(fn.get("body"), lambda x: x.get("k") == "Let"):
        p = n.get("pat") or {}
        while p.get("k") == "PType":
            p = p["pat"]
        if p.get("k") == "PIdent":
            seen[p["id"]] = seen.get(p["id"], 0) + 1
            if not p.get("mut") and n.get("init") is not None:
                out[p["id"]] = n["init"]
    return {k: v for k, v in out.items() if seen.get(k) == 1}


def guard_literals(fn, want):
    """For every node satisfying want(node) inside fn: the *set* of literals of its path condition (loops included as
    context literals).  Two spellings of one condition -- `match` vs `if matches!` vs `if let`, nested ifs vs `&&`,
    a named boolean vs its definition, swapped operands -- give the same set."""
    out = []
    lets = single_lets(fn)
    LETS.clear()
    LETS.update(lets)

    def diverges(block):
        stmts = block if isinstance(block, list) else (block.get("stmts") if isinstance(block, dict) else None)
        if not stmts:
            return False
        last = stmts[-1]
        e = last.get("e") if last.get("k") == "ExprStmt" else last
        return isinstance(e, dict) and (e.get("k") in ("Continue", "Return", "Break") or
                                        (e.get("k") == "Macro" and e.get("path") in ("unreachable", "panic", "todo")))

    def visit(n, ctx):
        if isinstance(n, list):
            cur = ctx
            for x in n:
                visit(x, cur)
                # early exits: what follows `let P = E else { diverge }` holds E ~ P; what follows
                # `if C { diverge }` holds !C
                if isinstance(x, dict) and x.get("k") == "Let" and x.get("else") is not None and x.get("init") is not None:
                    cur = cur | cond_literals({"k": "LetCond", "pat": x["pat"], "e": x["init"]}, True, lets)
                else:
                    e_ = x.get("e") if isinstance(x, dict) and x.get("k") == "ExprStmt" else x
                    if isinstance(e_, dict) and e_.get("k") == "If" and "else" not in e_ and diverges(e_["then"]):
                        cur = cur | cond_literals(e_["cond"], False, lets)
            return
        if not isinstance(n, dict):
            return
        k = n.get("k")
        if want(n):
            out.append((n, frozenset(ctx)))
        if k == "Let" and n.get("else") is not None and n.get("init") is not None:
            visit(n["init"], ctx)
            visit(n["else"], ctx | cond_literals({"k": "LetCond", "pat": n["pat"], "e": n["init"]}, False, lets))
            return
        if k == "If":
            c = n["cond"]
            visit(c["e"] if c.get("k") == "LetCond" else c, ctx)
            visit(n["then"], ctx | cond_literals(c, True, lets))
            if "else" in n:
                visit(n["else"], ctx | cond_literals(c, False, lets))
            return
        if k == "Match":
            visit(n["e"], ctx)
            scrut = _scrut(n["e"], lets).lstrip("&")
            cells = match_cells(n["arms"]) if n["e"].get("k") == "Tuple" else None
            if cells is not None:
                # a match on a tuple of Options / literals: each arm stands for the cells it is the first match of
                for a, cs in zip(n["arms"], cells):
                    visit(a["body"], ctx | {f"{scrut} in {{" + "; ".join(sorted(repr(c_) for c_ in cs)) + "}"})
                return
            prev = []
            for a in n["arms"]:
                ps = pat_skel(a["pat"])
                lits = set()
                if ps != "_":
                    lits.add(_lit_match(scrut, ps, True))
                if a.get("guard"):
                    lits |= cond_literals(a["guard"], True, lets)
                    visit(a["guard"], ctx)
                for (pps, pg, ppat) in prev:
                    if pat_disjoint(a["pat"], ppat):
                        continue        # an earlier arm that cannot match the same value says nothing about this one
                    if pg is None:
                        lits.add(_lit_match(scrut, pps, False) if pps != "_" else "false")
                    elif pps == "_":
                        lits |= cond_literals(pg, False, lets)
                    else:
                        inner = sorted(({_lit_match(scrut, pps, True)} if pps != "_" else set()) | cond_literals(pg, True, lets))
                        lits.add("!(" + " & ".join(inner) + ")")
                visit(a["body"], ctx | lits)
                prev.append((ps, a.get("guard"), a["pat"]))
            return
        if k == "For":
            visit(n["iter"], ctx)
            visit(n["body"], ctx | {"for " + pat_skel(n["pat"]) + " in " + expr_skel(n["iter"])})
            return
        if k == "While":
            c = n["cond"]
            visit(c["e"] if c.get("k") == "LetCond" else c, ctx)
            visit(n["body"], ctx | {"while"} | cond_literals(c, True, lets))
            return
        if k == "Closure":
            visit(n["body"], ctx | {"closure"})
            return
        if k == "Fn":
            return
        for key, v in n.items():
            if isinstance(v, (dict, list)):
                visit(v, ctx)

    try:
        visit(fn.get("body"), frozenset())
    finally:
        LETS.clear()
    return out


def sources_of_arg(fn, arg_n):
    """skeletons of what flows into a call argument: the expression itself, or -- when it is a local -- its initialiser,
    the arguments of the insert/extend/push calls that fill it and the iterated expressions of the loops around them"""
    if arg_n is None:
        return ""
    x = arg_n
    while x.get("k") in ("Ref", "Paren", "Group"):
        x = x["e"]
    if not (x.get("k") == "Path" and len(x["path"]["segs"]) == 1):
        return expr_skel(arg_n)
    var = x["path"]["s"]
    srcs = []
    for st in find_all(fn, lambda y: y.get("k") == "Let"):
        p_ = st.get("pat") or {}
        while p_.get("k") == "PType":
            p_ = p_["pat"]
        if p_.get("k") == "PIdent" and p_.get("id") == var and st.get("init") is not None:
            srcs.append(expr_skel(st["init"]))

    def fills(node, loops):
        if isinstance(node, list):
            for y in node:
                fills(y, loops)
            return
        if not isinstance(node, dict):
            return
        if node.get("k") == "For":
            fills(node["body"], loops + [expr_skel(node["iter"])])
            return
        if node.get("k") == "MethodCall" and node["method"] in ("insert", "extend", "push", "entry") and \
                node["recv"].get("k") == "Path" and node["recv"]["path"]["s"] == var:
            srcs.extend(loops)
            srcs.extend(expr_skel(a_) for a_ in node["args"])
        for v_ in node.values():
            if isinstance(v_, (dict, list)):
                fills(v_, loops)
    fills(fn.get("body"), [])
    return " ; ".join(srcs) or expr_skel(arg_n)
