"""Thorough-tier corpus: systematic products and seeded random well-formed descriptions,
built as data (vlib/pdl.py model) and rendered to PDL text.  Deterministic in the seed."""
import itertools
import random

from . import pdl
from .pdl import Field, Decl, Enum, Tag, File


def _file(name, decls, group="generated"):
    from .stages import Entry
    out = []
    for end, suf in (("little", "le"), ("big", "be")):
        f = File(end, decls, name)
        out.append(Entry(f"g_{name}_{suf}", pdl.render(f), {}, group, "corpusgen"))
    return out


def scalar(n, w):
    return Field("scalar", name=n, width=w)


BASE_DECLS = [
    Enum("E8", 8, [Tag("A", value=1), Tag("B", value=2), Tag("C", value=0xfe)]),
    Enum("E3", 3, [Tag("A", value=0), Tag("B", value=5)]),
    Enum("E5o", 5, [Tag("A", value=1), Tag("Other", default=True)]),
    Enum("E16", 16, [Tag("A", value=1), Tag("R", lo=0x100, hi=0x1ff), Tag("B", value=0xffff)]),
    Enum("E24", 24, [Tag("A", value=1), Tag("B", value=0xabcdef)]),
    Decl("struct", "S3", fields=[scalar("a", 8), scalar("b", 16)]),
    Decl("struct", "S8", fields=[scalar("a", 24), Field("typedef", name="e", type="E8"), scalar("c", 32)]),
    Decl("struct", "SD", fields=[Field("size", target="x", width=8), Field("array", name="x", width=8)]),
    Decl("struct", "SC", fields=[scalar("t", 8), Field("count", target="x", width=8), Field("array", name="x", width=16)]),
]


def gen_bitfields(rng):
    """compositions of 8/16/24/32/40/64-bit groups"""
    out = []
    decls = list(BASE_DECLS[:4])
    i = 0
    kinds = ["scalar", "scalar", "enum3", "enum5o", "reserved", "fixed", "scalar"]
    for total in (8, 16, 24, 32, 40, 64):
        comps = set()
        for _ in range(60):
            n = rng.randint(2, 5)
            cuts = sorted(rng.sample(range(1, total), min(n - 1, total - 1)))
            widths = [b - a for a, b in zip([0] + cuts, cuts + [total])]
            comps.add(tuple(widths))
        for widths in sorted(comps)[:14]:
            fields = []
            for j, w in enumerate(widths):
                k = rng.choice(kinds)
                if k == "enum3" and w == 3:
                    fields.append(Field("typedef", name=f"f{j}", type="E3"))
                elif k == "enum5o" and w == 5:
                    fields.append(Field("typedef", name=f"f{j}", type="E5o"))
                elif k == "reserved":
                    fields.append(Field("reserved", width=w))
                elif k == "fixed" and w <= 32:
                    fields.append(Field("fixed_scalar", width=w, value=rng.randint(0, (1 << w) - 1)))
                else:
                    fields.append(scalar(f"f{j}", w))
            if all(f.kind in ("reserved", "fixed_scalar") for f in fields):
                fields[0] = scalar("f0", widths[0])
            decls.append(Decl("packet", f"B{total}_{i}", fields=fields))
            i += 1
    for k in range(0, len(decls) - 4, 24):
        out += _file(f"bits{k // 24}", decls[:4] + decls[4 + k:4 + k + 24])
    return out


def gen_arrays(rng):
    out = []
    elems = [("w", 8), ("w", 16), ("w", 24), ("w", 32), ("w", 40), ("w", 64), ("t", "E8"), ("t", "E16"), ("t", "E24"),
             ("t", "S3"), ("t", "S8"), ("t", "SD"), ("t", "SC")]
    shapes = [("static", 1), ("static", 3), ("count", 3), ("count", 8), ("count", 13), ("count", 16), ("size", 8), ("size", 12),
              ("size", 16), ("rest", 0)]
    decls = []
    i = 0
    for (ek, ev), (sk, sv), pad, tail in itertools.product(elems, shapes, (None, 120), (False, True)):
        if pad is not None and rng.random() < 0.6:
            continue
        if tail and sk == "rest" and pad is None:
            continue          # fields after an open-ended array: see known finding D24
        fields = []
        extra = 0
        if sk == "count":
            fields.append(Field("count", target="x", width=sv))
            extra = (8 - sv % 8) % 8
        elif sk == "size":
            fields.append(Field("size", target="x", width=sv))
            extra = (8 - sv % 8) % 8
        if extra:
            fields.append(scalar("p", extra) if rng.random() < 0.5 else Field("reserved", width=extra))
        arr = Field("array", name="x")
        if ek == "w":
            arr.width = ev
        else:
            arr.type = ev
        if sk == "static":
            arr.count = sv
        fields.append(arr)
        if pad is not None:
            fields.append(Field("padding", value=pad))
        if tail:
            fields.append(scalar("t", 16))
        decls.append(Decl("packet", f"A{i}", fields=fields))
        i += 1
    rng.shuffle(decls)
    for k in range(0, len(decls), 30):
        out += _file(f"arr{k // 30}", BASE_DECLS + decls[k:k + 30])
    return out


def gen_payload_optional(rng):
    out = []
    decls = []
    i = 0
    for w, mod, tail in itertools.product((4, 8, 12, 16, 24, 32), (None, 1, 5), (0, 8, 24)):
        fields = [Field("size", target="_payload_", width=w)]
        extra = (8 - w % 8) % 8
        if extra:
            fields.append(scalar("p", extra))
        if rng.random() < 0.5:
            fields.insert(0, scalar("h", 8))
        fields.append(Field("payload", size_modifier=mod))
        if tail:
            fields.append(scalar("t", tail))
        decls.append(Decl("packet", f"P{i}", fields=fields))
        i += 1
    inner = [("w", 8), ("w", 16), ("w", 24), ("w", 32), ("w", 40), ("w", 64), ("t", "E8"), ("t", "E16"), ("t", "E24"), ("t", "S3"),
             ("t", "SD")]
    for n_opt in (1, 2, 3):
        for _ in range(10):
            nflags = rng.randint(1, n_opt)
            flags = [f"c{j}" for j in range(nflags)]
            pre = rng.randint(0, 8 - nflags)
            fields = []
            if pre:
                fields.append(scalar("pre", pre))
            for f in flags:
                fields.append(scalar(f, 1))
            rest = 8 - pre - nflags
            if rest:
                fields.append(Field("reserved", width=rest))
            for j in range(n_opt):
                ek, ev = rng.choice(inner)
                fl = flags[j % nflags]
                val = rng.randint(0, 1)
                if ek == "w":
                    fields.append(Field("scalar", name=f"o{j}", width=ev, cond=(fl, val)))
                else:
                    fields.append(Field("typedef", name=f"o{j}", type=ev, cond=(fl, val)))
            if rng.random() < 0.5:
                fields.append(scalar("t", 8))
            decls.append(Decl("packet", f"O{i}", fields=fields))
            i += 1
    for k in range(0, len(decls), 28):
        out += _file(f"plopt{k // 28}", BASE_DECLS + decls[k:k + 28])
    return out


def gen_enums(rng):
    out = []
    enums = []
    uses = []
    i = 0
    for w in (1, 2, 3, 4, 5, 7, 8, 9, 12, 15, 16, 17, 24, 31, 32, 33, 48, 63, 64):
        mx = (1 << w) - 1
        for variant in range(4):
            tags = []
            used = set()

            def fresh():
                for _ in range(50):
                    v = rng.choice([0, mx, rng.randint(0, mx), rng.randint(0, min(mx, 300))])
                    if v not in used:
                        used.add(v)
                        return v
                return None
            nvals = rng.randint(1, 4)
            for j in range(nvals):
                v = fresh()
                if v is not None:
                    tags.append(Tag(f"V{j}", value=v))
            if variant in (1, 3) and w >= 3:
                # a range that avoids the single values
                for _ in range(20):
                    lo = rng.randint(0, mx - 1)
                    hi = rng.randint(lo + 1, min(mx, lo + rng.choice([1, 3, 16, 255])))
                    if not any(lo <= u <= hi for u in used):
                        sub = []
                        if rng.random() < 0.6:
                            sv = rng.randint(lo, hi)
                            sub.append(Tag("Sub", value=sv))
                        for u in range(lo, min(hi, lo + 400) + 1):
                            used.add(u)
                        used.add(hi)
                        tags.append(Tag("R", lo=lo, hi=hi, subtags=sub))
                        break
            if variant in (2, 3):
                tags.insert(rng.randint(1, len(tags)), Tag("Dflt", default=True))
            if variant == 0 and w <= 3 and rng.random() < 0.5:
                tags = [Tag(f"V{v}", value=v) for v in range(mx + 1)]      # complete
            if tags and tags[0].default:
                tags = tags[1:] + tags[:1]
            if not [t for t in tags if not t.default]:
                tags.insert(0, Tag("V0", value=0))
            name = f"En{w}_{variant}"
            enums.append(Enum(name, w, tags))
            pad = (8 - w % 8) % 8
            fs = [Field("typedef", name="e", type=name)]
            if pad:
                fs.append(Field("reserved", width=pad))
            uses.append(Decl("packet", f"UseEn{i}", fields=fs))
            if w % 8 == 0:
                uses.append(Decl("packet", f"ArrEn{i}", fields=[Field("count", target="x", width=8),
                                                                Field("array", name="x", type=name)]))
            i += 1
    for k in range(0, len(enums), 20):
        es = enums[k:k + 20]
        names = {e.name for e in es}
        us = [u for u in uses if any(f.type in names for f in u.fields)]
        out += _file(f"enum{k // 20}", es + us)
    return out


def gen_inheritance(rng):
    out = []
    for t in range(14):
        decls = [Enum("K", 8, [Tag("K0", value=0), Tag("K1", value=1), Tag("K2", value=2), Tag("Other", default=True)]),
                 Enum("Op", 4, [Tag("Get", value=1), Tag("Set", value=2), Tag("Del", value=3)]),
                 Decl("struct", "S3", fields=[scalar("a", 8), scalar("b", 16)])]
        kind = rng.choice(["packet", "struct"])
        sized = rng.random() < 0.6
        body = rng.random() < 0.2
        root_fields = [Field("typedef", name="k", type="K"), Field("typedef", name="op", type="Op"), scalar("v", 4), scalar("w", 8)]
        if rng.random() < 0.4:
            root_fields += [Field("count", target="arr", width=8), Field("array", name="arr", width=16)]
        if sized:
            root_fields.append(Field("size", target="_body_" if body else "_payload_", width=rng.choice([8, 16])))
        root_fields.append(Field("body") if body else Field("payload", size_modifier=None))
        if rng.random() < 0.4:
            root_fields.append(scalar("crc", 16))
        decls.append(Decl(kind, "Root", fields=root_fields))
        consts = {"k": ["K0", "K1", "K2"], "op": ["Get", "Set", "Del"], "v": [0, 1, 2, 3], "w": [0, 7, 255]}
        nodes = [("Root", {}, 0, ["k", "op", "v", "w"])]
        n = 0
        used_sets = []
        for depth in (1, 2, 3):
            parents = [x for x in nodes if x[2] == depth - 1]
            for (pn, pcs, pd, pfree) in parents:
                if pn != "Root" and not any(f.kind in ("payload", "body") for f in next(d for d in decls if getattr(d, "name", "") == pn).fields):
                    continue
                nk = rng.randint(1, 3) if depth < 3 else rng.randint(0, 2)
                for _ in range(nk):
                    free = list(pfree)
                    rng.shuffle(free)
                    ncons = rng.choice([0, 1, 1, 2]) if free else 0
                    cs = {}
                    for f in free[:ncons]:
                        cs[f] = rng.choice(consts[f])
                    allc = dict(pcs)
                    allc.update(cs)
                    key = tuple(sorted(allc.items(), key=str))
                    alias = not cs and rng.random() < 0.5
                    if not cs and not alias:
                        continue
                    if key in used_sets and cs:
                        continue
                    used_sets.append(key)
                    name = f"N{n}"
                    n += 1
                    fields = []
                    if alias:
                        fields = [Field("payload")]
                    else:
                        for j in range(rng.randint(0, 2)):
                            fields.append(scalar(f"{name.lower()}f{j}", rng.choice([8, 16, 24])))
                        r_ = rng.random()
                        if r_ < 0.3 and depth < 3:
                            fields.append(Field("payload"))
                        elif r_ < 0.5:
                            fields.append(Field("array", name=f"{name.lower()}a", width=8))
                        elif r_ < 0.6:
                            fields += [Field("size", target=f"{name.lower()}s", width=8),
                                       Field("array", name=f"{name.lower()}s", type="S3")]
                    decls.append(Decl(kind, name, parent=pn, constraints=cs, fields=fields))
                    nodes.append((name, allc, depth, [f for f in pfree if f not in cs]))
        if kind == "struct":
            decls.append(Decl("packet", "Use", fields=[Field("typedef", name="r", type="Root")]))
        out += _file(f"inh{t}", decls)
    # children told apart by size
    for t in range(4):
        decls = [Decl("packet", "Root", fields=[scalar("a", 8), Field("payload")])]
        sizes = rng.sample([8, 16, 24, 32, 48], 3)
        for j, s in enumerate(sizes):
            decls.append(Decl("packet", f"C{j}", parent="Root", fields=[scalar("x", s)]))
        if t % 2:
            decls.append(Decl("packet", "CDyn", parent="Root", fields=[Field("count", target="y", width=8),
                                                                        Field("array", name="y", width=16)]))
        out += _file(f"inhsz{t}", decls)
    return out


def gen_nesting(rng):
    out = []
    for t in range(6):
        decls = list(BASE_DECLS)
        decls.append(Decl("struct", "Tlv", fields=[scalar("t", 8), Field("size", target="_payload_", width=8), Field("payload")]))
        decls.append(Decl("struct", "TlvA", parent="Tlv", constraints={"t": 1}, fields=[scalar("v", 16)]))
        decls.append(Decl("struct", "Deep", fields=[Field("typedef", name="s", type="S8"), Field("typedef", name="d", type="SD"),
                                                     Field("array", name="cs", type="SC", count=2)]))
        decls.append(Decl("packet", "Frame", fields=[scalar("seq", 8), Field("size", target="_payload_", width=rng.choice([8, 16])),
                                                      Field("payload"), scalar("crc", 8)]))
        for j in range(5):
            fs = []
            for k in range(rng.randint(1, 4)):
                c = rng.random()
                nm = f"f{k}"
                if c < 0.2:
                    fs.append(scalar(nm, rng.choice([8, 16, 24])))
                elif c < 0.4:
                    fs.append(Field("typedef", name=nm, type=rng.choice(["S3", "S8", "SD", "Deep", "Tlv", "TlvA"])))
                elif c < 0.6:
                    fs += [Field("count", target=nm, width=8), Field("array", name=nm, type=rng.choice(["S3", "SD", "Tlv", "Deep"]))]
                elif c < 0.8:
                    fs += [Field("size", target=nm, width=16), Field("array", name=nm, type=rng.choice(["S3", "SC", "Tlv"]))]
                else:
                    fs.append(Field("typedef", name=nm, type="E8"))
            decls.append(Decl("packet", f"D{j}", parent="Frame", constraints={"seq": j}, fields=fs))
        out += _file(f"nest{t}", decls)
    return out


def generate(seed=0):
    rng = random.Random(seed * 7919 + 13)
    out = []
    out += gen_bitfields(rng)
    out += gen_arrays(rng)
    out += gen_payload_optional(rng)
    out += gen_enums(rng)
    out += gen_inheritance(rng)
    out += gen_nesting(rng)
    return out
